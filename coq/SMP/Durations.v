(* C02 over whole runs: every machine transition the simulator applies is applied EXACTLY when due (not early: it
   was created when occupied_till <= now and nothing in its batch touches that machine; not late: clock invariant),
   hence a completed operation's recorded interval is its configured (deterministic) processing time plus the
   outage time added at its completion - exactly the processing time on a machine without outage configuration.
   Invariants BO (a busy machine's PROCESSING record ends at the machine's occupied_till) and DUR, carried with the
   invariants of SMP/ProvBatch.v (instances with unordered machine post-buffers) through SMP/LiftProv.v. *)
From Coq Require Import List ZArith Bool Arith Lia.
From JSL Require Import Base.Res Base.ListX SM.Types SM.Util SM.Handler SM.Step SM.Middleware SM.Inv
  SMP.ListLemmas SMP.Frame SMP.WF SMP.Preserve SMP.StepInv SMP.Clock SMP.ClockStep SMP.ClockMain SMP.Post SMP.PostApply
  SMP.LiftSide SMP.FeasView SMP.Feasible SMP.FeasSound SMP.Agv SMP.OutputDone SMP.Offers SMP.Unique SMP.Reflect
  SMP.Prov SMP.LiftProv SMP.ProvBatch.
Import ListNotations.
Close Scope Z_scope.

(* phase, occupied_till and internal store of a machine *)
Definition mrec (x : state) (m : nat) : option (mstate * time * list nat) :=
  option_map (fun ms => (m_st ms, m_occ ms, b_store (m_in ms))) (nth_error (s_machs x) m).

Lemma mrec_of x m ms : nth_error (s_machs x) m = Some ms -> mrec x m = Some (m_st ms, m_occ ms, b_store (m_in ms)).
Proof. intros H. unfold mrec. rewrite H. reflexivity. Qed.

Lemma mrec_put_job x j jb m : mrec (put_job x j jb) m = mrec x m. Proof. reflexivity. Qed.
Lemma mrec_with_sto x s m : mrec (with_sto x s) m = mrec x m. Proof. reflexivity. Qed.
Lemma mrec_set_now x z m : mrec (set_now x z) m = mrec x m. Proof. reflexivity. Qed.
Lemma mrec_set_trans_ctl x t st oc loc jb outs m : mrec (set_trans_ctl x t st oc loc jb outs) m = mrec x m.
Proof. unfold mrec. destruct (set_trans_ctl_other x t st oc loc jb outs) as [_ [_ [H _]]]. rewrite H. reflexivity. Qed.
Lemma mrec_set_mach_ctl_other x m st oc tool outs m' : m' <> m -> mrec (set_mach_ctl x m st oc tool outs) m' = mrec x m'.
Proof.
  intros Hn. unfold mrec. rewrite set_mach_ctl_nth. destruct (nth_error (s_machs x) m') as [ms|]; [|reflexivity].
  destruct (Nat.eqb_spec m m'); [congruence|reflexivity].
Qed.

Section Mv.
Variable i : inst.

Lemma mrec_moved_other x x1 j A B m : moved i x x1 j A B -> BIn m <> A -> BIn m <> B -> mrec x1 m = mrec x m.
Proof.
  intros M HA HB. pose proof (mv_other _ _ _ _ _ _ M (BIn m) HA HB) as Hb. simpl in Hb. unfold mrec.
  destruct (nth_error (s_machs x1) m) as [ms1|] eqn:E1.
  - destruct (mv_machs _ _ _ _ _ _ M _ _ E1) as [ms0 [E0 [C1 [C2 [C3 C4]]]]]. rewrite E0 in *. simpl in *. inversion Hb. congruence.
  - simpl in Hb. destruct (nth_error (s_machs x) m); [discriminate|reflexivity].
Qed.

(* a move that does not END in a machine's internal buffer: phases and occupied_till stay, internal stores can only shrink *)
Lemma mrec_moved_sub x x1 j A B m st oc l1 :
  moved i x x1 j A B -> (forall m', B <> BIn m') -> mrec x1 m = Some (st, oc, l1) ->
  exists l0, mrec x m = Some (st, oc, l0) /\ forall k, In k l1 -> In k l0.
Proof.
  intros M HB H1. destruct (bid_eq_dec (BIn m) A) as [EA|NA].
  - subst A. destruct (mv_a _ _ _ _ _ _ M) as [a [a' [G1 [G2 G3]]]]. apply remove_from_buffer_ok in G2. destruct G2 as [_ [G2 _]].
    simpl in G1, G3. unfold mrec in *.
    destruct (nth_error (s_machs x1) m) as [ms1|] eqn:E1; [|discriminate].
    destruct (mv_machs _ _ _ _ _ _ M _ _ E1) as [ms0 [E0 [C1 [C2 _]]]]. rewrite E0 in *. simpl in *.
    inversion G1; inversion G3; inversion H1; subst. eexists. split; [rewrite C1, C2; reflexivity|].
    intros k Hk. rewrite G2 in Hk. unfold remove_nat in Hk. apply filter_In in Hk. tauto.
  - rewrite (mrec_moved_other _ _ _ _ _ m M NA) in H1 by (intros E; apply (HB m); auto). eauto.
Qed.

End Mv.

Section D.
Variable sigma : oracle.
Variable i : inst.
Hypothesis Hnn : inst_nonneg_b i = true.

(* ---------- frames of one applied transition ---------- *)
Lemma machine_tr_mrec_other x tr x' m m' :
  apply_transition sigma i x tr = Ok x' -> tr_comp tr = CM m -> m' <> m -> mrec x' m' = mrec x m'.
Proof.
  intros H Hc Hn.
  destruct (nth_error (s_machs x) m) as [ms|] eqn:Hms; [|unfold apply_transition in H; rewrite Hc, Hms in H; discriminate].
  destruct (apply_machine sigma i _ _ _ _ _ Hc Hms H) as [[_ [_ C]]|[[_ [_ C]]|[[_ [_ C]]|[_ [_ C]]]]].
  - unfold h_m_idle_setup in C. inv_all C. inversion C; subst; clear C.
    assert (Hne : BPre m <> BIn m) by congruence.
    match goal with E' : move_job _ _ _ _ _ = Ok ?y |- _ => pose proof (move_job_moved i _ _ _ _ _ Hne E') as M end.
    rewrite mrec_with_sto, mrec_set_mach_ctl_other by auto.
    rewrite (mrec_moved_other i _ _ _ _ _ m' M) by congruence. apply mrec_put_job.
  - unfold h_m_setup_working in C. inv_all C. inversion C; subst; clear C.
    rewrite mrec_with_sto, mrec_set_mach_ctl_other by auto. apply mrec_put_job.
  - unfold h_m_working_outage in C. inv_all C. inversion C; subst; clear C.
    rewrite mrec_with_sto, mrec_set_mach_ctl_other by auto. apply mrec_put_job.
  - unfold h_m_outage_idle in C. inv_all C. inversion C; subst; clear C.
    assert (Hne : BIn m <> BPost m) by congruence.
    match goal with E' : move_job _ _ _ _ _ = Ok ?y |- _ => pose proof (move_job_moved i _ _ _ _ _ Hne E') as M end.
    rewrite mrec_set_mach_ctl_other by auto.
    rewrite (mrec_moved_other i _ _ _ _ _ m' M) by congruence. apply mrec_put_job.
Qed.

Lemma transport_tr_frame x tr x' t :
  apply_transition sigma i x tr = Ok x' -> tr_comp tr = CT t ->
  (forall j, jops x' j = jops x j) /\
  (forall m st oc l1, mrec x' m = Some (st, oc, l1) -> exists l0, mrec x m = Some (st, oc, l0) /\ forall k, In k l1 -> In k l0).
Proof.
  intros H Hc.
  assert (Same : forall y, (forall j, jops y j = jops x j) -> (forall m, mrec y m = mrec x m) ->
     (forall j, jops y j = jops x j) /\
     (forall m st oc l1, mrec y m = Some (st, oc, l1) -> exists l0, mrec x m = Some (st, oc, l0) /\ forall k, In k l1 -> In k l0)).
  { intros y A B. split; auto. intros m st oc l1 Hm. rewrite B in Hm. eauto. }
  destruct (nth_error (s_trans x) t) as [ts|] eqn:Hts; [|unfold apply_transition in H; rewrite Hc, Hts in H; discriminate].
  destruct (apply_transport sigma i _ _ _ _ _ Hc Hts H) as [[_ [_ C]]|[[_ [_ C]]|[[_ [_ C]]|[[_ [_ C]]|[[_ [_ C]]|[_ [_ C]]]]]]].
  - unfold h_t_idle_working in C. inv_all C. inversion C; subst; clear C.
    apply Same; intros; [apply jops_set_trans_ctl|apply mrec_set_trans_ctl].
  - unfold h_t_pickup_waiting in C. inv_all C. inversion C; subst; clear C.
    apply Same; intros; [apply jops_set_trans_ctl|apply mrec_set_trans_ctl].
  - destruct (post_to_transit sigma i _ _ _ _ _ Hts C) as [j [jb [sb [sc [Hj [Hjb [Hsb [Hsc _]]]]]]]].
    unfold h_t_to_transit in C. rewrite Hj in C. simpl in C. unfold get_job in C. rewrite Hjb in C. simpl in C.
    rewrite Hsb, Hsc in C. simpl in C. inv1 C. inv1 C.
    { unfold h_t_waiting_waiting in C. inv_all C. inversion C; subst; clear C.
      apply Same; intros; [apply jops_set_trans_ctl|apply mrec_set_trans_ctl]. }
    inv_all C. inversion C; subst; clear C.
    assert (Hn2 : j_loc jb <> BAgv t) by (intros Eq; rewrite Eq in *; discriminate).
    match goal with E' : move_job _ _ _ _ _ = Ok ?y |- _ => pose proof (move_job_moved i _ _ _ _ _ Hn2 E') as M end.
    split.
    + intros j0. rewrite jops_with_sto, jops_set_trans_ctl. apply (jops_moved i _ _ _ _ _ j0 M).
    + intros m st oc l1 Hm. rewrite mrec_with_sto, mrec_set_trans_ctl in Hm.
      eapply (mrec_moved_sub i); eauto. intros m' Ebad. discriminate.
  - unfold h_t_transit_outage in C. inv_all C. inversion C; subst; clear C.
    match goal with E' : move_job _ _ _ (BAgv t) ?B = Ok ?y |- _ =>
      assert (Hn2 : BAgv t <> B /\ forall m', B <> BIn m') by
        (match goal with E'' : match ?d with PM _ => _ | PB _ => _ | PT _ => _ end = Ok B |- _ =>
           destruct d; inv_all E''; inversion E''; subst; split; congruence end);
      pose proof (move_job_moved i _ _ _ _ _ (proj1 Hn2) E') as M end.
    split.
    + intros j0. rewrite jops_with_sto, jops_set_trans_ctl. apply (jops_moved i _ _ _ _ _ j0 M).
    + intros m st oc l1 Hm. rewrite mrec_with_sto, mrec_set_trans_ctl in Hm.
      eapply (mrec_moved_sub i); eauto. apply Hn2.
  - unfold h_t_outage_idle in C. inversion C; subst; clear C.
    apply Same; intros; [apply jops_set_trans_ctl|apply mrec_set_trans_ctl].
  - unfold h_t_waiting_waiting in C. inv_all C. inversion C; subst; clear C.
    apply Same; intros; [apply jops_set_trans_ctl|apply mrec_set_trans_ctl].
Qed.

Lemma machine_tr_jops_other x tr x' m ms j' :
  apply_transition sigma i x tr = Ok x' -> tr_comp tr = CM m -> nth_error (s_machs x) m = Some ms ->
  jops x' j' = jops x j' \/ (tr_new tr <> NM MIdle /\ tr_job tr = Some j')
  \/ (tr_new tr = NM MIdle /\ hd_error (b_store (m_in ms)) = Some j').
Proof.
  intros H Hc Hms.
  destruct (apply_machine sigma i _ _ _ _ _ Hc Hms H) as [[_ [Hn C]]|[[_ [Hn C]]|[[_ [Hn C]]|[_ [Hn C]]]]].
  - unfold h_m_idle_setup in C. inv_all C. inversion C; subst; clear C.
    match goal with E' : of_opt _ (tr_job tr) = Ok ?jn |- _ => apply of_opt_ok in E'; rename E' into Ej; rename jn into j end.
    match goal with E' : get_job x j = Ok ?jb0 |- _ => apply get_job_ok in E'; rename E' into Ejb end.
    assert (Hne : BPre m <> BIn m) by congruence.
    match goal with E' : move_job _ _ _ _ _ = Ok ?y |- _ => pose proof (move_job_moved i _ _ _ _ _ Hne E') as M end.
    destruct (Nat.eq_dec j' j) as [->|Hd]; [right; left; split; [rewrite Hn; discriminate|exact Ej]|left].
    rewrite jops_with_sto, jops_set_mach_ctl, (jops_moved i _ _ _ _ _ j' M), (jops_put_job _ _ _ _ _ j' Ejb).
    apply Nat.eqb_neq in Hd. rewrite Hd. reflexivity.
  - unfold h_m_setup_working in C. inv_all C. inversion C; subst; clear C.
    match goal with E' : of_opt _ (tr_job tr) = Ok ?jn |- _ => apply of_opt_ok in E'; rename E' into Ej; rename jn into j end.
    match goal with E' : get_job x j = Ok ?jb0 |- _ => apply get_job_ok in E'; rename E' into Ejb end.
    destruct (Nat.eq_dec j' j) as [->|Hd]; [right; left; split; [rewrite Hn; discriminate|exact Ej]|left].
    rewrite jops_with_sto, jops_set_mach_ctl, (jops_put_job _ _ _ _ _ j' Ejb).
    apply Nat.eqb_neq in Hd. rewrite Hd. reflexivity.
  - unfold h_m_working_outage in C. inv_all C. inversion C; subst; clear C.
    match goal with E' : of_opt _ (tr_job tr) = Ok ?jn |- _ => apply of_opt_ok in E'; rename E' into Ej; rename jn into j end.
    match goal with E' : get_job x j = Ok ?jb0 |- _ => apply get_job_ok in E'; rename E' into Ejb end.
    destruct (Nat.eq_dec j' j) as [->|Hd]; [right; left; split; [rewrite Hn; discriminate|exact Ej]|left].
    rewrite jops_with_sto, jops_set_mach_ctl, (jops_put_job _ _ _ _ _ j' Ejb).
    apply Nat.eqb_neq in Hd. rewrite Hd. reflexivity.
  - unfold h_m_outage_idle in C. inv_all C. inversion C; subst; clear C.
    match goal with E' : of_opt _ (hd_error _) = Ok ?jn |- _ => apply of_opt_ok in E'; rename E' into Ej; rename jn into j end.
    match goal with E' : get_job x j = Ok ?jb0 |- _ => apply get_job_ok in E'; rename E' into Ejb end.
    assert (Hne : BIn m <> BPost m) by congruence.
    match goal with E' : move_job _ _ _ _ _ = Ok ?y |- _ => pose proof (move_job_moved i _ _ _ _ _ Hne E') as M end.
    destruct (Nat.eq_dec j' j) as [->|Hd]; [right; right; split; [exact Hn|exact Ej]|left].
    rewrite jops_set_mach_ctl, (jops_moved i _ _ _ _ _ j' M), (jops_put_job _ _ _ _ _ j' Ejb).
    apply Nat.eqb_neq in Hd. rewrite Hd. reflexivity.
Qed.

(* ---------- the invariants ---------- *)
Definition no_outage (m : nat) : Prop := exists mc, nth_error (i_machs i) m = Some mc /\ mc_out mc = [].
Definition dur_ok (m : nat) (s e d : Z) : Prop := (s + d <= e)%Z /\ (no_outage m -> e = (s + d)%Z).

(* a busy machine's PROCESSING record ends at the machine's occupied_till *)
Definition BO (x : state) : Prop := forall m st oc l j ops k o,
  mrec x m = Some (st, oc, l) -> st <> MIdle -> In j l -> jops x j = Some ops -> nth_error ops k = Some o ->
  o_st o = OProc -> o_end o = oc.

Definition DUR (x : state) : Prop := forall j ops k o oc d,
  jops x j = Some ops -> nth_error ops k = Some o -> get_opcfg i j k = Ok oc -> oc_dur oc = Det d ->
  (o_st o = ODone -> exists s e, o_start o = Time s /\ o_end o = Time e /\ dur_ok (o_mach o) s e d)
  /\ (o_st o = OProc -> forall st occ l, mrec x (o_mach o) = Some (st, occ, l) ->
        (st = MWorking -> exists s, o_start o = Time s /\ o_end o = Time (s + d)%Z)
        /\ (st = MOutage -> exists s e, o_start o = Time s /\ o_end o = Time e /\ dur_ok (o_mach o) s e d)).

Lemma BO_DUR_frame x x' :
  (forall j, jops x' j = jops x j) ->
  (forall m st oc l1, mrec x' m = Some (st, oc, l1) -> exists l0, mrec x m = Some (st, oc, l0) /\ forall k, In k l1 -> In k l0) ->
  BO x -> DUR x -> BO x' /\ DUR x'.
Proof.
  intros Hj Hm B D. split.
  - intros m st oc l j ops k o H1 H2 H3 H4 H5 H6. destruct (Hm _ _ _ _ H1) as [l0 [G1 G2]]. rewrite Hj in H4.
    eapply (B m st oc l0 j ops k o); eauto.
  - intros j ops k o oc d H1 H2 H3 H4. rewrite Hj in H1. destruct (D _ _ _ _ _ _ H1 H2 H3 H4) as [A1 A2]. split; auto.
    intros So st occ l Hr. destruct (Hm _ _ _ _ Hr) as [l0 [G1 _]]. eapply A2; eauto.
Qed.

(* one record (j,k) and one machine m change *)
Lemma BO_DUR_upd x x' j k ops o o' m st' oc' l' :
  BO x -> DUR x ->
  jops x j = Some ops -> nth_error ops k = Some o ->
  (forall j', j' <> j -> jops x' j' = jops x j') -> jops x' j = Some (upd ops k o') ->
  (forall m', m' <> m -> mrec x' m' = mrec x m') -> mrec x' m = Some (st', oc', l') ->
  (st' <> MIdle -> l' = [j] /\ (o_st o' = OProc -> o_end o' = oc')) ->
  (forall m0 st oc l, m0 <> m -> mrec x m0 = Some (st, oc, l) -> ~ In j l) ->
  (forall k0 o0, k0 <> k -> nth_error ops k0 = Some o0 -> o_st o0 <> OProc) ->
  (forall j0 k0 ops0 o0, jops x j0 = Some ops0 -> nth_error ops0 k0 = Some o0 -> o_st o0 = OProc -> o_mach o0 = m -> j0 = j /\ k0 = k) ->
  (forall oc d, get_opcfg i j k = Ok oc -> oc_dur oc = Det d ->
     (o_st o' = ODone -> exists s e, o_start o' = Time s /\ o_end o' = Time e /\ dur_ok (o_mach o') s e d)
     /\ (o_st o' = OProc -> forall st occ l, mrec x' (o_mach o') = Some (st, occ, l) ->
           (st = MWorking -> exists s, o_start o' = Time s /\ o_end o' = Time (s + d)%Z)
           /\ (st = MOutage -> exists s e, o_start o' = Time s /\ o_end o' = Time e /\ dur_ok (o_mach o') s e d))) ->
  BO x' /\ DUR x'.
Proof.
  intros B D Hops Ho Hjo Hjj Hmo Hmm Hloc Hexcl Huniq Hm Hdur.
  assert (Hk : k < length ops) by (eapply nth_error_lt; eauto).
  split.
  - intros m0 st oc l j0 ops0 k0 o0 H1 H2 H3 H4 H5 H6.
    destruct (Nat.eq_dec m0 m) as [->|Hnm].
    + rewrite Hmm in H1. inversion H1; subst st oc l. destruct (Hloc H2) as [El Hend]. subst l'.
      destruct H3 as [<-|[]]. rewrite Hjj in H4. inversion H4; subst ops0.
      destruct (Nat.eq_dec k0 k) as [->|Hnk].
      * rewrite nth_upd_same in H5 by auto. inversion H5; subst o0. auto.
      * rewrite nth_upd_other in H5 by congruence. exfalso. eapply Huniq; eauto.
    + rewrite (Hmo _ Hnm) in H1. destruct (Nat.eq_dec j0 j) as [->|Hnj].
      * exfalso. eapply Hexcl; eauto.
      * rewrite (Hjo _ Hnj) in H4. eapply B; eauto.
  - intros j0 ops0 k0 o0 oc d H1 H2 H3 H4.
    assert (Old : (j0 <> j \/ k0 <> k) -> exists opsx, jops x j0 = Some opsx /\ nth_error opsx k0 = Some o0).
    { intros [Hn|Hn].
      - rewrite (Hjo _ Hn) in H1. eauto.
      - destruct (Nat.eq_dec j0 j) as [->|Hnj]; [|rewrite (Hjo _ Hnj) in H1; eauto].
        rewrite Hjj in H1. inversion H1; subst ops0. rewrite nth_upd_other in H2 by congruence. eauto. }
    destruct (Nat.eq_dec j0 j) as [Ej|Hnj]; [destruct (Nat.eq_dec k0 k) as [Ek|Hnk]|].
    + subst j0 k0. rewrite Hjj in H1. inversion H1; subst ops0. rewrite nth_upd_same in H2 by auto. inversion H2; subst o0.
      eapply Hdur; eauto.
    + destruct (Old (or_intror Hnk)) as [opsx [G1 G2]]. destruct (D _ _ _ _ _ _ G1 G2 H3 H4) as [A1 A2]. split; auto.
      intros So st occ l Hr. destruct (Nat.eq_dec (o_mach o0) m) as [Em|Nm].
      * exfalso. destruct (Hm _ _ _ _ G1 G2 So Em) as [_ E]. congruence.
      * rewrite (Hmo _ Nm) in Hr. eapply A2; eauto.
    + destruct (Old (or_introl Hnj)) as [opsx [G1 G2]]. destruct (D _ _ _ _ _ _ G1 G2 H3 H4) as [A1 A2]. split; auto.
      intros So st occ l Hr. destruct (Nat.eq_dec (o_mach o0) m) as [Em|Nm].
      * exfalso. destruct (Hm _ _ _ _ G1 G2 So Em) as [E _]. congruence.
      * rewrite (Hmo _ Nm) in Hr. eapply A2; eauto.
Qed.

(* ---------- facts about a busy machine (from FE and the store invariant) ---------- *)
Lemma vop_of x j jb k o : nth_error (s_jobs x) j = Some jb -> nth_error (j_ops jb) k = Some o -> vop (view_of x) j k o.
Proof. intros A B. exists (j_ops jb). split; auto. simpl. unfold jops. rewrite A. reflexivity. Qed.

Lemma jops_of x j jb : nth_error (s_jobs x) j = Some jb -> jops x j = Some (j_ops jb).
Proof. intros H. unfold jops. rewrite H. reflexivity. Qed.

Lemma jops_inv x j ops : jops x j = Some ops -> exists jb, nth_error (s_jobs x) j = Some jb /\ j_ops jb = ops.
Proof. unfold jops. destruct (nth_error (s_jobs x) j) as [jb|]; simpl; intros H; inversion H. eauto. Qed.

Lemma busy_facts x m ms j jb k o :
  WFS i x -> FE i x -> nth_error (s_machs x) m = Some ms -> m_st ms <> MIdle -> b_store (m_in ms) = [j] ->
  nth_error (s_jobs x) j = Some jb -> nth_error (j_ops jb) k = Some o -> o_st o = OProc -> Pat (j_ops jb) ->
  (forall m0 st oc l, m0 <> m -> mrec x m0 = Some (st, oc, l) -> ~ In j l)
  /\ (forall k0 o0, k0 <> k -> nth_error (j_ops jb) k0 = Some o0 -> o_st o0 <> OProc)
  /\ (forall j0 k0 ops0 o0, jops x j0 = Some ops0 -> nth_error ops0 k0 = Some o0 -> o_st o0 = OProc -> o_mach o0 = m -> j0 = j /\ k0 = k).
Proof.
  intros W F Hms Hst Hin Hjb Ho So P. split; [|split].
  - intros m0 st oc l Hn Hr Hj. unfold mrec in Hr. destruct (nth_error (s_machs x) m0) as [ms0|] eqn:E0; [|discriminate].
    simpl in Hr. inversion Hr; subst. apply Hn.
    assert (G0 : get_buf x (BIn m0) = Some (m_in ms0)) by (simpl; rewrite E0; reflexivity).
    assert (G1 : get_buf x (BIn m) = Some (m_in ms)) by (simpl; rewrite Hms; reflexivity).
    assert (E : BIn m0 = BIn m) by (eapply (ws_unique i x); eauto; rewrite Hin; left; reflexivity). inversion E; auto.
  - intros k0 o0 Hn H0 S0. apply Hn. eapply Pat_proc_unique; eauto.
  - intros j0 k0 ops0 o0 H1 H2 S0 Em. destruct (jops_inv _ _ _ H1) as [jb0 [Hjb0 <-]].
    destruct (fe_proc _ _ F _ _ _ (vop_of _ _ _ _ _ Hjb0 H2) S0) as [[st0 [A _]] _]. simpl in A. rewrite Em in A.
    unfold mview in A. rewrite Hms in A. simpl in A. rewrite Hin in A. inversion A; subst j0.
    rewrite Hjb in Hjb0. inversion Hjb0; subst jb0. split; auto. eapply Pat_proc_unique; eauto.
Qed.

(* what a timed machine transition needs to know at application: it is due, and it names the job inside *)
Definition due_fact (x : state) (tr : transition) : Prop :=
  forall m, tr_comp tr = CM m -> (tr_new tr = NM MOutage \/ tr_new tr = NM MIdle) ->
  exists st z l, mrec x m = Some (st, Time z, l) /\ (z <= s_now x)%Z
                 /\ (tr_new tr = NM MOutage -> exists j, tr_job tr = Some j /\ jloc x j = Some (BIn m)).

Lemma no_outage_zero m mc now sto os outs sto' v :
  no_outage m -> nth_error (i_machs i) m = Some mc -> new_outage_states sigma now sto (mc_out mc) os = Ok (outs, sto') ->
  occupied_time outs = Ok v -> v = 0%Z.
Proof.
  intros [mc' [E1 E2]] Hmc H Ho. rewrite Hmc in E1. inversion E1; subst mc'. rewrite E2 in H. simpl in H. inversion H; subst.
  simpl in Ho. inversion Ho. reflexivity.
Qed.

Theorem machine_preserves_BD x tr x' m ms :
  NO x -> J i x -> BO x -> DUR x -> due_fact x tr -> is_transition_valid x tr = Ok true ->
  tr_comp tr = CM m -> nth_error (s_machs x) m = Some ms -> apply_transition sigma i x tr = Ok x' -> BO x' /\ DUR x'.
Proof.
  intros N [W [[F _] _]] B D Hdue Hval Hc Hms H.
  assert (Hmo : forall m', m' <> m -> mrec x' m' = mrec x m') by (intros m' Hn; eapply machine_tr_mrec_other; eauto).
  destruct (apply_machine sigma i _ _ _ _ _ Hc Hms H) as [[Hst [Hnw C]]|[[Hst [Hnw C]]|[[Hst [Hnw C]]|[Hst [Hnw C]]]]].
  - (* IDLE -> SETUP *)
    destruct (post_idle_setup sigma i _ _ _ _ _ Hms C) as [j [jb [k [oc [mc [sc [sd [Hj [Hjb [Hk [Hoc [Hmc [Hsc [Hsd [[ms' [M1 [M2 [M3 [M4 [M5 _]]]]]] [[jb' [J1 [J2 J3]]] Hnow]]]]]]]]]]]]]]]].
    destruct (first_not_done_spec _ _ Hk) as [o [Ho [So Hbefore]]].
    assert (Hm : o_mach o = m).
    { unfold is_transition_valid in Hval. rewrite Hc, Hms in Hval. unfold is_machine_transition_valid in Hval.
      rewrite Hst, Hnw in Hval. simpl in Hval. rewrite Hj in Hval. unfold get_job in Hval. rewrite Hjb in Hval. simpl in Hval.
      rewrite Hk in Hval. simpl in Hval. rewrite Ho in Hval. simpl in Hval. inversion Hval. apply Nat.eqb_eq. auto. }
    assert (Hv : mview x m = Some (MIdle, b_store (m_in ms))) by (unfold mview; rewrite Hms; simpl; rewrite Hst; reflexivity).
    assert (P : Pat (j_ops jb)) by (eapply (fe_pat _ _ F j); simpl; apply jops_of; auto).
    assert (Sidle : o_st o = OIdle).
    { destruct (o_st o) eqn:Es; auto; try congruence.
      - exfalso. destruct (fe_proc _ _ F _ _ _ (vop_of _ _ _ _ _ Hjb Ho) Es) as [[st0 [A A']] _]. simpl in A. rewrite Hm, Hv in A. inversion A. congruence.
      - exfalso. destruct P as [Q0 _]. eapply Q0; eauto. }
    assert (Hl : b_store (m_in ms) = []) by (destruct (fe_hold _ _ F _ _ _ Hv) as [A _]; auto).
    assert (Noproc : forall k0 o0, nth_error (j_ops jb) k0 = Some o0 -> o_st o0 <> OProc).
    { intros k0 o0 H0 S0. destruct (Nat.lt_trichotomy k0 k) as [Hlt|[->|Hgt]].
      - rewrite (Hbefore _ _ Hlt H0) in S0. discriminate.
      - rewrite Ho in H0. inversion H0; subst. congruence.
      - rewrite (Pat_after_notdone _ _ _ _ _ P Hgt Ho H0 So) in S0. discriminate. }
    apply (BO_DUR_upd x x' j k (j_ops jb) o (mkOp m (Time (s_now x)) (Time (s_now x + sd)%Z) OProc) m MSetup (Time (s_now x + sd)%Z) (b_store (m_in ms) ++ [j]) B D).
    + apply jops_of; auto.
    + exact Ho.
    + intros j' Hn. destruct (machine_tr_jops_other _ _ _ _ _ j' H Hc Hms) as [G|[[_ G]|[G _]]]; auto; [congruence|rewrite Hnw in G; discriminate].
    + rewrite (jops_of _ _ _ J1), J3. reflexivity.
    + exact Hmo.
    + rewrite (mrec_of _ _ _ M1), M2, M3, M5. reflexivity.
    + intros _. rewrite Hl. simpl. auto.
    + intros m0 st oc0 l Hn Hr Hin. unfold mrec in Hr. destruct (nth_error (s_machs x) m0) as [ms0|] eqn:E0; [|discriminate].
      simpl in Hr. inversion Hr; subst.
      assert (Hv0 : mview x m0 = Some (m_st ms0, b_store (m_in ms0))) by (unfold mview; rewrite E0; reflexivity).
      destruct (fe_hold _ _ F _ _ _ Hv0) as [A1 A2]. destruct (m_st ms0) eqn:Es0; try (rewrite A1 in Hin; [destruct Hin|reflexivity]);
        (destruct A2 as [j1 [k1 [o1 [E1 [[ops1 [V1 V2]] [S1 _]]]]]]; [discriminate|]; rewrite E1 in Hin; destruct Hin as [<-|[]];
         simpl in V1; rewrite (jops_of _ _ _ Hjb) in V1; inversion V1; subst ops1; eapply Noproc; eauto).
    + intros k0 o0 _. apply Noproc.
    + intros j0 k0 ops0 o0 H1 H2 S0 Em. exfalso. destruct (jops_inv _ _ _ H1) as [jb0 [Hjb0 <-]].
      destruct (fe_proc _ _ F _ _ _ (vop_of _ _ _ _ _ Hjb0 H2) S0) as [[st0 [A A']] _]. simpl in A. rewrite Em, Hv in A. inversion A. congruence.
    + intros oc0 d _ _. simpl. split; [discriminate|]. intros _ st occ l Hr. rewrite (mrec_of _ _ _ M1), M2 in Hr. inversion Hr; subst.
      split; discriminate.
  - (* SETUP -> WORKING *)
    destruct (post_setup_working sigma i _ _ _ _ _ Hms C) as [j [jb [k [oc [d0 [Hj [Hjb [Hk [Hoc [Hd0 [M1 [J1 [Hnow Hmem]]]]]]]]]]]]].
    destruct (busy_machine_job i x m ms F Hms ltac:(congruence)) as [j1 [jb1 [k1 [o1 [B1 [B2 [B3 [B4 [B5 [P [Q1 Q2]]]]]]]]]]].
    apply mem_nat_In in Hmem. rewrite B1 in Hmem. destruct Hmem as [Ej|[]]. subst j1.
    rewrite Hjb in B2. inversion B2; subst jb1. pose proof (Q1 _ Hk) as Ek. subst k1.
    destruct (busy_facts x m ms j jb k o1 W F Hms ltac:(congruence) B1 Hjb B3 B4 P) as [X1 [X2 X3]].
    apply (BO_DUR_upd x x' j k (j_ops jb) o1 (mkOp m (Time (s_now x)) (Time (s_now x + d0)%Z) OProc) m MWorking (Time (s_now x + d0)%Z) (b_store (m_in ms)) B D).
    + apply jops_of; auto.
    + exact B3.
    + intros j' Hn. destruct (machine_tr_jops_other _ _ _ _ _ j' H Hc Hms) as [G|[[_ G]|[G _]]]; auto; [congruence|rewrite Hnw in G; discriminate].
    + rewrite (jops_of _ _ _ J1). reflexivity.
    + exact Hmo.
    + rewrite (mrec_of _ _ _ M1). reflexivity.
    + intros _. simpl. auto.
    + exact X1.
    + exact X2.
    + exact X3.
    + intros oc1 d Hoc1 Hd. rewrite Hoc in Hoc1. inversion Hoc1; subst oc1. rewrite Hd in Hd0. simpl in Hd0. inversion Hd0; subst d0.
      simpl. split; [discriminate|]. intros _ st occ l Hr. rewrite (mrec_of _ _ _ M1) in Hr. simpl in Hr. inversion Hr; subst.
      split; [intros _; eauto|discriminate].
  - (* WORKING -> OUTAGE *)
    destruct (post_working_outage sigma i _ _ _ _ _ Hms C) as [mc [outs [sto' [occ_for [j [jb [k [o [Hmc [Hos [Hocc [Hj [Hjb [Hk [Ho [M1 [J1 Hnow]]]]]]]]]]]]]]]]].
    destruct (busy_machine_job i x m ms F Hms ltac:(congruence)) as [j1 [jb1 [k1 [o1 [B1 [B2 [B3 [B4 [B5 [P [Q1 Q2]]]]]]]]]]].
    destruct (Hdue m Hc (or_introl Hnw)) as [st [z [l [Hr [Hz Hjob]]]]]. destruct (Hjob Hnw) as [j' [Hj' Hloc]].
    rewrite Hj in Hj'. inversion Hj'; subst j'. rewrite (mrec_of _ _ _ Hms) in Hr. inversion Hr as [[R1 R2 R3]].
    assert (Ej : j = j1).
    { destruct (ws_loc _ _ W _ _ Hjb) as [b [Hb Hinb]]. rewrite (jloc_of _ _ _ Hjb) in Hloc. inversion Hloc as [Hl]. rewrite Hl in Hb.
      simpl in Hb. rewrite Hms in Hb. simpl in Hb. inversion Hb; subst b. rewrite B1 in Hinb. destruct Hinb as [E|[]]; auto. }
    subst j1. rewrite Hjb in B2. inversion B2; subst jb1. pose proof (Q2 _ Hk) as Ek. subst k1. rewrite Ho in B3. inversion B3; subst o1.
    destruct (busy_facts x m ms j jb k o W F Hms ltac:(congruence) B1 Hjb Ho B4 P) as [X1 [X2 X3]].
    assert (Hocc0 : (0 <= occ_for)%Z).
    { destruct (new_outage_states_ok sigma (s_now x) _ _ _ _ _ (no_sto _ N) (mach_out_nonneg i Hnn _ _ Hmc) Hos) as [A _].
      eapply occupied_time_nonneg; eauto. }
    apply (BO_DUR_upd x x' j k (j_ops jb) o (set_op_end o (Time (s_now x + occ_for)%Z)) m MOutage (Time (s_now x + occ_for)%Z) (b_store (m_in ms)) B D).
    + apply jops_of; auto.
    + exact Ho.
    + intros j' Hn. destruct (machine_tr_jops_other _ _ _ _ _ j' H Hc Hms) as [G|[[_ G]|[G _]]]; auto; [congruence|rewrite Hnw in G; discriminate].
    + rewrite (jops_of _ _ _ J1). reflexivity.
    + exact Hmo.
    + rewrite (mrec_of _ _ _ M1). reflexivity.
    + intros _. simpl. auto.
    + exact X1.
    + exact X2.
    + exact X3.
    + intros oc1 d Hoc1 Hd. simpl. rewrite B4. split; [discriminate|]. intros _ st0 occ0 l0 Hr0.
      rewrite B5, (mrec_of _ _ _ M1) in Hr0. simpl in Hr0. inversion Hr0 as [[I1 I2 I3]]. split; [intros Hbad; congruence|]. intros _.
      destruct (D _ _ _ _ _ _ (jops_of _ _ _ Hjb) Ho Hoc1 Hd) as [_ A2]. rewrite B5 in A2.
      destruct (A2 B4 _ _ _ (mrec_of _ _ _ Hms)) as [A3 _]. destruct (A3 Hst) as [s0 [Es Ee]].
      pose proof (B m (m_st ms) (m_occ ms) (b_store (m_in ms)) j (j_ops jb) k o (mrec_of _ _ _ Hms) ltac:(congruence)
                    ltac:(rewrite B1; left; reflexivity) (jops_of _ _ _ Hjb) Ho B4) as Hbo.
      rewrite Ee, R2 in Hbo. inversion Hbo as [Hzz].
      destruct (no_ops _ N _ _ _ Hjb (nth_error_In _ _ Ho) B4) as [z' [Ez' Hle]]. rewrite Ee in Ez'. inversion Ez'; subst z'.
      exists s0, (s_now x + occ_for)%Z. split; auto. split; auto. split; [lia|].
      intros Hno. simpl in Hno. rewrite B5 in Hno. rewrite (no_outage_zero _ _ _ _ _ _ _ _ Hno Hmc Hos Hocc). lia.
  - (* OUTAGE -> IDLE *)
    destruct (post_outage_idle i _ _ _ _ _ Hms C) as [j [jb [k [o [Hhd [Hjb [Hk [Ho [[ms' [M1 [M2 [_ [_ [M3 [_ [M4 _]]]]]]]] [[jb' [J1 [J2 J3]]] Hnow]]]]]]]]]].
    destruct (busy_machine_job i x m ms F Hms ltac:(congruence)) as [j1 [jb1 [k1 [o1 [B1 [B2 [B3 [B4 [B5 [P [Q1 Q2]]]]]]]]]]].
    rewrite B1 in Hhd. simpl in Hhd. inversion Hhd; subst j1.
    rewrite Hjb in B2. inversion B2; subst jb1. pose proof (Q2 _ Hk) as Ek. subst k1. rewrite Ho in B3. inversion B3; subst o1.
    destruct (busy_facts x m ms j jb k o W F Hms ltac:(congruence) B1 Hjb Ho B4 P) as [X1 [X2 X3]].
    destruct (Hdue m Hc (or_intror Hnw)) as [st [z [l [Hr [Hz _]]]]]. rewrite (mrec_of _ _ _ Hms) in Hr. inversion Hr as [[R1 R2 R3]].
    apply (BO_DUR_upd x x' j k (j_ops jb) o (mkOp (o_mach o) (o_start o) (Time (s_now x)) ODone) m MIdle (m_occ ms') (b_store (m_in ms')) B D).
    + apply jops_of; auto.
    + exact Ho.
    + intros j' Hn. destruct (machine_tr_jops_other _ _ _ _ _ j' H Hc Hms) as [G|[[G _]|[_ G]]]; auto; [congruence|].
      rewrite B1 in G. simpl in G. congruence.
    + rewrite (jops_of _ _ _ J1), J3. reflexivity.
    + exact Hmo.
    + rewrite (mrec_of _ _ _ M1), M2. reflexivity.
    + intros Hbad. congruence.
    + exact X1.
    + exact X2.
    + exact X3.
    + intros oc1 d Hoc1 Hd. simpl. split; [|discriminate]. intros _.
      destruct (D _ _ _ _ _ _ (jops_of _ _ _ Hjb) Ho Hoc1 Hd) as [_ A2]. rewrite B5 in A2.
      destruct (A2 B4 _ _ _ (mrec_of _ _ _ Hms)) as [_ A3]. destruct (A3 Hst) as [s0 [e0 [Es [Ee Hok]]]].
      pose proof (B m (m_st ms) (m_occ ms) (b_store (m_in ms)) j (j_ops jb) k o (mrec_of _ _ _ Hms) ltac:(congruence)
                    ltac:(rewrite B1; left; reflexivity) (jops_of _ _ _ Hjb) Ho B4) as Hbo.
      rewrite Ee, R2 in Hbo. inversion Hbo as [Hzz].
      destruct (no_ops _ N _ _ _ Hjb (nth_error_In _ _ Ho) B4) as [z' [Ez' Hle]]. rewrite Ee in Ez'. inversion Ez'; subst z'.
      assert (En : s_now x = e0) by lia. exists s0, e0. rewrite En, B5. auto.
Qed.

Lemma BO_DUR_set_now x z : BO x -> DUR x -> BO (set_now x z) /\ DUR (set_now x z).
Proof. intros B D. apply (BO_DUR_frame x (set_now x z)); auto. intros m st oc l H. rewrite mrec_set_now in H. eauto. Qed.

Theorem apply_preserves_BD x tr x' :
  NO x -> J i x -> BO x -> DUR x -> due_fact x tr -> is_transition_valid x tr = Ok true ->
  apply_transition sigma i x tr = Ok x' -> BO x' /\ DUR x'.
Proof.
  intros N Hj B D Hdue Hv H. destruct (tr_comp tr) as [m|t|n] eqn:Hc.
  - destruct (nth_error (s_machs x) m) as [ms|] eqn:Hms; [|unfold apply_transition in H; rewrite Hc, Hms in H; discriminate].
    eapply machine_preserves_BD; eauto.
  - destruct (transport_tr_frame _ _ _ _ H Hc) as [A1 A2]. eapply BO_DUR_frame; eauto.
  - unfold apply_transition in H. rewrite Hc in H. destruct (nth_error (s_bufs x) n); discriminate.
Qed.

(* ---------- the batch invariant: timed machine transitions stay due until they are applied ---------- *)
Definition Q3 (R : list transition) (x : state) : Prop := Q R x /\ forall tr, In tr R -> due_fact x tr.
Definition J3 (x : state) : Prop := J i x /\ BO x /\ DUR x.

Lemma due_fact_step x tr0 R x' tr1 :
  WFS i x -> WFS i x' -> Q (tr0 :: R) x -> apply_transition sigma i x tr0 = Ok x' -> In tr1 R -> due_fact x tr1 -> due_fact x' tr1.
Proof.
  intros W W' [ND [HP _]] H Hin Hd m Hc1 Hk. destruct (Hd m Hc1 Hk) as [st [z [l [Hr [Hz Hjob]]]]].
  assert (Hcore1 : In tr1 (core R)).
  { apply in_core; auto. unfold is_tworking. destruct Hk as [-> | ->]; reflexivity. }
  assert (Hn0 : tr_comp tr0 <> CM m).
  { intros Hc0. destruct (is_tworking tr0) eqn:Ew.
    - unfold is_tworking in Ew. destruct (tr_new tr0) as [s0|s0] eqn:En0; [discriminate|].
      destruct (nth_error (s_machs x) m) as [ms|] eqn:Hms; [|unfold apply_transition in H; rewrite Hc0, Hms in H; discriminate].
      destruct (apply_machine sigma i _ _ _ _ _ Hc0 Hms H) as [[_ [E _]]|[[_ [E _]]|[[_ [E _]]|[_ [E _]]]]]; rewrite En0 in E; discriminate.
    - rewrite core_cons, Ew in ND. simpl in ND. inversion ND as [|? ? Hnin _]. apply Hnin. rewrite Hc0, <- Hc1. apply in_map. exact Hcore1. }
  assert (Hrec : exists l', mrec x' m = Some (st, Time z, l')).
  { destruct (tr_comp tr0) as [m0|t0|n0] eqn:Hc0.
    - exists l. rewrite (machine_tr_mrec_other _ _ _ m0 m H Hc0) by congruence. exact Hr.
    - destruct (transport_tr_frame _ _ _ _ H Hc0) as [_ A2].
      assert (Hlt : m < length (s_machs x')).
      { rewrite (ws_lm _ _ W'), <- (ws_lm _ _ W). unfold mrec in Hr. destruct (nth_error (s_machs x) m) eqn:E; [|discriminate]. eapply nth_error_lt; eauto. }
      destruct (nth_error (s_machs x') m) as [ms'|] eqn:E'; [|apply nth_error_None in E'; lia].
      destruct (A2 _ _ _ _ (mrec_of _ _ _ E')) as [l0 [G _]]. rewrite Hr in G. inversion G. exists (b_store (m_in ms')). rewrite (mrec_of _ _ _ E'). congruence.
    - unfold apply_transition in H. rewrite Hc0 in H. destruct (nth_error (s_bufs x) n0); discriminate. }
  destruct Hrec as [l' Hr']. exists st, z, l'. split; auto. split; [rewrite (apply_now sigma i _ _ _ H); exact Hz|].
  intros Hout. destruct (Hjob Hout) as [j [Hj Hloc]]. exists j. split; auto.
  destruct (apply_loc_eff sigma i _ _ _ H j) as [Same|[A [B0 [a [Ha [Hina [HB Hkind]]]]]]]; [rewrite Same; exact Hloc|].
  exfalso. pose proof (stored_loc i _ _ _ _ W Ha Hina) as HA. rewrite Hloc in HA. inversion HA; subst A.
  destruct Hkind as [[m0 [Hc0 [[E _]|[E _]]]]|[[t1 [Hc0 [Hn1 [Hj1 [_ [_ Hna]]]]]]|[t1 [_ [_ E]]]]]; try discriminate.
  - inversion E; subst m0. apply Hn0; auto.
  - (* a pickup of this very job: its pending fact says it lies outside *)
    destruct (HP tr0 (or_introl eq_refl) Hn1) as [t2 [j2 [oc2 [_ [Hj2 [_ Hlf]]]]]]. rewrite Hj1 in Hj2. inversion Hj2; subst j2.
    destruct Hlf as [[L [HL [O1 _]]]|[t0 [HL _]]]; rewrite Hloc in HL; inversion HL; subst. apply (O1 m); reflexivity.
Qed.

Theorem J3_apply x tr R x' :
  NO x -> J3 x -> Q3 (tr :: R) x -> is_transition_valid x tr = Ok true -> apply_transition sigma i x tr = Ok x' ->
  J3 x' /\ Q3 R x' /\ side2 tr x' = true.
Proof.
  intros N [Hj [B D]] [HQ Hdue] Hv Ha.
  destruct (J_apply sigma i Hnn _ _ _ _ N Hj HQ Hv Ha) as [Hj' [HQ' S]].
  destruct (apply_preserves_BD _ _ _ N Hj B D (Hdue tr (or_introl eq_refl)) Hv Ha) as [B' D'].
  split; [split; auto|]. split; [|exact S]. split; [exact HQ'|].
  intros tr1 Hin. destruct Hj as [W _]. destruct Hj' as [W' _]. apply (due_fact_step x tr R x' tr1 W W' HQ Ha Hin). apply Hdue. right; auto.
Qed.

Lemma J3_now x t : J3 x -> (s_now x <= t)%Z -> J3 (set_now x t).
Proof. intros [Hj [B D]] H. split; [apply J_now; auto|apply BO_DUR_set_now; auto]. Qed.

Lemma E3_end x : J3 x -> Q3 [] x -> BI x.
Proof. intros [Hj _] [HQ _]. eapply BI_end; eauto. Qed.

(* ---------- creation ---------- *)
Lemma timed_machines_in now : forall l m r tr,
  timed_machines_from i now m l = Ok r -> In tr r -> exists k ms, nth_error l k = Some ms /\ timed_machine i now (m + k) ms = Ok (Some tr).
Proof.
  induction l as [|ms l IH]; intros m r tr H Hin; simpl in H.
  - inversion H; subst. destruct Hin.
  - destruct (timed_machine i now m ms) as [o|] eqn:Eo; simpl in H; [|discriminate].
    destruct (timed_machines_from i now (S m) l) as [rest|] eqn:Er; simpl in H; [|discriminate].
    inversion H; subst; clear H.
    assert (Rest : In tr rest -> exists k ms0, nth_error (ms :: l) k = Some ms0 /\ timed_machine i now (m + k) ms0 = Ok (Some tr)).
    { intros Hr. destruct (IH _ _ _ Er Hr) as [k [ms0 [A1 A2]]]. exists (S k), ms0. replace (m + S k) with (S m + k) by lia. auto. }
    destruct o as [tr0|]; [|auto]. destruct Hin as [<-|Hin]; [|auto]. exists 0, ms. rewrite Nat.add_0_r. auto.
Qed.

Definition OK3 (x : state) (tr : transition) : Prop :=
  (exists m j, tr = mkTr (CM m) (NM MSetup) (Some j)) \/ (exists t j, tr = mkTr (CT t) (NT TWorking) (Some j)).

Lemma OK3_not_transit x tr : OK3 x tr -> not_transit tr.
Proof. intros [[m [j ->]]|[t [j ->]]]; unfold not_transit; simpl; discriminate. Qed.

Lemma OK3_due x tr : OK3 x tr -> due_fact x tr.
Proof. intros [[m [j ->]]|[t [j ->]]] m0 Hc [Hk|Hk]; simpl in *; discriminate. Qed.

Lemma due_created x timed poss tele :
  J i x -> create_timed_transitions i x = Ok timed -> get_possible_transitions i x = Ok poss ->
  (forall tr, In tr tele -> In tr poss) -> forall tr, In tr (timed ++ tele) -> due_fact x tr.
Proof.
  intros HJ H Hp Hsub tr Hin. pose proof HJ as [W [_ Dn]]. apply in_app_iff in Hin. destruct Hin as [Hin|Hin].
  - unfold create_timed_transitions in H.
    destruct (create_timed_machine_transitions i x) as [a|] eqn:Ea; simpl in H; [|discriminate].
    destruct (create_timed_transport_transitions i x) as [b|] eqn:Eb; simpl in H; [|discriminate].
    inversion H; subst; clear H. apply in_app_iff in Hin. destruct Hin as [Hin|Hin].
    + destruct (timed_machines_in _ _ _ _ _ Ea Hin) as [k [ms [Hms Htm]]]. simpl in Htm.
      intros m Hc Hk. destruct (timed_machine_spec i _ _ _ _ Htm) as [[z [j [Ho [Hz [Hhd [Hc' [Hj _]]]]]]]|[c [j [_ [_ [_ ->]]]]]].
      * rewrite Hc in Hc'. inversion Hc'; subst k. exists (m_st ms), z, (b_store (m_in ms)).
        split; [rewrite (mrec_of _ _ _ Hms), Ho; reflexivity|]. split; auto. intros _. exists j. split; auto.
        eapply (stored_loc i); eauto; [simpl; rewrite Hms; reflexivity|].
        destruct (b_store (m_in ms)); simpl in Hhd; inversion Hhd; left; reflexivity.
      * simpl in Hk. destruct Hk; discriminate.
    + destruct (timed_transport_comp i x _ _ HJ Eb Hin) as [k Hc']. intros m Hc. rewrite Hc in Hc'. discriminate.
  - apply (OK3_due x). destruct (offers_shape i _ _ _ Hp (Hsub _ Hin)); [left|right]; auto.
Qed.

Lemma tele_sub x poss tele : filter_teleport i x poss = Ok tele -> forall tr, In tr tele -> In tr poss.
Proof.
  intros H tr Hin. unfold filter_teleport in H.
  match type of H with bind ?e _ = _ => destruct e as [tl|] eqn:Ef; simpl in H; [|discriminate] end.
  inversion H; subst; clear H. apply ProvBatch.teleport_pick_in in Hin. destruct (filterM_in _ _ _ _ Ef Hin). auto.
Qed.

Lemma Q3_timed x timed poss tele : NO x -> J3 x -> BI x -> create_timed_transitions i x = Ok timed ->
  get_possible_transitions i x = Ok poss -> filter_teleport i x poss = Ok tele -> Q3 (timed ++ tele) x.
Proof.
  intros N [Hj _] Hb H Hp Hf. split; [eapply Q_timed; eauto|]. eapply due_created; eauto. eapply tele_sub; eauto.
Qed.

Lemma Q3_timed0 x timed : NO x -> J3 x -> BI x -> create_timed_transitions i x = Ok timed -> Q3 timed x.
Proof.
  intros N [HJ _] Hb H. split; [eapply Q_timed0; eauto|].
  intros tr Hin. pose proof HJ as [W [Hi Dn]].
  unfold create_timed_transitions in H.
  destruct (create_timed_machine_transitions i x) as [a|] eqn:Ea; simpl in H; [|discriminate].
  destruct (create_timed_transport_transitions i x) as [b|] eqn:Eb; simpl in H; [|discriminate].
  inversion H; subst; clear H. apply in_app_iff in Hin. destruct Hin as [Hin|Hin].
  - destruct (timed_machines_in _ _ _ _ _ Ea Hin) as [k [ms [Hms Htm]]]. simpl in Htm.
    intros m Hc Hk. destruct (timed_machine_spec i _ _ _ _ Htm) as [[z [j [Ho [Hz [Hhd [Hc' [Hj _]]]]]]]|[c [j [_ [_ [_ ->]]]]]].
    + rewrite Hc in Hc'. inversion Hc'; subst k. exists (m_st ms), z, (b_store (m_in ms)).
      split; [rewrite (mrec_of _ _ _ Hms), Ho; reflexivity|]. split; auto. intros _. exists j. split; auto.
      eapply (stored_loc i); eauto; [simpl; rewrite Hms; reflexivity|].
      destruct (b_store (m_in ms)); simpl in Hhd; inversion Hhd; left; reflexivity.
    + simpl in Hk. destruct Hk; discriminate.
  - destruct (timed_transport_comp i x _ _ HJ Eb Hin) as [k Hc']. intros m Hc. rewrite Hc in Hc'. discriminate.
Qed.

Lemma Q3_offer x o : J3 x -> BI x -> create_timed_transitions i x = Ok [] -> OK3 x o -> Q3 [o] x.
Proof.
  intros [Hj _] Hb Hct Ho. split; [apply (Q_offer i x o Hj Hb Hct); exact Ho|].
  intros tr [<-|[]]. apply OK3_due; auto.
Qed.

Lemma offers_ok3 x offers : get_possible_transitions i x = Ok offers -> Forall (OK3 x) offers.
Proof. intros H. apply Forall_forall. intros tr Hin. destruct (offers_shape i _ _ _ H Hin); [left|right]; auto. Qed.

(* ---------- the boolean clause ---------- *)
Lemma in_indexed_nth {A} (l : list A) : forall n k a, In (k, a) (indexed n l) -> n <= k /\ nth_error l (k - n) = Some a.
Proof.
  induction l as [|h r IH]; intros n k a H; simpl in H; [destruct H|].
  destruct H as [E|H]; [inversion E; subst; split; [lia|rewrite Nat.sub_diag; reflexivity]|].
  destruct (IH _ _ _ H) as [A1 A2]. split; [lia|]. replace (k - n) with (S (k - S n)) by lia. exact A2.
Qed.

Lemma DUR_durations_b x : DUR x -> durations_b i x = true.
Proof.
  intros D. unfold durations_b. apply forallb_forall. intros [j jb] Hj. apply in_indexed_nth in Hj. rewrite Nat.sub_0_r in Hj. destruct Hj as [_ Hj].
  apply forallb_forall. intros [k o] Hk. apply in_indexed_nth in Hk. rewrite Nat.sub_0_r in Hk. destruct Hk as [_ Hk].
  destruct (get_opcfg i j k) as [oc|] eqn:Eoc; [|reflexivity].
  destruct (oc_dur oc) as [d|id] eqn:Ed; [|reflexivity]. destruct (o_st o) eqn:Es; try reflexivity.
  destruct (D _ _ _ _ _ _ (jops_of _ _ _ Hj) Hk Eoc Ed) as [A _]. destruct (A Es) as [s [e [E1 [E2 [L1 L2]]]]].
  rewrite E1, E2. apply andb_true_iff. split; [apply Z.leb_le; exact L1|].
  unfold no_outage_b. destruct (nth_error (i_machs i) (o_mach o)) as [mc|] eqn:Emc; [|reflexivity].
  destruct (mc_out mc) eqn:Eout; simpl; [|reflexivity]. apply Z.eqb_eq. apply L2. exists mc. auto.
Qed.

(* a fresh state: nothing done, nothing in process *)
Lemma fresh_BO_DUR x : fresh_b i x = true -> BO x /\ DUR x.
Proof.
  intros Fr. unfold fresh_b in Fr. apply andb_true_iff in Fr. destruct Fr as [Fr _]. apply andb_true_iff in Fr. destruct Fr as [F1 _].
  assert (Idle : forall j ops k o, jops x j = Some ops -> nth_error ops k = Some o -> o_st o = OIdle).
  { intros j ops k o H1 H2. destruct (jops_inv _ _ _ H1) as [jb [Hjb <-]].
    pose proof (forallb_nth _ _ _ _ F1 Hjb) as Q0. simpl in Q0. pose proof (forallb_nth _ _ _ _ Q0 H2) as Q1.
    unfold is_ostate in Q1. destruct (o_st o); simpl in Q1; try discriminate. reflexivity. }
  split.
  - intros m st oc l j ops k o _ _ _ H4 H5 H6. rewrite (Idle _ _ _ _ H4 H5) in H6. discriminate.
  - intros j ops k o oc d H1 H2 _ _. rewrite (Idle _ _ _ _ H1 H2). split; discriminate.
Qed.

(* ---------- every run ---------- *)
Theorem run_durations fuel x0 joker0 ta r m :
  clock_b x0 = true -> wfs_b i x0 = true -> fresh2_b i x0 = true -> nodep_b x0 = true ->
  reach sigma i fuel x0 joker0 ta r m -> durations_b i (r_x r) = true.
Proof.
  intros C W Fr Dn H. apply NO_iff_clock_b in C.
  assert (Fr1 : fresh_b i x0 = true) by (unfold fresh2_b in Fr; apply andb_true_iff in Fr; destruct Fr as [Fr _]; apply andb_true_iff in Fr; tauto).
  assert (J0 : J3 x0) by (split; [apply J_init; auto|apply fresh_BO_DUR; auto]).
  destruct (reach_reachG sigma i Hnn J3 Q3 side2 OK3 BI J3_apply J3_now E3_end BI_now Q3_timed Q3_timed0 Q3_offer offers_ok3 _ _ _ _ _ _ C J0 (BI_init _ Dn) H)
    as [_ [_ [xq [Nq [[_ [_ Dq]] [E|[_ [z E]]]]]]]]; rewrite E.
  - apply DUR_durations_b; auto.
  - exact (DUR_durations_b _ Dq).
Qed.

Theorem run_micro_durations fuel x0 joker0 ta r m a r' m' lg :
  clock_b x0 = true -> wfs_b i x0 = true -> fresh2_b i x0 = true -> nodep_b x0 = true ->
  reach sigma i fuel x0 joker0 ta r m -> mw_step sigma i fuel r m a = MOk r' m' lg ->
  forall tr y, In (tr, y) lg -> durations_b i y = true.
Proof.
  intros C W Fr Dn H Hm tr y Hin. apply NO_iff_clock_b in C.
  assert (Fr1 : fresh_b i x0 = true) by (unfold fresh2_b in Fr; apply andb_true_iff in Fr; destruct Fr as [Fr _]; apply andb_true_iff in Fr; tauto).
  assert (J0 : J3 x0) by (split; [apply J_init; auto|apply fresh_BO_DUR; auto]).
  destruct (reach_micro_J sigma i Hnn J3 Q3 side2 OK3 BI J3_apply J3_now E3_end BI_now Q3_timed Q3_timed0 Q3_offer offers_ok3 _ _ _ _ _ _ _ _ _ _ C J0 (BI_init _ Dn) H Hm _ _ Hin)
    as [[_ [_ Dy]] _]. apply DUR_durations_b; auto.
Qed.

End D.
