(* C11/C05: every transition offered to the agent passes validation in the very state it is offered in - in every
   result reachable by any run (instances with unordered or capacity-one machine post-buffers). The offers of a result
   are (a suffix of) get_possible_transitions of its state, that state satisfies the C01 invariant (no operation in
   the TRANSPORT state), and SMP/Offers.v shows such offers valid. *)
From Coq Require Import List ZArith Bool Arith Lia.
From JSL Require Import Base.Res Base.ListX SM.Types SM.Util SM.Handler SM.Step SM.Middleware SM.Inv
  SMP.ListLemmas SMP.Frame SMP.WF SMP.Preserve SMP.StepInv SMP.Clock SMP.ClockStep SMP.ClockMain SMP.Post SMP.PostApply
  SMP.LiftSide SMP.FeasView SMP.Feasible SMP.FeasSound SMP.Agv SMP.OutputDone SMP.Offers SMP.Unique SMP.Reflect
  SMP.Prov SMP.LiftProv SMP.ProvBatch.
Import ListNotations.
Close Scope Z_scope.

Section V.
Variable sigma : oracle.
Variable i : inst.
Hypothesis Hnn : inst_nonneg_b i = true.

Definition OKV (x : state) (tr : transition) : Prop :=
  offer_shape tr /\ exists full, get_possible_transitions i x = Ok full /\ In tr full.

Lemma offers_okv x offers : get_possible_transitions i x = Ok offers -> Forall (OKV x) offers.
Proof.
  intros H. apply Forall_forall. intros tr Hin. split; [|eauto].
  pose proof (offers_shape' i _ _ H) as Hn. rewrite Forall_forall in Hn. auto.
Qed.

Lemma QV_offer x o : J i x -> BI x -> create_timed_transitions i x = Ok [] -> OKV x o -> Q [o] x.
Proof. intros Hj Hb Hct [Hn _]. apply (Q_offer i); auto. Qed.

Lemma FE_no_transport_ops x : FE i x -> no_transport_ops_b x = true.
Proof.
  intros F. unfold no_transport_ops_b. apply forallb_forall. intros jb Hjb. apply forallb_forall. intros o Ho.
  apply In_nth_error in Hjb. destruct Hjb as [j Hj]. apply In_nth_error in Ho. destruct Ho as [k Hk].
  assert (P : Pat (j_ops jb)) by (eapply (fe_pat _ _ F j); simpl; unfold jops; rewrite Hj; reflexivity).
  destruct P as [P1 _]. specialize (P1 _ _ Hk). unfold is_ostate. destruct (o_st o); simpl; auto; congruence.
Qed.

Theorem run_offers_valid fuel x0 joker0 ta r m :
  clock_b x0 = true -> wfs_b i x0 = true -> fresh2_b i x0 = true -> nodep_b x0 = true ->
  reach sigma i fuel x0 joker0 ta r m ->
  forall tr, In tr (r_offers r) -> is_transition_valid (r_x r) tr = Ok true.
Proof.
  intros C W Fr Dn H tr Hin. apply NO_iff_clock_b in C.
  destruct (reach_reachG sigma i Hnn (J i) Q side2 OKV BI (J_apply sigma i Hnn) (J_now i) (BI_end i) BI_now (Q_timed i) (Q_timed0 i) QV_offer offers_okv
              _ _ _ _ _ _ C (J_init i _ W Fr Dn) (BI_init _ Dn) H) as [_ [HO [xq [Nq [[_ [[F _] _]] [E|[E _]]]]]]].
  - rewrite Forall_forall in HO. destruct (HO _ Hin) as [_ [full [Hfull Hinf]]]. rewrite E in *.
    eapply (offers_are_valid i); eauto. apply FE_no_transport_ops; auto.
  - rewrite E in Hin. destruct Hin.
Qed.

End V.
