(* List helpers used by the model (no proofs here; lemmas live in SMP/ListLemmas.v) *)
From Coq Require Import List ZArith Bool Arith.
Import ListNotations.

Fixpoint upd {A} (l : list A) (n : nat) (a : A) : list A :=
  match l, n with
  | [], _ => []
  | _ :: t, O => a :: t
  | h :: t, S n' => h :: upd t n' a
  end.

Definition mem_nat (j : nat) (l : list nat) : bool := existsb (Nat.eqb j) l.

Definition remove_nat (j : nat) (l : list nat) : list nat :=
  filter (fun k => negb (Nat.eqb k j)) l.

Fixpoint index_of (j : nat) (l : list nat) : option nat :=
  match l with
  | [] => None
  | h :: t => if Nat.eqb h j then Some O
              else match index_of j t with Some n => Some (S n) | None => None end
  end.

Fixpoint find_idx {A} (p : A -> bool) (l : list A) : option nat :=
  match l with
  | [] => None
  | h :: t => if p h then Some O
              else match find_idx p t with Some n => Some (S n) | None => None end
  end.

Definition lenZ {A} (l : list A) : Z := Z.of_nat (length l).

Fixpoint count_nat (j : nat) (l : list nat) : nat :=
  match l with [] => O | h :: t => (if Nat.eqb h j then 1 else 0) + count_nat j t end.

Fixpoint sum_nat (l : list nat) : nat :=
  match l with [] => O | h :: t => h + sum_nat t end.

Fixpoint seq0 (n : nat) : list nat := (* 0 .. n-1 *)
  match n with O => [] | S k => seq0 k ++ [k] end.

Fixpoint zmax_list (l : list Z) (d : Z) : Z :=
  match l with [] => d | h :: t => Z.max h (zmax_list t d) end.
