(* Error monad for the executable model: one constructor per Python exception class *)
From Coq Require Import List ZArith Bool.
Import ListNotations.

Inductive err :=
| EInvalidValue | EInvalidKey | ENotImpl | EBufferFull | EJobNotInBuffer
| EMissingProc | EMissingJobId | ETransportJob | ETransportCfg | ETravelTime
| EOutageActive | EPyType | EPyIndex | EPyStopIter | EUnsuccessful
| EActionSpace | EEnvDone | EPyZeroDiv | EOutOfFuel.

Inductive res (A : Type) := Ok (a : A) | Err (e : err).
Arguments Ok {A} a.
Arguments Err {A} e.

Definition bind {A B} (r : res A) (f : A -> res B) : res B :=
  match r with Ok a => f a | Err e => Err e end.

Notation "x <- e ;; k" := (bind e (fun x => k))
  (at level 61, e at next level, right associativity).
Notation "' p <- e ;; k" := (bind e (fun p => k))
  (at level 61, p pattern, e at next level, right associativity).

Definition of_opt {A} (e : err) (o : option A) : res A :=
  match o with Some a => Ok a | None => Err e end.

Definition guard (b : bool) (e : err) : res unit :=
  if b then Ok tt else Err e.

Fixpoint mapM {A B} (f : A -> res B) (l : list A) : res (list B) :=
  match l with
  | [] => Ok []
  | a :: l' => b <- f a ;; bs <- mapM f l' ;; Ok (b :: bs)
  end.

Fixpoint filterM {A} (f : A -> res bool) (l : list A) : res (list A) :=
  match l with
  | [] => Ok []
  | a :: l' => b <- f a ;; r <- filterM f l' ;; Ok (if b then a :: r else r)
  end.

Lemma bind_ok {A B} (r : res A) (f : A -> res B) b :
  bind r f = Ok b -> exists a, r = Ok a /\ f a = Ok b.
Proof. destruct r; simpl; intros H; [eauto | discriminate]. Qed.
