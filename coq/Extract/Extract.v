(* Extraction of the executable model. ExtrOcamlBasic only: nat, positive, Z stay inductive. *)
Require Extraction.
From Coq Require Import ExtrOcamlBasic.
From JSL Require Import Base.Res Base.ListX SM.Types SM.Util SM.Handler SM.Step SM.Middleware SM.Inv SM.Events
  Classic.Jssp Obs.Reward Obs.ObsModel Dsl.Doc.
Extraction "../ocaml/gen/sm.ml" step mw_step mw_reset env_step env_makespan get_possible_transitions
  create_timed_transitions apply_transition is_transition_valid clause_vector event_vector
  lower_bound total_work reward terminal_term
  make_simple current_transition make_oparray simple_int_fields_in_space time_in_space triple_in_space
  compile.
