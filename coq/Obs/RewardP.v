(* C19: the reward is aligned with the objective. *)
From Coq Require Import List ZArith QArith Bool Arith Lia Lqa.
From JSL Require Import Base.Res Obs.Reward.
Import ListNotations.
Open Scope Q_scope.

Lemma qz_nonzero z : (z <> 0)%Z -> ~ qz z == 0.
Proof. intros H E. unfold qz, Qeq in E. simpl in E. lia. Qed.

Section R.
Variable c : rcfg.

Lemma inv_pos_den : (rc_lb c < rc_tmax c)%Z -> 0 < / qz (rc_tmax c - rc_lb c).
Proof. intros H. apply Qinv_lt_0_compat. unfold qz. rewrite <- (Zlt_Qlt 0). lia. Qed.

(* strictly decreasing in the makespan *)
Theorem terminal_term_decreasing mk1 mk2 :
  (rc_lb c < rc_tmax c)%Z -> (mk1 < mk2)%Z -> terminal_term c mk2 < terminal_term c mk1.
Proof.
  intros HD Hmk. unfold terminal_term, Qdiv. apply Qmult_lt_compat_r; [apply inv_pos_den; auto|].
  unfold qz. rewrite <- Zlt_Qlt. lia.
Qed.

(* equal makespans, equal terms: a function of the instance and the makespan only *)
Theorem terminal_term_functional mk1 mk2 : mk1 = mk2 -> terminal_term c mk1 == terminal_term c mk2.
Proof. intros ->. reflexivity. Qed.

(* nominal maximum 1 at the lower bound *)
Theorem terminal_term_at_lb : (rc_lb c < rc_tmax c)%Z -> terminal_term c (rc_lb c) == 1.
Proof.
  intros HD. unfold terminal_term. apply Qmult_inv_r. unfold qz. intros E.
  apply (Qeq_bool_iff) in E. unfold Qeq_bool in E. simpl in E. apply Zeq_is_eq_bool in E. lia.
Qed.

(* never above the nominal maximum for makespans not below the lower bound *)
Theorem terminal_term_le_one mk : (rc_lb c < rc_tmax c)%Z -> (rc_lb c <= mk)%Z -> terminal_term c mk <= 1.
Proof.
  intros HD Hmk. destruct (Z.eq_dec mk (rc_lb c)) as [->|Hne].
  - rewrite terminal_term_at_lb; auto. apply Qle_refl.
  - apply Qlt_le_weak. rewrite <- (terminal_term_at_lb HD). apply terminal_term_decreasing; auto. lia.
Qed.

(* non-final steps: only the bounded non-positive shaping term *)
Theorem reward_nonfinal streak time noop q streak' :
  reward c streak time false false noop = Ok (q, streak') ->
  (rc_nops c <> 0)%Z /\
  ((q == 0 * rc_dense c /\ (streak' < rc_njobs c)%nat) \/
   (q == - (1 / qz (rc_nops c)) * rc_dense c /\ (rc_njobs c <= streak')%nat)) /\
  streak' = (if noop then S streak else O).
Proof.
  unfold reward, sparse_reward, dense_reward. simpl.
  destruct (rc_nops c =? 0)%Z eqn:En; [discriminate|]. apply Z.eqb_neq in En.
  intros H. inversion H; subst; clear H. split; auto. split; auto.
  destruct (Nat.leb (rc_njobs c) (if noop then S streak else 0%nat)) eqn:El.
  - right. apply Nat.leb_le in El. split; auto. ring.
  - left. apply Nat.leb_gt in El. split; auto. ring.
Qed.

(* truncation: the sparse part is the configured truncation reward *)
Theorem reward_truncated streak time term noop q streak' :
  reward c streak time term true noop = Ok (q, streak') ->
  ~ rc_sparse c == 0 /\ exists d, q == rc_trunc c + d * rc_dense c /\ (d == 0 \/ d == - (1 / qz (rc_nops c))).
Proof.
  unfold reward, sparse_reward, dense_reward, is_zero.
  destruct (Qeq_bool (rc_sparse c) 0) eqn:Ez; [discriminate|].
  assert (Hnz : ~ rc_sparse c == 0) by (intros E; apply Qeq_bool_iff in E; congruence).
  destruct (rc_nops c =? 0)%Z eqn:En; [discriminate|]. apply Z.eqb_neq in En. apply qz_nonzero in En.
  destruct (Nat.leb (rc_njobs c) (if noop then S streak else 0%nat)) eqn:El;
    intros H; inversion H; subst; clear H; (split; [auto|]).
  - exists (- (1 / qz (rc_nops c))). split; [field; split; auto|right; reflexivity].
  - exists 0. split; [field; auto|left; reflexivity].
Qed.

(* termination: main term = (Tmax - makespan) / (Tmax - LB), finite iff LB <> Tmax *)
Theorem reward_terminal streak time noop q streak' :
  reward c streak time true false noop = Ok (q, streak') ->
  (rc_tmax c - rc_lb c <> 0)%Z /\
  exists d, q == terminal_term c time * rc_sparse c + d * rc_dense c /\ (d == 0 \/ d == - (1 / qz (rc_nops c))).
Proof.
  unfold reward, sparse_reward, dense_reward. simpl.
  destruct (rc_tmax c - rc_lb c =? 0)%Z eqn:Ed; [discriminate|]. apply Z.eqb_neq in Ed.
  destruct (rc_nops c =? 0)%Z; [discriminate|].
  destruct (Nat.leb (rc_njobs c) (if noop then S streak else 0%nat)) eqn:El;
    intros H; inversion H; subst; clear H; (split; [auto|]).
  - exists (- (1 / qz (rc_nops c))). split; [unfold terminal_term; reflexivity|right; reflexivity].
  - exists 0. split; [unfold terminal_term; reflexivity|left; reflexivity].
Qed.

(* C19_finite_refuted: when the lower bound equals the sum of all durations the terminal reward is a
   division by zero *)
Theorem reward_terminal_zero_division streak time noop :
  rc_lb c = rc_tmax c -> reward c streak time true false noop = Err EPyZeroDiv.
Proof.
  intros E. unfold reward, sparse_reward. simpl. rewrite E, Z.sub_diag. reflexivity.
Qed.

End R.
