(* Observation factories (SimpleJsspObservationFactory, BinaryActionObservationFactory,
   OperationArrayObservation, BinaryOperationArrayObservation) over exact rationals, and the declared
   observation spaces. No proofs here. *)
From Coq Require Import List ZArith QArith Bool Arith.
From JSL Require Import Base.Res Base.ListX SM.Types SM.Util SM.Handler SM.Step.
Import ListNotations.
Local Open Scope Q_scope.

Definition b2z (b : bool) : Z := if b then 1%Z else 0%Z.
Definition countb {A} (f : A -> bool) (l : list A) : Z := Z.of_nat (length (filter f l)).

Record obs_simple := mkObsSimple {
  ob_job_running : list Z;                (* shape (njobs) *)
  ob_executed : list (list Z);            (* shape (njobs, nmachines) *)
  ob_job_progression : list Z;
  ob_machine_running : list Z;
  ob_machine_progression : list Z;
  ob_available : list Z;
  ob_time : Q }.

Section Obs.
Variable i : inst.
Variable tmax : Z.       (* get_max_allowed_time(instance), fixed when the factory is built *)

Definition nmachs : nat := length (i_machs i).
Definition njobs : nat := length (i_jobs i).

Definition done_on (m : nat) (o : op) : bool := is_ostate ODone o && Nat.eqb (o_mach o) m.

Definition make_simple (x : state) : res obs_simple :=
  if (tmax =? 0)%Z then Err EPyZeroDiv else
  let jobs := s_jobs x in
  Ok (mkObsSimple
        (map (fun jb => b2z (is_job_running jb)) jobs)
        (map (fun jb => map (fun m => b2z (existsb (done_on m) (j_ops jb))) (seq 0%nat nmachs)) jobs)
        (map (fun jb => countb (is_ostate ODone) (j_ops jb)) jobs)
        (map (fun ms => b2z (mstate_eqb (m_st ms) MWorking)) (s_machs x))
        (map (fun m => countb (done_on m) (flat_map j_ops jobs)) (seq 0%nat (length (s_machs x))))
        (map (fun jb => b2z (existsb (is_ostate OIdle) (j_ops jb) && negb (is_job_running jb))) jobs)
        (inject_Z (s_now x) / inject_Z tmax)).

(* current_transition: (component index / #components, job / #jobs, component type code) *)
Definition type_code (c : comp) : Q :=
  match c with CM _ => 0 | CT _ => 33 # 100 | CB _ => 66 # 100 end.

Definition comp_index (c : comp) : res nat :=
  match c with
  | CM m => if Nat.ltb m nmachs then Ok m else Err EInvalidValue
  | CT t => if Nat.ltb t (length (i_trans i)) then Ok (nmachs + t)%nat else Err EInvalidValue
  | CB _ => Err EInvalidValue
  end.

Definition ncomps : nat := (nmachs + length (i_trans i))%nat.

Definition encode_offer (nj : nat) (tr : transition) : res (Q * Q * Q) :=
  k <- comp_index (tr_comp tr) ;;
  let jq := match tr_job tr with Some j => inject_Z (Z.of_nat j) | None => inject_Z (Z.of_nat nj) end in
  if Nat.eqb nj 0%nat || Nat.eqb ncomps 0%nat then Err EPyZeroDiv
  else Ok (inject_Z (Z.of_nat k) / inject_Z (Z.of_nat ncomps), jq / inject_Z (Z.of_nat nj), type_code (tr_comp tr)).

Definition current_transition (x : state) (offers : list transition) (done : bool) : res (Q * Q * Q) :=
  if done then Ok (1, 1, 1)
  else match offers with
       | [] => Err EInvalidValue
       | tr :: _ => encode_offer (length (s_jobs x)) tr
       end.

(* OperationArrayObservation *)
Definition op_progress (now : Z) (o : op) : res Q :=
  match o_st o with
  | OIdle => Ok 0
  | ODone => Ok 1
  | OTransport => Err ENotImpl
  | OProc =>
      match o_start o, o_end o with
      | Time s, Time e => if (e - s =? 0)%Z then Err EPyZeroDiv
                          else Ok (inject_Z (now - s) / inject_Z (e - s))
      | _, _ => Err EPyType
      end
  end.

Variable label : bid -> Z.     (* the number N of the buffer id "b-N" *)

Definition max_buffer_id : Z :=
  (Z.of_nat (length (i_bufs i) + 3 * length (i_machs i) + length (i_trans i)) - 1)%Z.

Definition make_oparray (x : state) : res (list Q * list Q) :=
  ops <- mapM (op_progress (s_now x)) (flat_map j_ops (s_jobs x)) ;;
  if (max_buffer_id =? 0)%Z then Err EPyZeroDiv
  else Ok (ops, map (fun jb => inject_Z (label (j_loc jb)) / inject_Z max_buffer_id) (s_jobs x)).

(* ---------- declared bounds (after the repair of job_/machine_progression) ---------- *)
Definition max_ops_per_job : Z := zmax_list (map (fun ops => Z.of_nat (length ops)) (i_jobs i)) 0%Z.
Definition ops_on_machine (m : nat) : Z := countb (fun oc => Nat.eqb (oc_mach oc) m) (concat (i_jobs i)).
Definition max_ops_per_machine : Z := zmax_list (map ops_on_machine (seq 0%nat nmachs)) 0%Z.

Definition in01 (z : Z) : bool := ((0 <=? z) && (z <=? 1))%Z.
Definition inrange (hi : Z) (z : Z) : bool := ((0 <=? z) && (z <=? hi))%Z.
Definition q01 (q : Q) : bool := Qle_bool 0 q && Qle_bool q 1.

(* Box membership of the integer-valued fields and shapes of SimpleJsspObservationFactory *)
Definition simple_int_fields_in_space (o : obs_simple) : bool :=
  Nat.eqb (length (ob_job_running o)) njobs && forallb in01 (ob_job_running o)
  && Nat.eqb (length (ob_executed o)) njobs
  && forallb (fun r => Nat.eqb (length r) nmachs && forallb in01 r) (ob_executed o)
  && Nat.eqb (length (ob_job_progression o)) njobs && forallb (inrange max_ops_per_job) (ob_job_progression o)
  && Nat.eqb (length (ob_machine_running o)) nmachs && forallb in01 (ob_machine_running o)
  && Nat.eqb (length (ob_machine_progression o)) nmachs
  && forallb (inrange max_ops_per_machine) (ob_machine_progression o)
  && Nat.eqb (length (ob_available o)) njobs && forallb in01 (ob_available o).

Definition time_in_space (o : obs_simple) : bool := q01 (ob_time o).

Definition triple_in_space (t : Q * Q * Q) : bool :=
  let '(a, b, c) := t in q01 a && q01 b && q01 c.

End Obs.
