(* C14 / C15: observations lie in the declared space; the offer encoding is injective. *)
From Coq Require Import List ZArith QArith Bool Arith Lia.
From JSL Require Import Base.Res Base.ListX SM.Types SM.Util SM.Handler SM.Step SM.Middleware SM.Inv
  SMP.ListLemmas SMP.Reflect SMP.Preserve Obs.ObsModel.
Import ListNotations.

(* ---------- C15: injectivity of the offer encoding ---------- *)
Lemma injZ_nonzero n : (0 < n)%nat -> ~ inject_Z (Z.of_nat n) == 0.
Proof. intros Hn E. unfold Qeq in E. cbn [Qnum Qden inject_Z] in E. lia. Qed.

Lemma inject_div_eq a b n : (0 < n)%nat ->
  inject_Z (Z.of_nat a) / inject_Z (Z.of_nat n) == inject_Z (Z.of_nat b) / inject_Z (Z.of_nat n) -> a = b.
Proof.
  intros Hn H. pose proof (injZ_nonzero n Hn) as Hnz.
  assert (E : inject_Z (Z.of_nat a) == inject_Z (Z.of_nat b)).
  { rewrite <- (Qmult_div_r (inject_Z (Z.of_nat a)) (inject_Z (Z.of_nat n))) by auto.
    rewrite <- (Qmult_div_r (inject_Z (Z.of_nat b)) (inject_Z (Z.of_nat n))) by auto.
    rewrite H. reflexivity. }
  unfold Qeq in E. cbn [Qnum Qden inject_Z] in E. lia.
Qed.

Section Enc.
Variable i : inst.

Definition valid_offer (nj : nat) (tr : transition) : Prop :=
  match tr_job tr with Some j => (j < nj)%nat | None => False end.

Theorem encode_injective nj tr1 tr2 a1 b1 c1 a2 b2 c2 :
  valid_offer nj tr1 -> valid_offer nj tr2 ->
  encode_offer i nj tr1 = Ok (a1, b1, c1) -> encode_offer i nj tr2 = Ok (a2, b2, c2) ->
  a1 == a2 -> b1 == b2 -> c1 == c2 ->
  tr_comp tr1 = tr_comp tr2 /\ tr_job tr1 = tr_job tr2.
Proof.
  unfold valid_offer, encode_offer. intros V1 V2 H1 H2 Ea Eb Ec.
  destruct (tr_job tr1) as [j1|]; [|tauto]. destruct (tr_job tr2) as [j2|]; [|tauto].
  destruct (comp_index i (tr_comp tr1)) as [k1|] eqn:K1; simpl in H1; [|discriminate].
  destruct (comp_index i (tr_comp tr2)) as [k2|] eqn:K2; simpl in H2; [|discriminate].
  destruct (Nat.eqb nj 0 || Nat.eqb (ncomps i) 0) eqn:Ez; [discriminate|].
  apply orb_false_iff in Ez. destruct Ez as [Z1 Z2]. apply Nat.eqb_neq in Z1, Z2.
  inversion H1; subst; clear H1. inversion H2; subst; clear H2.
  apply inject_div_eq in Ea; [|lia]. apply inject_div_eq in Eb; [|lia]. subst.
  split; [|reflexivity].
  unfold comp_index in K1, K2.
  destruct (tr_comp tr1) as [m1|t1|n1], (tr_comp tr2) as [m2|t2|n2]; simpl in Ec;
    try discriminate; try (unfold Qeq in Ec; simpl in Ec; lia).
  - destruct (Nat.ltb m1 (nmachs i)), (Nat.ltb m2 (nmachs i)); try discriminate. congruence.
  - destruct (Nat.ltb t1 (length (i_trans i))), (Nat.ltb t2 (length (i_trans i))); try discriminate.
    inversion K1; inversion K2; subst. f_equal. lia.
Qed.

(* the triple of a valid offer lies in [0,1]^3 *)
Lemma q01_div a n : (a <= n)%nat -> (0 < n)%nat -> q01 (inject_Z (Z.of_nat a) / inject_Z (Z.of_nat n)) = true.
Proof.
  intros Ha Hn. unfold q01. apply andb_true_iff. split; apply Qle_bool_iff.
  - apply Qle_shift_div_l; [unfold Qlt; cbn [Qnum Qden inject_Z]; lia|].
    rewrite Qmult_0_l. unfold Qle; cbn [Qnum Qden inject_Z]. lia.
  - apply Qle_shift_div_r; [unfold Qlt; cbn [Qnum Qden inject_Z]; lia|].
    rewrite Qmult_1_l. unfold Qle; cbn [Qnum Qden inject_Z]. lia.
Qed.

Theorem encode_in_space nj tr t :
  (match tr_job tr with Some j => (j <= nj)%nat | None => True end) ->
  encode_offer i nj tr = Ok t -> triple_in_space t = true.
Proof.
  unfold encode_offer. intros V H.
  destruct (comp_index i (tr_comp tr)) as [k|] eqn:K; simpl in H; [|discriminate].
  destruct (Nat.eqb nj 0 || Nat.eqb (ncomps i) 0) eqn:Ez; [discriminate|].
  apply orb_false_iff in Ez. destruct Ez as [Z1 Z2]. apply Nat.eqb_neq in Z1, Z2.
  inversion H; subst; clear H. unfold triple_in_space. rewrite !andb_true_iff. repeat split.
  - apply q01_div; [|lia]. unfold comp_index in K. unfold ncomps.
    destruct (tr_comp tr) as [m|t0|n].
    + destruct (Nat.ltb_spec m (nmachs i)); inversion K; subst. lia.
    + destruct (Nat.ltb_spec t0 (length (i_trans i))); inversion K; subst. lia.
    + discriminate.
  - destruct (tr_job tr) as [j|]; apply q01_div; lia.
  - destruct (tr_comp tr); reflexivity.
Qed.

End Enc.

(* offers of the state machine always name a job and are SETUP for machines / WORKING for AGVs, so an
   offer is determined by (component, job) *)
Lemma mapM_forall {A B} (f : A -> res B) (P : B -> Prop) l r :
  (forall a b, f a = Ok b -> P b) -> mapM f l = Ok r -> Forall P r.
Proof.
  intros Hf. revert r; induction l as [|a l IH]; intros r H; simpl in H.
  - inversion H; constructor.
  - destruct (f a) as [b|] eqn:E; simpl in H; [|discriminate].
    destruct (mapM f l) as [bs|] eqn:E2; simpl in H; [|discriminate]. inversion H; subst.
    constructor; eauto.
Qed.

Definition offer_shape (tr : transition) : Prop :=
  (exists m j, tr = mkTr (CM m) (NM MSetup) (Some j)) \/ (exists t j, tr = mkTr (CT t) (NT TWorking) (Some j)).

Theorem offers_shape i x offers : get_possible_transitions i x = Ok offers -> Forall offer_shape offers.
Proof.
  unfold get_possible_transitions. intros H.
  destruct (filterM _ _) as [pj|] eqn:E1 in H; simpl in H; [|discriminate].
  destruct (get_possible_transport_transition i x) as [pt|] eqn:E2; simpl in H; [|discriminate].
  destruct (mapM _ pj) as [mt|] eqn:E3 in H; simpl in H; [|discriminate].
  inversion H; subst. apply Forall_app. split.
  - eapply mapM_forall; [|exact E3]. intros [j jb] b Hb. simpl in Hb.
    destruct (first_idle jb); simpl in Hb; [|discriminate].
    destruct (nth_error (j_ops jb) n); simpl in Hb; [|discriminate]. inversion Hb; subst. left; eauto.
  - unfold get_possible_transport_transition in E2.
    destruct (filterM _ _) as [poss|] eqn:F1 in E2; simpl in E2; [|discriminate].
    destruct (filterM _ _) as [transp|] eqn:F2 in E2; simpl in E2; [|discriminate].
    match type of E2 with bind ?e _ = _ => destruct e as [lon|] eqn:F3; simpl in E2; [|discriminate] end.
    inversion E2; subst. apply Forall_forall. intros tr Hin.
    apply in_flat_map in Hin. destruct Hin as [[t ts] [_ Hin]]. apply in_map_iff in Hin.
    destruct Hin as [[j jb] [<- _]]. right; eauto.
Qed.

Corollary offers_determined_by_comp_job tr1 tr2 :
  offer_shape tr1 -> offer_shape tr2 -> tr_comp tr1 = tr_comp tr2 -> tr_job tr1 = tr_job tr2 -> tr1 = tr2.
Proof.
  intros [[m1 [j1 ->]]|[t1 [j1 ->]]] [[m2 [j2 ->]]|[t2 [j2 ->]]]; simpl; intros Hc Hj; congruence.
Qed.

(* ---------- C14: integer fields in their Boxes ---------- *)
Lemma filter_len_le {A} (f : A -> bool) l : (length (filter f l) <= length l)%nat.
Proof. induction l; simpl; auto. destruct (f a); simpl; lia. Qed.

Lemma countb_le_length {A} (f : A -> bool) l : (countb f l <= Z.of_nat (length l))%Z.
Proof. unfold countb. pose proof (filter_len_le f l). lia. Qed.

Lemma countb_nonneg {A} (f : A -> bool) l : (0 <= countb f l)%Z.
Proof. unfold countb. lia. Qed.

Lemma zmax_list_ge l d x : In x l -> (x <= zmax_list l d)%Z.
Proof. induction l as [|h t IH]; simpl; [tauto|]. intros [->|H]; [lia|]. specialize (IH H). lia. Qed.

Lemma in01_b2z b : in01 (b2z b) = true.
Proof. destruct b; reflexivity. Qed.

Lemma forallb_map {A B} (f : B -> bool) (g : A -> B) l : forallb f (map g l) = forallb (fun a => f (g a)) l.
Proof. induction l; simpl; auto. rewrite IHl. reflexivity. Qed.

Section Space.
Variable i : inst.
Variable tmax : Z.

(* shape of the state w.r.t. the instance: same numbers of jobs/machines, every operation record sits
   on its configured machine (part of feasible_b) *)
Definition shape_b (x : state) : bool :=
  Nat.eqb (length (s_machs x)) (length (i_machs i))
  && forallb2 (fun jb cs => forallb2 (op_machine_ok) (j_ops jb) cs) (s_jobs x) (i_jobs i).

Lemma countb_mach_le m : forall (ops : list op) (cs : list opcfg),
  forallb2 op_machine_ok ops cs = true ->
  (countb (done_on m) ops <= countb (fun oc => Nat.eqb (oc_mach oc) m) cs)%Z.
Proof.
  induction ops as [|o ops IH]; intros cs H.
  - destruct cs; [|discriminate]. unfold countb; simpl; lia.
  - destruct cs as [|c cs]; [discriminate|]. simpl in H.
    apply andb_true_iff in H. destruct H as [H1 H2]. specialize (IH _ H2).
    unfold op_machine_ok in H1. apply Nat.eqb_eq in H1.
    unfold countb in *. simpl. unfold done_on at 1. rewrite H1.
    destruct (Nat.eqb (oc_mach c) m); [destruct (is_ostate ODone o)|rewrite andb_false_r]; simpl; lia.
Qed.

Lemma countb_app {A} (f : A -> bool) l1 l2 : countb f (l1 ++ l2) = (countb f l1 + countb f l2)%Z.
Proof. unfold countb. rewrite filter_app, app_length. lia. Qed.

Lemma countb_all_le m : forall (jobs : list job) (cfgs : list (list opcfg)),
  forallb2 (fun jb cs => forallb2 op_machine_ok (j_ops jb) cs) jobs cfgs = true ->
  (countb (done_on m) (flat_map j_ops jobs) <= countb (fun oc => Nat.eqb (oc_mach oc) m) (concat cfgs))%Z.
Proof.
  induction jobs as [|jb jobs IH]; intros cfgs H.
  - destruct cfgs; [|discriminate]. unfold countb; simpl; lia.
  - destruct cfgs as [|cs cfgs]; [discriminate|]. simpl in H.
    apply andb_true_iff in H. destruct H as [H1 H2]. simpl. rewrite !countb_app.
    pose proof (countb_mach_le m _ _ H1). specialize (IH _ H2). lia.
Qed.

Lemma forallb2_length {A B} (f : A -> B -> bool) l l' : forallb2 f l l' = true -> length l = length l'.
Proof. intros H. apply forallb2_spec in H. tauto. Qed.

Theorem simple_int_fields_ok x o :
  shape_b x = true -> make_simple i tmax x = Ok o -> simple_int_fields_in_space i o = true.
Proof.
  unfold shape_b, make_simple. intros Hs H. apply andb_true_iff in Hs. destruct Hs as [Hm Hj].
  apply Nat.eqb_eq in Hm.
  destruct (tmax =? 0)%Z; [discriminate|]. inversion H; subst; clear H.
  pose proof (forallb2_length _ _ _ Hj) as Hlj.
  unfold simple_int_fields_in_space. simpl. rewrite !map_length, !seq_length.
  unfold njobs, nmachs. rewrite Hlj, Hm, !Nat.eqb_refl. simpl.
  rewrite !forallb_map. rewrite !andb_true_iff. repeat split.
  - apply forallb_forall. intros; apply in01_b2z.
  - apply forallb_forall. intros jb _. rewrite map_length, seq_length, Nat.eqb_refl. simpl.
    rewrite forallb_map. apply forallb_forall. intros; apply in01_b2z.
  - apply forallb_forall. intros jb Hin. unfold inrange. apply andb_true_iff. split; apply Z.leb_le.
    + apply countb_nonneg.
    + apply In_nth_error in Hin. destruct Hin as [j Hjn].
      apply forallb2_spec in Hj. destruct Hj as [_ Hj].
      destruct (nth_error (i_jobs i) j) as [cs|] eqn:Ec; [|apply nth_error_None in Ec; apply nth_error_lt in Hjn; lia].
      specialize (Hj _ _ _ Hjn Ec). apply forallb2_length in Hj.
      pose proof (countb_le_length (is_ostate ODone) (j_ops jb)).
      assert (Z.of_nat (length cs) <= max_ops_per_job i)%Z.
      { apply zmax_list_ge. apply in_map_iff. exists cs. split; auto. eapply nth_error_In; eauto. }
      lia.
  - apply forallb_forall. intros; apply in01_b2z.
  - apply forallb_forall. intros m Hin. apply in_seq in Hin. unfold inrange. apply andb_true_iff. split; apply Z.leb_le.
    + apply countb_nonneg.
    + pose proof (countb_all_le m _ _ Hj).
      assert (ops_on_machine i m <= max_ops_per_machine i)%Z.
      { apply zmax_list_ge. apply in_map. apply in_seq. unfold nmachs. lia. }
      unfold ops_on_machine in *. lia.
  - apply forallb_forall. intros; apply in01_b2z.
Qed.

End Space.

(* C14_bad_action: an action outside {0,1} is rejected by the middleware (after the empty-offer test),
   nothing is computed from it *)
Theorem bad_action_rejected sigma i fuel r m a o rest :
  r_offers r = o :: rest -> (a <> 0)%Z -> (a <> 1)%Z -> mw_step sigma i fuel r m a = MRaise EActionSpace.
Proof.
  intros Ho H0 H1. unfold mw_step. rewrite Ho.
  destruct (Z.eqb_spec a 0); [congruence|]. destruct (Z.eqb_spec a 1); [congruence|]. reflexivity.
Qed.
