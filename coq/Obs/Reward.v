(* BinaryActionJsspReward over exact rationals. No proofs here. *)
From Coq Require Import List ZArith QArith Bool Arith.
From JSL Require Import Base.Res.
Import ListNotations.
Open Scope Q_scope.

Record rcfg := mkRCfg {
  rc_sparse : Q; rc_dense : Q; rc_trunc : Q;     (* sparse_bias, dense_bias, truncation_bias *)
  rc_tmax : Z; rc_lb : Z;                        (* max_allowed_time, lower_bound *)
  rc_nops : Z; rc_njobs : nat }.                 (* number of operations, number of jobs *)

(* the reward object's mutable streak counter *)
Definition rstate := nat.

Definition qz (z : Z) : Q := inject_Z z.

Definition is_zero (q : Q) : bool := Qeq_bool q 0.

(* _sparse_reward; division by zero is a Python ZeroDivisionError *)
Definition sparse_reward (c : rcfg) (time : Z) (term trunc : bool) : res Q :=
  if trunc then
    (if is_zero (rc_sparse c) then Err EPyZeroDiv else Ok (rc_trunc c * 1 / rc_sparse c))
  else if negb term then Ok 0
  else if (rc_tmax c - rc_lb c =? 0)%Z then Err EPyZeroDiv
  else Ok (qz (rc_tmax c - time) / qz (rc_tmax c - rc_lb c)).

(* _dense_reward: streak of steps whose result carries an empty action *)
Definition dense_reward (c : rcfg) (streak : rstate) (noop : bool) : res (Q * rstate) :=
  let streak' := if noop then S streak else O in
  if (rc_nops c =? 0)%Z then Err EPyZeroDiv
  else Ok ((if Nat.leb (rc_njobs c) streak' then - (1 / qz (rc_nops c)) else 0), streak').

(* make: the sparse term is computed first *)
Definition reward (c : rcfg) (streak : rstate) (time : Z) (term trunc noop : bool) : res (Q * rstate) :=
  match sparse_reward c time term trunc with
  | Err e => Err e
  | Ok s =>
      match dense_reward c streak noop with
      | Err e => Err e
      | Ok (d, streak') => Ok (s * rc_sparse c + d * rc_dense c, streak')
      end
  end.

(* the main term of the terminal reward as a function of the makespan *)
Definition terminal_term (c : rcfg) (mk : Z) : Q := qz (rc_tmax c - mk) / qz (rc_tmax c - rc_lb c).
