(* State and instance types: field-for-field from jobshoplab/types/state_types.py and
   instance_config_types.py, with positional identifiers (see DESIGN.md 3.1). *)
From Coq Require Import List ZArith Bool Arith.
From JSL Require Import Base.Res Base.ListX.
Import ListNotations.

(* ---------- identifiers ---------- *)
Inductive bid := BStd (n : nat) | BPre (m : nat) | BIn (m : nat) | BPost (m : nat) | BAgv (t : nat).
Inductive place := PM (m : nat) | PB (n : nat) | PT (t : nat).
Inductive comp := CM (m : nat) | CT (t : nat) | CB (n : nat).

Definition bid_eqb (a b : bid) : bool :=
  match a, b with
  | BStd x, BStd y | BPre x, BPre y | BIn x, BIn y | BPost x, BPost y | BAgv x, BAgv y => Nat.eqb x y
  | _, _ => false
  end.
Definition place_eqb (a b : place) : bool :=
  match a, b with
  | PM x, PM y | PB x, PB y | PT x, PT y => Nat.eqb x y
  | _, _ => false
  end.
Definition comp_eqb (a b : comp) : bool :=
  match a, b with
  | CM x, CM y | CT x, CT y | CB x, CB y => Nat.eqb x y
  | _, _ => false
  end.

(* ---------- state ---------- *)
Inductive time := NoTime | Time (z : Z).
Inductive ostate := OIdle | OProc | ODone | OTransport.
Record op := mkOp { o_mach : nat; o_start : time; o_end : time; o_st : ostate }.
Record job := mkJob { j_ops : list op; j_loc : bid }.

Inductive bflag := FEmpty | FNotEmpty | FFull.
Record buf := mkBuf { b_store : list nat; b_flag : bflag }.

Inductive mstate := MIdle | MSetup | MWorking | MOutage.
Inductive tstate := TIdle | TWorking | TPickup | TTransit | TOutage | TWaiting.
Inductive nstate := NM (s : mstate) | NT (s : tstate).

Inductive oact := OActive (s e : time) | OInactive (l : time).

Record transition := mkTr { tr_comp : comp; tr_new : nstate; tr_job : option nat }.

Record machine := mkMachine {
  m_st : mstate; m_occ : time; m_pre : buf; m_in : buf; m_post : buf;
  m_tool : nat; m_out : list oact }.

Inductive occ := ONo | OAt (z : Z) | ODep (b : bid) (j : nat) (tr : transition).
Inductive tloc := LAt (p : place) | LRoute (cur : place) (src : bid) (dst : place).

Record transport := mkTransport {
  t_st : tstate; t_occ : occ; t_buf : buf; t_loc : tloc; t_job : option nat; t_out : list oact }.

(* s_sto: current value and draw index of every StochasticTimeConfig object of the
   instance (they are mutable members of the instance in the implementation). *)
Record state := mkState {
  s_jobs : list job; s_now : Z; s_machs : list machine; s_trans : list transport;
  s_bufs : list buf; s_sto : list (Z * nat) }.

(* ---------- instance ---------- *)
Inductive tcfg := Det (z : Z) | Stoch (id : nat).
Record opcfg := mkOpCfg { oc_mach : nat; oc_dur : tcfg; oc_tool : nat }.
Inductive btype := Fifo | Lifo | Flex | Dummy.
Inductive brole := RInput | ROutput | RComponent | RCompensation.
Record bcfg := mkBCfg { bc_type : btype; bc_cap : Z; bc_role : brole }.
Record ocfg := mkOCfg { og_freq : tcfg; og_dur : tcfg }.
Record mcfg := mkMCfg {
  mc_pre : bcfg; mc_in : bcfg; mc_post : bcfg;
  mc_setup : list ((nat * nat) * tcfg); mc_out : list ocfg }.
Record acfg := mkACfg { ac_buf : bcfg; ac_out : list ocfg }.
Record inst := mkInst {
  i_jobs : list (list opcfg); i_machs : list mcfg; i_trans : list acfg; i_bufs : list bcfg;
  i_travel : list ((place * place) * tcfg); i_early : bool }.

(* the stochastic oracle: sigma id k = k-th raw draw of object id (before max 0) *)
Definition oracle := nat -> nat -> Z.

(* ---------- equality tests on enums ---------- *)
Definition ostate_eqb (a b : ostate) : bool :=
  match a, b with OIdle, OIdle | OProc, OProc | ODone, ODone | OTransport, OTransport => true | _, _ => false end.
Definition mstate_eqb (a b : mstate) : bool :=
  match a, b with MIdle, MIdle | MSetup, MSetup | MWorking, MWorking | MOutage, MOutage => true | _, _ => false end.
Definition tstate_eqb (a b : tstate) : bool :=
  match a, b with
  | TIdle, TIdle | TWorking, TWorking | TPickup, TPickup | TTransit, TTransit
  | TOutage, TOutage | TWaiting, TWaiting => true
  | _, _ => false end.
Definition nstate_eqb (a b : nstate) : bool :=
  match a, b with NM x, NM y => mstate_eqb x y | NT x, NT y => tstate_eqb x y | _, _ => false end.
Definition opt_nat_eqb (a b : option nat) : bool :=
  match a, b with Some x, Some y => Nat.eqb x y | None, None => true | _, _ => false end.
Definition tr_eqb (a b : transition) : bool :=
  comp_eqb (tr_comp a) (tr_comp b) && nstate_eqb (tr_new a) (tr_new b) && opt_nat_eqb (tr_job a) (tr_job b).

(* ---------- record updates ---------- *)
Definition set_op_st (o : op) s := mkOp (o_mach o) (o_start o) (o_end o) s.
Definition set_op_end (o : op) e := mkOp (o_mach o) (o_start o) e (o_st o).
Definition set_j_ops (j : job) ops := mkJob ops (j_loc j).
Definition set_j_loc (j : job) l := mkJob (j_ops j) l.

Definition set_jobs (x : state) v := mkState v (s_now x) (s_machs x) (s_trans x) (s_bufs x) (s_sto x).
Definition set_now (x : state) v := mkState (s_jobs x) v (s_machs x) (s_trans x) (s_bufs x) (s_sto x).
Definition set_machs (x : state) v := mkState (s_jobs x) (s_now x) v (s_trans x) (s_bufs x) (s_sto x).
Definition set_trans (x : state) v := mkState (s_jobs x) (s_now x) (s_machs x) v (s_bufs x) (s_sto x).
Definition set_bufs (x : state) v := mkState (s_jobs x) (s_now x) (s_machs x) (s_trans x) v (s_sto x).
Definition set_sto (x : state) v := mkState (s_jobs x) (s_now x) (s_machs x) (s_trans x) (s_bufs x) v.

Definition put_job (x : state) (j : nat) (v : job) := set_jobs x (upd (s_jobs x) j v).
Definition put_mach (x : state) (m : nat) (v : machine) := set_machs x (upd (s_machs x) m v).
Definition put_trans (x : state) (t : nat) (v : transport) := set_trans x (upd (s_trans x) t v).
Definition put_sbuf (x : state) (n : nat) (v : buf) := set_bufs x (upd (s_bufs x) n v).

Definition get_job (x : state) (j : nat) : res job := of_opt EInvalidValue (nth_error (s_jobs x) j).
Definition get_mach (x : state) (m : nat) : res machine := of_opt EInvalidValue (nth_error (s_machs x) m).
Definition get_trans (x : state) (t : nat) : res transport := of_opt EInvalidValue (nth_error (s_trans x) t).
