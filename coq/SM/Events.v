(* Event-level specifications: what one applied transition must have done to the state,
   written only in terms of the state before (x), the transition (tr) and the state after (x').
   These booleans are the statements of the one-step theorems for C02 C07 C08 C09 C10 C11
   and are evaluated by the monitors on every implementation micro-event. No proofs. *)
From Coq Require Import List ZArith Bool Arith.
From JSL Require Import Base.Res Base.ListX SM.Types SM.Util SM.Handler SM.Step SM.Inv.
Import ListNotations.
Open Scope Z_scope.

Inductive ekind :=
| KSetupEv | KWork | KMOut | KMIdle | KDispatch | KArrive | KRewait | KTransit | KDeliver | KTIdle | KOther.

Definition ekind_of (x : state) (tr : transition) : ekind :=
  match tr_comp tr, tr_new tr with
  | CM m, NM s =>
      match nth_error (s_machs x) m with
      | Some ms => match m_st ms, s with
                   | MIdle, MSetup => KSetupEv | MSetup, MWorking => KWork
                   | MWorking, MOutage => KMOut | MOutage, MIdle => KMIdle | _, _ => KOther end
      | None => KOther end
  | CT t, NT s =>
      match nth_error (s_trans x) t with
      | Some ts => match t_st ts, s with
                   | TIdle, TWorking => KDispatch | TPickup, TWaiting => KArrive
                   | TWaiting, TWaiting => KRewait
                   | TWaiting, TTransit | TPickup, TTransit => KTransit
                   | TTransit, TOutage => KDeliver | TOutage, TIdle => KTIdle | _, _ => KOther end
      | None => KOther end
  | _, _ => KOther
  end.

Definition time_eqb (a b : time) : bool :=
  match a, b with Time p, Time q => p =? q | NoTime, NoTime => true | _, _ => false end.
Definition occ_is (o : occ) (z : Z) : bool := match o with OAt y => y =? z | _ => false end.
Fixpoint list_nat_eqb (a b : list nat) : bool :=
  match a, b with
  | [], [] => true
  | p :: r, q :: s => Nat.eqb p q && list_nat_eqb r s
  | _, _ => false end.

(* is job j at the position its buffer's discipline releases? (head for FIFO/DUMMY, last for LIFO) *)
Definition at_release_position (j : nat) (st : list nat) (ty : btype) : bool :=
  match ty with
  | Fifo | Dummy => match st with h :: _ => Nat.eqb h j | [] => false end
  | Lifo => match st with [] => false | h :: _ => Nat.eqb (last st h) j end
  | Flex => mem_nat j st
  end.

Definition max_active_len (os : list oact) : Z :=
  match occupied_time os with Ok z => z | Err _ => -1 end.

Definition released_ok (before after : list oact) : bool :=
  forallb2 (fun b a => match b, a with
                       | OActive _ e, OInactive l => time_eqb e l
                       | OInactive l1, OInactive l2 => time_eqb l1 l2
                       | _, _ => false end) before after.

(* new outage records: untouched inactive ones, or started now with non-negative length; for an outage definition with a
   deterministic frequency the record is started exactly when it is due (elapsed time since its last end within the
   frequency - the rule of outage_utils, SM/Util.v sample_outage), and with a deterministic duration it lasts exactly that *)
Definition det_due (now : Z) (c : ocfg) (b : oact) : option bool :=
  match b, og_freq c with
  | OInactive l, Det f => Some ((now - (match l with NoTime => 0 | Time z => z end)) <=? f)
  | _, _ => None
  end.
Definition sampled_ok (now : Z) (cs : list ocfg) (before after : list oact) : bool :=
  forallb2 (fun cb a => match snd cb, a with
                        | OInactive l1, OInactive l2 =>
                            time_eqb l1 l2 && (match det_due now (fst cb) (snd cb) with Some true => false | _ => true end)
                        | OInactive _, OActive (Time s) (Time e) =>
                            (s =? now) && (s <=? e)
                            && (match det_due now (fst cb) (snd cb) with Some false => false | _ => true end)
                            && (match og_dur (fst cb) with Det d => e =? now + d | _ => true end)
                        | _, _ => false end) (combine cs before) after.

Section Ev.
Variable i : inst.

Definition opt_b {A} (o : option A) (f : A -> bool) : bool := match o with Some a => f a | None => false end.

(* C08: machine takes the job its pre-buffer's discipline releases *)
Definition ev_pre_release (x : state) (tr : transition) (x' : state) : bool :=
  match ekind_of x tr, tr_comp tr, tr_job tr with
  | KSetupEv, CM m, Some j =>
      opt_b (nth_error (s_machs x) m) (fun ms =>
      opt_b (get_bcfg i (BPre m)) (fun c => at_release_position j (b_store (m_pre ms)) (bc_type c)))
  | KSetupEv, _, _ => false
  | _, _, _ => true
  end.

(* C09: setup pays matrix[(mounted tool, tool of the operation)], mounts the new tool, blocks the machine *)
Definition ev_setup (x : state) (tr : transition) (x' : state) : bool :=
  match ekind_of x tr, tr_comp tr, tr_job tr with
  | KSetupEv, CM m, Some j =>
      opt_b (nth_error (s_machs x) m) (fun ms =>
      opt_b (nth_error (s_machs x') m) (fun ms' =>
      opt_b (nth_error (s_jobs x) j) (fun jb =>
      opt_b (nth_error (s_jobs x') j) (fun jb' =>
      opt_b (first_not_done jb) (fun k =>
      opt_b (nth_error (i_jobs i) j) (fun ocs =>
      opt_b (nth_error ocs k) (fun oc =>
      opt_b (nth_error (i_machs i) m) (fun mc =>
      opt_b (setup_lookup (mc_setup mc) (m_tool ms) (oc_tool oc)) (fun sc =>
      match tc_read (s_sto x) sc with
      | Ok st =>
          (0 <=? st) && time_eqb (m_occ ms') (Time (s_now x + st)) && Nat.eqb (m_tool ms') (oc_tool oc)
          && mstate_eqb (m_st ms') MSetup && list_nat_eqb (b_store (m_in ms')) [j]
          && opt_b (nth_error (j_ops jb') k) (fun o' =>
               is_ostate OProc o' && Nat.eqb (o_mach o') m && time_eqb (o_start o') (Time (s_now x))
               && time_eqb (o_end o') (Time (s_now x + st)))
      | Err _ => false end)))))))))
  | KSetupEv, _, _ => false
  | _, _, _ => true
  end.

(* C09 frame: the mounted tool changes at no other event *)
Definition ev_tool_frame (x : state) (tr : transition) (x' : state) : bool :=
  match ekind_of x tr with
  | KSetupEv => match tr_comp tr with
                | CM m => forallb2 (fun '(n, a) b => Nat.eqb n m || Nat.eqb (m_tool a) (m_tool b))
                            (indexed O (s_machs x)) (s_machs x')
                | _ => false end
  | _ => forallb2 (fun a b => Nat.eqb (m_tool a) (m_tool b)) (s_machs x) (s_machs x')
  end.

(* timed events fire exactly when they are due (C02 C07 C09 C10 exactness) *)
Definition ev_due (x : state) (tr : transition) (x' : state) : bool :=
  match ekind_of x tr, tr_comp tr with
  | KWork, CM m | KMOut, CM m | KMIdle, CM m =>
      opt_b (nth_error (s_machs x) m) (fun ms => time_eqb (m_occ ms) (Time (s_now x)))
  | KArrive, CT t | KDeliver, CT t | KTIdle, CT t =>
      opt_b (nth_error (s_trans x) t) (fun ts => occ_is (t_occ ts) (s_now x))
  | _, _ => true
  end.

(* C02: processing starts now and is planned to end after exactly the configured / sampled duration *)
Definition ev_work (x : state) (tr : transition) (x' : state) : bool :=
  match ekind_of x tr, tr_comp tr, tr_job tr with
  | KWork, CM m, Some j =>
      opt_b (nth_error (s_machs x') m) (fun ms' =>
      opt_b (nth_error (s_jobs x) j) (fun jb =>
      opt_b (nth_error (s_jobs x') j) (fun jb' =>
      opt_b (first_not_done jb) (fun k =>
      opt_b (nth_error (i_jobs i) j) (fun ocs =>
      opt_b (nth_error ocs k) (fun oc =>
      match tc_read (s_sto x') (oc_dur oc) with
      | Ok d =>
          (0 <=? d) && time_eqb (m_occ ms') (Time (s_now x + d)) && mstate_eqb (m_st ms') MWorking
          && Nat.eqb (oc_mach oc) m
          && opt_b (nth_error (j_ops jb') k) (fun o' =>
               is_ostate OProc o' && Nat.eqb (o_mach o') m && time_eqb (o_start o') (Time (s_now x))
               && time_eqb (o_end o') (Time (s_now x + d)))
      | Err _ => false end))))))
  | KWork, _, _ => false
  | _, _, _ => true
  end.

(* C02/C10: at the end of processing the machine is blocked for the longest active outage, the
   operation's end is extended by exactly that, the job stays inside *)
Definition ev_machine_outage (x : state) (tr : transition) (x' : state) : bool :=
  match ekind_of x tr, tr_comp tr, tr_job tr with
  | KMOut, CM m, Some j =>
      opt_b (nth_error (s_machs x) m) (fun ms =>
      opt_b (nth_error (s_machs x') m) (fun ms' =>
      opt_b (nth_error (s_jobs x) j) (fun jb =>
      opt_b (nth_error (s_jobs x') j) (fun jb' =>
      opt_b (first_proc jb) (fun k =>
      let l := max_active_len (m_out ms') in
      (0 <=? l) && opt_b (nth_error (i_machs i) m) (fun mc => sampled_ok (s_now x) (mc_out mc) (m_out ms) (m_out ms'))
      && time_eqb (m_occ ms') (Time (s_now x + l)) && mstate_eqb (m_st ms') MOutage
      && list_nat_eqb (b_store (m_in ms')) (b_store (m_in ms))
      && opt_b (nth_error (j_ops jb) k) (fun o =>
         opt_b (nth_error (j_ops jb') k) (fun o' =>
           is_ostate OProc o' && time_eqb (o_start o') (o_start o)
           && time_eqb (o_end o') (Time (s_now x + l)))))))))
  | KMOut, _, _ => false
  | _, _, _ => true
  end.

(* C02/C10/C08: release: operation DONE with end = now, job appended to the post-buffer,
   machine idle, every outage record inactive with its end remembered *)
Definition ev_machine_release (x : state) (tr : transition) (x' : state) : bool :=
  match ekind_of x tr, tr_comp tr with
  | KMIdle, CM m =>
      opt_b (nth_error (s_machs x) m) (fun ms =>
      opt_b (nth_error (s_machs x') m) (fun ms' =>
      match b_store (m_in ms) with
      | [j] =>
          opt_b (nth_error (s_jobs x) j) (fun jb =>
          opt_b (nth_error (s_jobs x') j) (fun jb' =>
          opt_b (first_proc jb) (fun k =>
          mstate_eqb (m_st ms') MIdle && is_nil (b_store (m_in ms'))
          && list_nat_eqb (b_store (m_post ms')) (b_store (m_post ms) ++ [j])
          && released_ok (m_out ms) (m_out ms')
          && bid_eqb (j_loc jb') (BPost m)
          && opt_b (nth_error (j_ops jb) k) (fun o =>
             opt_b (nth_error (j_ops jb') k) (fun o' =>
               is_ostate ODone o' && time_eqb (o_start o') (o_start o)
               && time_eqb (o_end o') (Time (s_now x)))))))
      | _ => false end))
  | _, _ => true
  end.

(* C07/C11: dispatch: the AGV needs travel(its place -> job's place) to get there, records the
   route, claims the job; with early transport disabled the job must be ready *)
Definition ev_dispatch (x : state) (tr : transition) (x' : state) : bool :=
  match ekind_of x tr, tr_comp tr, tr_job tr with
  | KDispatch, CT t, Some j =>
      opt_b (nth_error (s_trans x) t) (fun ts =>
      opt_b (nth_error (s_trans x') t) (fun ts' =>
      opt_b (nth_error (s_jobs x) j) (fun jb =>
      match t_loc ts, dest_idle i jb with
      | LAt p, Ok dst =>
          opt_b (travel_lookup (i_travel i) p (place_of_bid (j_loc jb))) (fun c =>
          match tc_read (s_sto x) c with
          | Ok d =>
              (0 <=? d) && occ_is (t_occ ts') (s_now x + d) && tstate_eqb (t_st ts') TPickup
              && opt_nat_eqb (t_job ts') (Some j)
              && match t_loc ts' with
                 | LRoute a b c' => place_eqb a p && bid_eqb b (j_loc jb) && place_eqb c' dst
                 | _ => false end
              && negb (mem_nat j (claims x))
              && (i_early i || match is_ready i x j jb with Ok r => r | Err _ => false end)
          | Err _ => false end)
      | _, _ => false end)))
  | KDispatch, _, _ => false
  | _, _, _ => true
  end.

(* is the job inside its buffer but not at the position the discipline releases? *)
Definition blocked_by_order (x : state) (j : nat) (jb : job) : bool :=
  match get_buf x (j_loc jb), get_bcfg i (j_loc jb) with
  | Some b, Some c => mem_nat j (b_store b) && negb (at_release_position j (b_store b) (bc_type c))
  | _, _ => false
  end.

(* C07/C08: pickup: the job is not being processed, lies in a post- or standalone buffer at the
   position the discipline releases, and the trip takes travel(source place -> destination);
   a job that is not at the release position is not taken: the AGV keeps waiting *)
Definition ev_transit (x : state) (tr : transition) (x' : state) : bool :=
  match ekind_of x tr, tr_comp tr, tr_job tr with
  | KTransit, CT t, Some j =>
      opt_b (nth_error (s_trans x) t) (fun ts =>
      opt_b (nth_error (s_trans x') t) (fun ts' =>
      opt_b (nth_error (s_jobs x) j) (fun jb =>
      opt_b (nth_error (s_jobs x') j) (fun jb' =>
      if blocked_by_order x j jb then
        tstate_eqb (t_st ts') TWaiting && is_nil (b_store (t_buf ts'))
        && forallb2 list_nat_eqb (all_stores x) (all_stores x') && bid_eqb (j_loc jb') (j_loc jb)
      else
      opt_b (get_buf x (j_loc jb)) (fun src =>
      opt_b (get_buf x' (j_loc jb)) (fun src' =>
      opt_b (get_bcfg i (j_loc jb)) (fun c =>
      match dest_not_done i jb with
      | Ok dst =>
          opt_b (travel_lookup (i_travel i) (place_of_bid (j_loc jb)) dst) (fun tc =>
          match tc_read (s_sto x') tc with
          | Ok d =>
              (0 <=? d) && negb (is_job_running jb)
              && match j_loc jb with BStd _ | BPost _ => true | _ => false end
              && list_nat_eqb (b_store src') (remove_nat j (b_store src))
              && list_nat_eqb (b_store (t_buf ts')) [j]
              && bid_eqb (j_loc jb') (BAgv t)
              && occ_is (t_occ ts') (s_now x + d) && tstate_eqb (t_st ts') TTransit
              && opt_nat_eqb (t_job ts) (Some j)
              && match t_loc ts with LRoute _ _ d3 => place_eqb d3 dst | _ => false end
          | Err _ => false end)
      | Err _ => false end)))))))
  | KTransit, _, _ => false
  | _, _, _ => true
  end.

(* C08: an AGV takes the job the source buffer's discipline releases *)
Definition ev_transit_release (x : state) (tr : transition) (x' : state) : bool :=
  match ekind_of x tr, tr_comp tr, tr_job tr with
  | KTransit, CT t, Some j =>
      opt_b (nth_error (s_jobs x) j) (fun jb =>
      opt_b (nth_error (s_trans x') t) (fun ts' =>
      opt_b (get_buf x (j_loc jb)) (fun src =>
      opt_b (get_bcfg i (j_loc jb)) (fun c =>
        negb (mem_nat j (b_store (t_buf ts'))) || at_release_position j (b_store src) (bc_type c)))))
  | KTransit, _, _ => false
  | _, _, _ => true
  end.

(* C07: delivery: the job joins the back of the destination's pre-buffer (or the output buffer),
   the AGV stands at the destination, drops its claim and is blocked for its longest outage *)
Definition ev_deliver (x : state) (tr : transition) (x' : state) : bool :=
  match ekind_of x tr, tr_comp tr, tr_job tr with
  | KDeliver, CT t, Some j =>
      opt_b (nth_error (s_trans x) t) (fun ts =>
      opt_b (nth_error (s_trans x') t) (fun ts' =>
      opt_b (nth_error (s_jobs x') j) (fun jb' =>
      match t_loc ts with
      | LRoute _ _ dst =>
          let target := match dst with PM m => Some (BPre m) | PB n => Some (BStd n) | PT _ => None end in
          opt_b target (fun tb =>
          opt_b (get_buf x tb) (fun b0 =>
          opt_b (get_buf x' tb) (fun b1 =>
          let l := max_active_len (t_out ts') in
          (0 <=? l) && opt_b (nth_error (i_trans i) t) (fun ac => sampled_ok (s_now x) (ac_out ac) (t_out ts) (t_out ts'))
          && list_nat_eqb (b_store b1) (b_store b0 ++ [j])
          && list_nat_eqb (b_store (t_buf ts)) [j] && is_nil (b_store (t_buf ts'))
          && bid_eqb (j_loc jb') tb
          && match t_loc ts' with LAt p => place_eqb p dst | _ => false end
          && opt_nat_eqb (t_job ts') None && tstate_eqb (t_st ts') TOutage
          && occ_is (t_occ ts') (s_now x + l))))
      | _ => false end)))
  | KDeliver, _, _ => false
  | _, _, _ => true
  end.

(* C10: AGV release *)
Definition ev_transport_release (x : state) (tr : transition) (x' : state) : bool :=
  match ekind_of x tr, tr_comp tr with
  | KTIdle, CT t =>
      opt_b (nth_error (s_trans x) t) (fun ts =>
      opt_b (nth_error (s_trans x') t) (fun ts' =>
      tstate_eqb (t_st ts') TIdle && released_ok (t_out ts) (t_out ts')
      && is_nil (b_store (t_buf ts')) && opt_nat_eqb (t_job ts') None))
  | _, _ => true
  end.

(* C08: every insertion appends at the back, every other store is unchanged up to removal of the
   moved job: stores only ever change by "remove j somewhere, append j somewhere" *)
Definition store_change_ok (a b : list nat) : bool :=
  list_nat_eqb a b
  || match b with [] => false | _ => list_nat_eqb a (removelast b) end      (* appended one *)
  || existsb (fun j => list_nat_eqb b (remove_nat j a)) a.                   (* removed one *)
Definition ev_stores (x : state) (tr : transition) (x' : state) : bool :=
  forallb2 store_change_ok (all_stores x) (all_stores x').

(* the clock never moves inside a transition *)
Definition ev_clock (x : state) (tr : transition) (x' : state) : bool := s_now x =? s_now x'.

Definition event_vector (x : state) (tr : transition) (x' : state) : list bool :=
  [ ev_pre_release x tr x'; ev_setup x tr x'; ev_tool_frame x tr x'; ev_due x tr x'; ev_work x tr x';
    ev_machine_outage x tr x'; ev_machine_release x tr x'; ev_dispatch x tr x'; ev_transit x tr x';
    ev_deliver x tr x'; ev_transport_release x tr x'; ev_stores x tr x'; ev_clock x tr x'; ev_transit_release x tr x'; transit_side_b tr x'; transit_claim_b tr x' ].

End Ev.

(* C11, last sentence: a dispatch (IDLE -> WORKING of an AGV) of a job that is not ready for pickup in the state it is applied in;
   scan over a micro-log, each entry against the post-state of the one before (readiness does not read the clock) *)
Definition unready_dispatch (i : inst) (x : state) (tr : transition) : bool :=
  match tr_new tr, tr_job tr with
  | NT TWorking, Some j => match nth_error (s_jobs x) j with
                           | Some jb => match is_ready i x j jb with Ok false => true | _ => false end
                           | None => false end
  | _, _ => false end.
Fixpoint scan_unready (i : inst) (x : state) (lg : list (transition * state)) : bool :=
  match lg with [] => false | (tr, y) :: r => unready_dispatch i x tr || scan_unready i y r end.

(* the readiness conjunct of ev_dispatch on its own: early transport allowed, or the job ready for pickup *)
Definition dispatch_ready_conj (i : inst) (x : state) (tr : transition) : bool :=
  match tr_job tr with
  | Some j => match nth_error (s_jobs x) j with
              | Some jb => i_early i || match is_ready i x j jb with Ok r => r | Err _ => false end
              | None => false end
  | None => false end.

