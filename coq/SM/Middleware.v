(* EventBasedBinaryActionMiddleware, BinaryJobActionFactory.interpret, SubTimeStepper and the
   flag logic of JobShopLabEnv.step. No proofs. *)
From Coq Require Import List ZArith Bool Arith.
From JSL Require Import Base.Res Base.ListX SM.Types SM.Util SM.Handler SM.Step.
Import ListNotations.
Open Scope Z_scope.

(* a successful StateMachineResult as far as the middleware/env read it *)
Record result := mkResult {
  r_x : state;                    (* .state *)
  r_offers : list transition;     (* .possible_transitions *)
  r_acts : list transition        (* .action.transitions *)
}.

(* mutable middleware members *)
Record mw := mkMw {
  mw_joker : Z; mw_noop : nat; mw_act : nat; mw_trunc_active : bool }.

Inductive mwout :=
| MOk (r : result) (m : mw) (lg : mlog)
| MFail (sto : list (Z * nat)) (m : mw)   (* success=False result: env keeps its state *)
| MRaise (e : err)
| MOutOfFuel.

Section Mw.
Variable sigma : oracle.
Variable i : inst.
Variable fuel : nat.

Definition add_operation (m : mw) (is_noop : bool) : mw :=
  if is_noop then mkMw (mw_joker m) (S (mw_noop m)) (mw_act m) (mw_trunc_active m)
  else mkMw (mw_joker m) (mw_noop m) (S (mw_act m)) (mw_trunc_active m).

Definition should_truncate (m : mw) : bool :=
  mw_trunc_active m && Nat.eqb (mw_act m) 0.

(* middleware.reset: dummy action through the state machine; joker back to its initial value *)
Definition mw_reset (x0 : state) (joker0 : Z) (trunc_active : bool) (m : mw) : mwout :=
  match step sigma i fuel x0 [] TMJumpToEvent with
  | SOk x offers lg => MOk (mkResult x offers []) (mkMw joker0 (mw_noop m) (mw_act m) trunc_active) lg
  | SFail xf _ => MFail (s_sto xf) m
  | SRaise e => MRaise e
  | SOutOfFuel => MOutOfFuel
  end.

Definition mw_step (r : result) (m : mw) (a : Z) : mwout :=
  match r_offers r with
  | [] => MRaise EInvalidValue                    (* interpret: no possible transitions *)
  | tr :: rest =>
      if negb ((a =? 0) || (a =? 1)) then MRaise EActionSpace
      else if a =? 0 then
        let m1 := add_operation m true in
        match rest with
        | [] =>
            match step sigma i fuel (r_x r) [] TMForceJump with
            | SOk x offers lg =>
                match offers with
                | [] => if all_in_output i x then MOk (mkResult x [] []) m1 lg
                        else MRaise EUnsuccessful
                | _ =>
                    let j := if should_truncate m1 then mw_joker m1 - 1 else mw_joker m1 in
                    (* stepper.reset(action): counters to zero, then add_operation(no-op) *)
                    MOk (mkResult x offers []) (mkMw j 1%nat 0%nat (mw_trunc_active m1)) lg
                end
            | SFail _ _ => MRaise EUnsuccessful   (* no offers and the old state is not done *)
            | SRaise e => MRaise e
            | SOutOfFuel => MOutOfFuel
            end
        | _ => MOk (mkResult (r_x r) rest []) m1 []
        end
      else
        let m1 := add_operation m false in
        match step sigma i fuel (r_x r) [tr] TMJumpToEvent with
        | SOk x offers lg => MOk (mkResult x offers [tr]) m1 lg
        | SFail xf _ => MFail (s_sto xf) m1
        | SRaise e => MRaise e
        | SOutOfFuel => MOutOfFuel
        end
  end.

(* ---------- env flags ---------- *)
Record env := mkEnv {
  e_res : result; e_mw : mw; e_term : bool; e_trunc : bool; e_hist : nat (* len(history) *) }.

Inductive envout :=
| EOk (e : env) (lg : mlog)
| ERaise (er : err)
| EOutOfFuel.

Definition env_done (e : env) : bool := e_term e || e_trunc e.

Definition env_step (e : env) (a : Z) : envout :=
  if env_done e then ERaise EEnvDone
  else match mw_step (e_res e) (e_mw e) a with
       | MOk r m lg =>
           EOk (mkEnv r m (all_in_output i (r_x r)) (mw_joker m <? 0) (S (e_hist e))) lg
       | MFail sto m =>
           EOk (mkEnv (mkResult (set_sto (r_x (e_res e)) sto) (r_offers (e_res e)) (r_acts (e_res e)))
                      m false true (e_hist e)) []
       | MRaise er => ERaise er
       | MOutOfFuel => EOutOfFuel
       end.

(* info["makespan"] *)
Definition env_makespan (e : env) : option Z :=
  if e_term e then Some (s_now (r_x (e_res e))) else None.

End Mw.
