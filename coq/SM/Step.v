(* possible_transition_utils (offers), validate.py, transitions.py tables, time_machines.py,
   state.step with its timed-transition loop (explicit fuel). No proofs. *)
From Coq Require Import List ZArith Bool Arith.
From JSL Require Import Base.Res Base.ListX SM.Types SM.Util SM.Handler.
Import ListNotations.
Open Scope Z_scope.

(* ---------- transitions.py ---------- *)
Inductive cat := KIdle | KSetup | KRunning | KOutage.
Definition cat_eqb (a b : cat) : bool :=
  match a, b with KIdle, KIdle | KSetup, KSetup | KRunning, KRunning | KOutage, KOutage => true | _, _ => false end.

(* Transition._match_state on the enum's lower-cased value *)
Definition match_state (s : nstate) : cat :=
  match s with
  | NM MIdle => KIdle | NM MSetup => KSetup | NM MWorking => KRunning | NM MOutage => KOutage
  | NT TIdle => KIdle | NT TWorking => KRunning | NT TPickup => KRunning | NT TTransit => KRunning
  | NT TOutage => KOutage | NT TWaiting => KRunning
  end.

Definition machine_table (c : cat) : list cat :=
  match c with
  | KIdle => [KSetup] | KSetup => [KRunning] | KRunning => [KOutage; KRunning] | KOutage => [KIdle]
  end.
(* the transport table has no SETUP key: KeyError in the implementation, unreachable for
   transports because no transport state maps to SETUP *)
Definition transport_table (c : cat) : list cat :=
  match c with
  | KIdle => [KRunning] | KSetup => [] | KRunning => [KOutage; KRunning] | KOutage => [KIdle]
  end.

Definition is_valid_transition (table : cat -> list cat) (cur new : nstate) : bool :=
  if nstate_eqb cur new && negb (nstate_eqb cur (NT TWaiting)) then false
  else existsb (cat_eqb (match_state new)) (table (match_state cur)).

Section Step.
Variable sigma : oracle.
Variable i : inst.

(* ---------- validate.py ---------- *)
Definition is_machine_transition_valid (x : state) (m : nat) (ms : machine) (tr : transition) : res bool :=
  if negb (is_valid_transition machine_table (NM (m_st ms)) (tr_new tr)) then Ok false
  else match m_st ms, tr_new tr with
       | MOutage, NM MIdle => Ok true
       | MWorking, NM MOutage => Ok true
       | _, _ =>
           match tr_job tr with
           | None => Ok true
           | Some j =>
               jb <- get_job x j ;;
               k <- of_opt EInvalidValue (first_not_done jb) ;;
               o <- of_opt EInvalidValue (nth_error (j_ops jb) k) ;;
               Ok (Nat.eqb (o_mach o) m)
           end
       end.

Definition is_transition_valid (x : state) (tr : transition) : res bool :=
  match tr_comp tr with
  | CM m => match nth_error (s_machs x) m with
            | Some ms => is_machine_transition_valid x m ms tr
            | None => Err EInvalidValue end
  | CT t => match nth_error (s_trans x) t with
            | Some ts => Ok (is_valid_transition transport_table (NT (t_st ts)) (tr_new tr))
            | None => Err EInvalidValue end
  | CB n => match nth_error (s_bufs x) n with
            | Some _ => Err ENotImpl
            | None => Err EInvalidValue end
  end.

(* ---------- possible_transition_utils ---------- *)
Definition is_job_next_operation_free (jb : job) : bool :=
  negb (existsb (is_ostate OProc) (j_ops jb)) && existsb (is_ostate OIdle) (j_ops jb).

(* is_job_at_machine: job.location == machine id (never, locations are buffers)
   or the machine's prebuffer id == job.location *)
Definition is_job_at_machine (jb : job) (m : nat) : bool := bid_eqb (j_loc jb) (BPre m).

Definition is_action_possible (x : state) (jb : job) : res bool :=
  if negb (is_job_next_operation_free jb) then Ok false
  else
    _ <- of_opt EPyIndex (hd_error (i_trans i)) ;;
    k <- of_opt EInvalidValue (first_not_done jb) ;;
    o <- of_opt EInvalidValue (nth_error (j_ops jb) k) ;;
    ms <- get_mach x (o_mach o) ;;
    if negb (is_job_at_machine jb (o_mach o)) then Ok false
    else Ok (mstate_eqb (m_st ms) MIdle).

Definition is_transportable (x : state) (jb : job) : res bool :=
  if job_is_done i jb then Ok false
  else if all_operations_done jb then Ok true
  else
    k <- of_opt EInvalidValue (first_idle jb) ;;
    o <- of_opt EInvalidValue (nth_error (j_ops jb) k) ;;
    _ <- get_mach x (o_mach o) ;;
    Ok (negb (is_job_at_machine jb (o_mach o))).

Fixpoint indexed {A} (n : nat) (l : list A) : list (nat * A) :=
  match l with [] => [] | a :: r => (n, a) :: indexed (S n) r end.

Definition get_possible_transport_transition (x : state) : res (list transition) :=
  (* get_possible_transports: idle AGVs, config must exist (InvalidKey) *)
  poss <- filterM (fun '(t, ts) =>
            _ <- of_opt EInvalidKey (nth_error (i_trans i) t) ;;
            Ok (tstate_eqb (t_st ts) TIdle)) (indexed O (s_trans x)) ;;
  let ij := indexed O (s_jobs x) in
  let running := filter (fun '(_, jb) => is_job_running jb) ij in
  let idle := filter (fun '(_, jb) => negb (is_job_running jb)) ij in
  transp <- filterM (fun '(_, jb) => is_transportable x jb) idle ;;
  let cand := running ++ transp in
  let assigned := flat_map (fun ts => match t_job ts with Some j => [j] | None => [] end) (s_trans x) in
  let lonely := filter (fun '(j, _) => negb (mem_nat j assigned)) cand in
  lonely' <- (if i_early i then Ok lonely
              else filterM (fun '(j, jb) => is_ready i x j jb) lonely) ;;
  Ok (flat_map (fun '(t, _) => map (fun '(j, _) => mkTr (CT t) (NT TWorking) (Some j)) lonely') poss).

Definition get_possible_transitions (x : state) : res (list transition) :=
  pj <- filterM (fun '(_, jb) => is_action_possible x jb) (indexed O (s_jobs x)) ;;
  pt <- get_possible_transport_transition x ;;
  mt <- mapM (fun '(j, jb) =>
          k <- of_opt EPyType (first_idle jb) ;;
          o <- of_opt EPyType (nth_error (j_ops jb) k) ;;
          Ok (mkTr (CM (o_mach o)) (NM MSetup) (Some j))) pj ;;
  Ok (mt ++ pt).

Definition get_num_possible_events (x : state) : res nat :=
  pt <- get_possible_transport_transition x ;;
  pj <- filterM (fun '(_, jb) => is_action_possible x jb) (indexed O (s_jobs x)) ;;
  Ok (length pt + length pj)%nat.

(* ---------- time machines ---------- *)
Inductive tmachine := TMJumpToEvent | TMForceJump | TMJumpByOne.

(* candidates of force_jump_to_event: end times of PROCESSING operations and occupied_till of
   non-idle transports that are not waiting on a TimeDependency *)
Definition pending_times (x : state) : res (list Z) :=
  ops <- mapM (fun o => time_z (o_end o))
           (filter (is_ostate OProc) (flat_map j_ops (s_jobs x))) ;;
  trs <- mapM (fun ts => match t_occ ts with OAt z => Ok z | _ => Err EPyType end)
           (filter (fun ts => match t_occ ts with ODep _ _ _ => false | _ => true end)
              (filter (fun ts => negb (tstate_eqb (t_st ts) TIdle)) (s_trans x))) ;;
  Ok (ops ++ trs).

Definition zmin_list (l : list Z) (d : Z) : Z :=
  match l with [] => d | h :: t => fold_left Z.min t h end.

Definition force_jump_to_event (x : state) : res Z :=
  p <- pending_times x ;;
  match p with
  | [] => Ok (s_now x + 1)
  | _ => Ok (zmin_list p 0)
  end.

Definition jump_to_event (x : state) : res Z :=
  n <- get_num_possible_events x ;;
  if Nat.ltb 0 n then Ok (s_now x) else force_jump_to_event x.

Definition run_time_machine (tm : tmachine) (x : state) : res Z :=
  match tm with
  | TMJumpToEvent => jump_to_event x
  | TMForceJump => force_jump_to_event x
  | TMJumpByOne => Ok (s_now x + 1)
  end.

(* ---------- state.step ---------- *)

(* micro-event log: the transition applied and the state after it *)
Definition mlog := list (transition * state).

(* process_state_transitions: sequential; a rejected transition is skipped and counted,
   later ones are still applied *)
Fixpoint process_transitions (trs : list transition) (x : state) (nerr : nat) (lg : mlog)
  : res (state * nat * mlog) :=
  match trs with
  | [] => Ok (x, nerr, lg)
  | tr :: r =>
      v <- is_transition_valid x tr ;;
      if v : bool then
        x' <- apply_transition sigma i x tr ;;
        process_transitions r x' nerr (lg ++ [(tr, x')])
      else process_transitions r x (S nerr) lg
  end.

(* core_utils.sorted_by_transport: stable, transitions whose new_state is a transport state first *)
Definition is_transport_new (tr : transition) : bool := match tr_new tr with NT _ => true | NM _ => false end.
Definition sorted_by_transport (trs : list transition) : list transition :=
  filter is_transport_new trs ++ filter (fun tr => negb (is_transport_new tr)) trs.

(* _get_travel_time_for_transport *)
Definition travel_time_for_transport (x : state) (j : option nat) : res Z :=
  jn <- of_opt EInvalidValue j ;;
  jb <- get_job x jn ;;
  _ <- of_opt EInvalidValue (get_bcfg i (j_loc jb)) ;;
  let cur := place_of_bid (j_loc jb) in
  nxt <- dest_idle i jb ;;
  if place_eqb cur nxt then Ok 0
  else c <- of_opt ENotImpl (travel_lookup (i_travel i) cur nxt) ;; tc_read (s_sto x) c.

Fixpoint teleport_pick (fuel : nat) (l : list transition) : list transition :=
  match fuel with
  | O => []
  | S f =>
      match l with
      | [] => []
      | h :: _ =>
          h :: teleport_pick f
                 (filter (fun y => negb (opt_nat_eqb (tr_job y) (tr_job h))
                                   && negb (comp_eqb (tr_comp y) (tr_comp h))) l)
      end
  end.

(* _filter_teleport_transitions: the travel time is evaluated for every offer (both members
   of the all([...]) list are computed), kept if transport component and zero time *)
Definition filter_teleport (x : state) (offers : list transition) : res (list transition) :=
  tl <- filterM (fun tr =>
          trv <- travel_time_for_transport x (tr_job tr) ;;
          Ok (match tr_comp tr with CT _ => true | _ => false end && (trv =? 0))) offers ;;
  Ok (teleport_pick (length tl) tl).

Inductive outcome :=
| SOk (x : state) (offers : list transition) (lg : mlog)
| SFail (x : state) (lg : mlog)        (* success=False: old state (stochastic store keeps its draws) *)
| SRaise (e : err)
| SOutOfFuel.

Definition max_done_end (x : state) : res (option Z) :=
  ends <- mapM (fun o => time_z (o_end o)) (filter (is_ostate ODone) (flat_map j_ops (s_jobs x))) ;;
  Ok (match ends with [] => None | h :: t => Some (fold_left Z.max t h) end).

Fixpoint timed_loop (fuel : nat) (x0 x : state) (timed : list transition) (lg : mlog) : outcome :=
  match timed with
  | [] =>
      if all_in_output i x then
        match max_done_end x with
        | Ok (Some z) => SOk (set_now x z) [] lg
        | Ok None => SOk x [] lg
        | Err e => SRaise e
        end
      else match get_possible_transitions x with
           | Ok offers => SOk x offers lg
           | Err e => SRaise e
           end
  | _ =>
      match fuel with
      | O => SOutOfFuel
      | S f =>
          match process_transitions timed x O lg with
          | Err e => SRaise e
          | Ok (x1, nerr, lg1) =>
              if Nat.ltb 0 nerr then SFail (set_sto x0 (s_sto x1)) lg1
              else match jump_to_event x1 with
                   | Err e => SRaise e
                   | Ok t =>
                       let x2 := set_now x1 t in
                       match create_timed_transitions i x2 with
                       | Err e => SRaise e
                       | Ok timed' => timed_loop f x0 x2 timed' lg1
                       end
                   end
          end
      end
  end.

Definition step (fuel : nat) (x0 : state) (trs : list transition) (tm : tmachine) : outcome :=
  match (match trs with
         | [] => Ok (x0, O, [])
         | _ => process_transitions (sorted_by_transport trs) x0 O []
         end) with
  | Err e => SRaise e
  | Ok (x1, nerr, lg1) =>
      if Nat.ltb 0 nerr then SFail (set_sto x0 (s_sto x1)) lg1
      else match run_time_machine tm x1 with
           | Err e => SRaise e
           | Ok t =>
               let x2 := set_now x1 t in
               match create_timed_transitions i x2 with
               | Err e => SRaise e
               | Ok timed =>
                   match get_possible_transitions x2 with
                   | Err e => SRaise e
                   | Ok poss =>
                       match filter_teleport x2 poss with
                       | Err e => SRaise e
                       | Ok tele => timed_loop fuel x0 x2 (timed ++ tele) lg1
                       end
                   end
               end
           end
  end.

End Step.
