(* manipulate.py + handler.py: every handle_* and create_timed_* function. No proofs. *)
From Coq Require Import List ZArith Bool Arith.
From JSL Require Import Base.Res Base.ListX SM.Types SM.Util.
Import ListNotations.
Open Scope Z_scope.

Section Handlers.
Variable sigma : oracle.
Variable i : inst.

Definition with_sto (x : state) (sto : list (Z * nat)) := set_sto x sto.

(* ---------- machine handlers ---------- *)

(* handle_machine_idle_to_setup_transition + manipulate.begin_machine_setup *)
Definition h_m_idle_setup (x : state) (tr : transition) (m : nat) (ms : machine) : res state :=
  j <- of_opt EInvalidValue (tr_job tr) ;;
  jb <- get_job x j ;;
  _ <- guard (mem_nat j (b_store (m_pre ms))) EInvalidValue ;;
  k <- of_opt EInvalidValue (first_not_done jb) ;;
  oc <- get_opcfg i j k ;;
  mc <- of_opt EInvalidValue (nth_error (i_machs i) m) ;;
  sc <- of_opt EInvalidValue (setup_lookup (mc_setup mc) (m_tool ms) (oc_tool oc)) ;;
  '(sd, sto') <- tc_read_update sigma (s_sto x) sc ;;
  let now := s_now x in
  let o' := mkOp m (Time now) (Time (now + sd)) OProc in
  let jb1 := set_op jb k o' in
  x1 <- move_job i (put_job x j jb1) j (BPre m) (BIn m) ;;
  Ok (with_sto (set_mach_ctl x1 m MSetup (Time (now + sd)) (oc_tool oc) (m_out ms)) sto').

(* handle_machine_setup_to_working_transition + begin_next_job_on_machine *)
Definition h_m_setup_working (x : state) (tr : transition) (m : nat) (ms : machine) : res state :=
  j <- of_opt EInvalidValue (tr_job tr) ;;
  jb <- get_job x j ;;
  _ <- guard (mem_nat j (b_store (m_in ms))) EInvalidValue ;;
  k <- of_opt EInvalidValue (first_not_done jb) ;;
  oc <- get_opcfg i j k ;;
  '(d, sto') <- tc_update_read sigma (s_sto x) (oc_dur oc) ;;
  let now := s_now x in
  let o' := mkOp m (Time now) (Time (now + d)) OProc in
  let jb1 := set_op jb k o' in
  Ok (with_sto (set_mach_ctl (put_job x j jb1) m MWorking (Time (now + d)) (m_tool ms) (m_out ms)) sto').

(* handle_machine_working_to_outage_transition + begin_machine_outage *)
Definition h_m_working_outage (x : state) (tr : transition) (m : nat) (ms : machine) : res state :=
  mc <- of_opt EInvalidValue (nth_error (i_machs i) m) ;;
  '(outs, sto') <- new_outage_states sigma (s_now x) (s_sto x) (mc_out mc) (m_out ms) ;;
  occ_for <- occupied_time outs ;;
  j <- of_opt EInvalidValue (tr_job tr) ;;
  jb <- get_job x j ;;
  let now := s_now x in
  k <- of_opt EPyType (first_proc jb) ;;
  o <- of_opt EPyType (nth_error (j_ops jb) k) ;;
  let jb1 := set_op jb k (set_op_end o (Time (now + occ_for))) in
  Ok (with_sto (set_mach_ctl (put_job x j jb1) m MOutage (Time (now + occ_for)) (m_tool ms) outs) sto').

(* handle_machine_outage_to_idle_transition + complete_active_operation_on_machine *)
Definition h_m_outage_idle (x : state) (tr : transition) (m : nat) (ms : machine) : res state :=
  j <- of_opt EInvalidValue (hd_error (b_store (m_in ms))) ;;
  jb <- get_job x j ;;
  k <- of_opt EInvalidValue (first_proc jb) ;;
  o <- of_opt EInvalidValue (nth_error (j_ops jb) k) ;;
  let o' := mkOp (o_mach o) (o_start o) (Time (s_now x)) ODone in
  let jb1 := set_op jb k o' in
  _ <- of_opt EInvalidValue (nth_error (i_machs i) m) ;;
  x1 <- move_job i (put_job x j jb1) j (BIn m) (BPost m) ;;
  Ok (set_mach_ctl x1 m MIdle (m_occ ms) (m_tool ms) (map release_outage (m_out ms))).

(* handle_machine_transition: first matching condition in dictionary order *)
Definition handle_machine_transition (x : state) (tr : transition) (m : nat) : res state :=
  ms <- get_mach x m ;;
  match m_st ms, tr_new tr with
  | MIdle, NM MSetup => h_m_idle_setup x tr m ms
  | MSetup, NM MWorking => h_m_setup_working x tr m ms
  | MWorking, NM MOutage => h_m_working_outage x tr m ms
  | MOutage, NM MIdle => h_m_outage_idle x tr m ms
  | _, _ => Err ENotImpl
  end.

(* ---------- transport handlers ---------- *)

Definition occ_of_time (t : time) : occ := match t with NoTime => ONo | Time z => OAt z end.

(* the job's destination: first OUTPUT buffer if no operation is idle,
   else the machine of (which : first idle | first not-done) operation *)
Definition dest_idle (jb : job) : res place :=
  if no_operation_idle jb then n <- of_opt EPyStopIter (first_output i) ;; Ok (PB n)
  else k <- of_opt EInvalidValue (first_idle jb) ;;
       o <- of_opt EInvalidValue (nth_error (j_ops jb) k) ;; Ok (PM (o_mach o)).
Definition dest_not_done (jb : job) : res place :=
  if no_operation_idle jb then n <- of_opt EPyStopIter (first_output i) ;; Ok (PB n)
  else k <- of_opt EInvalidValue (first_not_done jb) ;;
       o <- of_opt EInvalidValue (nth_error (j_ops jb) k) ;; Ok (PM (o_mach o)).

Definition first_transport_with_job (x : state) (j : nat) : option transport :=
  find (fun t => opt_nat_eqb (t_job t) (Some j)) (s_trans x).

(* _get_waiting_time *)
Definition get_waiting_time (x : state) (tr : transition) : res occ :=
  j <- of_opt EInvalidValue (tr_job tr) ;;
  jb <- get_job x j ;;
  c <- of_opt EInvalidValue (get_bcfg i (j_loc jb)) ;;
  match j_loc jb with
  | BStd _ => Ok (OAt (s_now x))
  | BAgv _ => Err ENotImpl
  | BPre m | BIn m | BPost m =>
      ms <- get_mach x m ;;
      if mem_nat j (b_store (m_post ms)) then
        rdy <- is_ready i x j jb ;;
        if rdy : bool then Ok (OAt (s_now x))
        else
          nxt <- of_opt EInvalidValue (get_next_job_from_buffer (m_post ms) (bc_type c)) ;;
          let ts := first_transport_with_job x nxt in
          njb <- get_job x nxt ;;
          if job_is_done i njb then Ok (OAt (s_now x))
          else match ts with
               | None => Ok (ODep (j_loc jb) nxt tr)
               | Some t => Ok (t_occ t)
               end
      else
        k <- of_opt EMissingProc (first_proc jb) ;;
        o <- of_opt EMissingProc (nth_error (j_ops jb) k) ;;
        Ok (occ_of_time (o_end o))
  end.


(* handle_agv_transport_pickup_to_waitingpickup_transition *)
Definition h_t_pickup_waiting (x : state) (tr : transition) (t : nat) (ts : transport) : res state :=
  _ <- of_opt EMissingJobId (tr_job tr) ;;
  oc <- get_waiting_time x tr ;;
  Ok (set_trans_ctl x t TWaiting oc (t_loc ts) (t_job ts) (t_out ts)).

(* handle_agv_waiting_pickup_to_waiting_pickup_transition *)
Definition h_t_waiting_waiting (x : state) (tr : transition) (t : nat) (ts : transport) : res state :=
  oc <- get_waiting_time x tr ;;
  Ok (set_trans_ctl x t TWaiting oc (t_loc ts) (t_job ts) (t_out ts)).

(* time_utils._get_travel_time_from_spec: update-then-read *)
Definition travel_from_spec (sto : list (Z * nat)) (a b : place) : res (Z * list (Z * nat)) :=
  match a, b with
  | PM _, _ | _, PM _ =>
      c <- of_opt ETravelTime (travel_lookup (i_travel i) a b) ;;
      tc_update_read sigma sto c
  | _, _ => Err ENotImpl
  end.

(* handle_agv_transport_pickup_to_transit_transition *)
Definition h_t_to_transit (x : state) (tr : transition) (t : nat) (ts : transport) : res state :=
  j <- of_opt EMissingJobId (tr_job tr) ;;
  jb <- get_job x j ;;
  (* an ordered buffer only releases the job its discipline allows: otherwise keep waiting *)
  sb <- of_opt EInvalidValue (get_buf x (j_loc jb)) ;;
  sc <- of_opt EInvalidValue (get_bcfg i (j_loc jb)) ;;
  blocked <- match index_of j (b_store sb) with
             | Some p => cp <- is_correct_position (Some p) (length (b_store sb)) (bc_type sc) ;; Ok (negb cp)
             | None => Ok false
             end ;;
  if blocked : bool then h_t_waiting_waiting x tr t ts else
  let src := place_of_bid (j_loc jb) in
  dst <- dest_not_done jb ;;
  '(trv, sto') <- travel_from_spec (s_sto x) src dst ;;
  _ <- match j_loc jb with BAgv _ => Err EInvalidValue | _ => Ok tt end ;;
  x1 <- move_job i x j (j_loc jb) (BAgv t) ;;
  Ok (with_sto (set_trans_ctl x1 t TTransit (OAt (s_now x + trv)) (t_loc ts) (t_job ts) (t_out ts)) sto').

(* handle_agv_transport_idle_to_working_transition *)
Definition h_t_idle_working (x : state) (tr : transition) (t : nat) (ts : transport) : res state :=
  j <- of_opt EInvalidValue (tr_job tr) ;;
  p <- match t_loc ts with LAt p => Ok p | LRoute _ _ _ => Err EInvalidValue end ;;
  jb <- get_job x j ;;
  target <- dest_idle jb ;;
  _ <- of_opt EInvalidValue (get_bcfg i (j_loc jb)) ;;
  src <- match j_loc jb with BAgv _ => Err ETransportCfg | b => Ok (place_of_bid b) end ;;
  c <- of_opt ETransportCfg (travel_lookup (i_travel i) p src) ;;
  ttp <- tc_read (s_sto x) c ;;
  Ok (set_trans_ctl x t TPickup (OAt (s_now x + ttp)) (LRoute p (j_loc jb) target) (Some j) (t_out ts)).

(* handle_agv_transport_transit_to_outage_transition + complete_transport_task *)
Definition h_t_transit_outage (x : state) (tr : transition) (t : nat) (ts : transport) : res state :=
  j <- of_opt EMissingJobId (tr_job tr) ;;
  jb <- get_job x j ;;
  dst <- match t_loc ts with LRoute _ _ d => Ok d | LAt _ => Err EInvalidValue end ;;
  ac <- of_opt EInvalidValue (nth_error (i_trans i) t) ;;
  B <- match dst with
       | PM m => _ <- get_mach x m ;; Ok (BPre m)
       | PB n => _ <- of_opt EInvalidValue (nth_error (s_bufs x) n) ;; Ok (BStd n)
       | PT _ => Err EInvalidValue
       end ;;
  x1 <- move_job i x j (BAgv t) B ;;
  '(outs, sto') <- new_outage_states sigma (s_now x) (s_sto x) (ac_out ac) (t_out ts) ;;
  occ_for <- occupied_time outs ;;
  Ok (with_sto (set_trans_ctl x1 t TOutage (OAt (s_now x + occ_for)) (LAt dst) None outs) sto').

(* handle_agv_transport_outage_to_idle_transition *)
Definition h_t_outage_idle (x : state) (tr : transition) (t : nat) (ts : transport) : res state :=
  Ok (set_trans_ctl x t TIdle (t_occ ts) (t_loc ts) (t_job ts) (map release_outage (t_out ts))).

(* handle_transport_transition: first matching condition in dictionary order *)
Definition handle_transport_transition (x : state) (tr : transition) (t : nat) : res state :=
  ts <- get_trans x t ;;
  _ <- of_opt EInvalidValue (nth_error (i_trans i) t) ;;
  match t_st ts, tr_new tr with
  | TIdle, NT TWorking => h_t_idle_working x tr t ts
  | TPickup, NT TWaiting => h_t_pickup_waiting x tr t ts
  | TWaiting, NT TTransit => h_t_to_transit x tr t ts
  | TPickup, NT TTransit => h_t_to_transit x tr t ts
  | TWorking, NT TOutage => h_t_transit_outage x tr t ts
  | TTransit, NT TOutage => h_t_transit_outage x tr t ts
  | TOutage, NT TIdle => h_t_outage_idle x tr t ts
  | TWaiting, NT TWaiting => h_t_waiting_waiting x tr t ts
  | _, _ => Err ENotImpl
  end.

(* state.apply_transition *)
Definition apply_transition (x : state) (tr : transition) : res state :=
  match tr_comp tr with
  | CM m => match nth_error (s_machs x) m with
            | Some _ => handle_machine_transition x tr m
            | None => Err EInvalidValue end
  | CT t => match nth_error (s_trans x) t with
            | Some _ => handle_transport_transition x tr t
            | None => Err EInvalidValue end
  | CB n => match nth_error (s_bufs x) n with
            | Some _ => Err ENotImpl
            | None => Err EInvalidValue end
  end.

(* ---------- timed transitions ---------- *)

(* create_machine_setup_transition *)
Definition create_machine_setup_transition (m : nat) (ms : machine) : res (option transition) :=
  match b_store (m_pre ms) with
  | [] => Ok None
  | _ =>
      c <- of_opt EInvalidValue (get_bcfg i (BPre m)) ;;
      match get_next_job_from_buffer (m_pre ms) (bc_type c) with
      | Some j => Ok (Some (mkTr (CM m) (NM MSetup) (Some j)))
      | None => Ok None
      end
  end.

Definition timed_machine (now : Z) (m : nat) (ms : machine) : res (option transition) :=
  due <- match m_occ ms with
         | Time z =>
             if z <=? now then
               match m_st ms with
               | MSetup => j <- of_opt EPyIndex (hd_error (b_store (m_in ms))) ;;
                           Ok (Some (mkTr (CM m) (NM MWorking) (Some j)))
               | MWorking => j <- of_opt EPyIndex (hd_error (b_store (m_in ms))) ;;
                             Ok (Some (mkTr (CM m) (NM MOutage) (Some j)))
               | MOutage => j <- of_opt EPyIndex (hd_error (b_store (m_in ms))) ;;
                            Ok (Some (mkTr (CM m) (NM MIdle) (Some j)))
               | MIdle => Ok None
               end
             else Ok None
         | NoTime => Ok None
         end ;;
  match due with
  | Some tr => Ok (Some tr)
  | None => match m_st ms with
            | MIdle => create_machine_setup_transition m ms
            | _ => Ok None
            end
  end.

Fixpoint timed_machines_from (now : Z) (m : nat) (l : list machine) : res (list transition) :=
  match l with
  | [] => Ok []
  | ms :: r =>
      o <- timed_machine now m ms ;;
      rest <- timed_machines_from now (S m) r ;;
      Ok (match o with Some tr => tr :: rest | None => rest end)
  end.

Definition create_timed_machine_transitions (x : state) : res (list transition) :=
  timed_machines_from (s_now x) O (s_machs x).

(* _time_dependency_is_resolved *)
Definition time_dependency_is_resolved (x : state) (ts : transport) (b : bid) (blocking : nat) : res bool :=
  match b with
  | BPost m =>
      ms <- get_mach x m ;;
      mc <- of_opt EInvalidValue (nth_error (i_machs i) m) ;;
      if opt_nat_eqb (t_job ts) (get_next_job_from_buffer (m_post ms) (bc_type (mc_post mc)))
      then Ok true
      else Ok (existsb (fun t' => opt_nat_eqb (t_job t') (Some blocking)) (s_trans x))
  | _ => Err EInvalidValue
  end.

(* create_avg_idle_to_pick_transition *)
Definition create_idle_to_pick (x : state) (t : nat) (ts : transport) : res (option transition) :=
  j <- of_opt ETransportJob (t_job ts) ;;
  jb <- get_job x j ;;
  rdy <- is_ready i x j jb ;;
  match t_st ts with
  | TWaiting => if rdy : bool then Ok (Some (mkTr (CT t) (NT TTransit) (Some j)))
                else Ok (Some (mkTr (CT t) (NT TWaiting) (Some j)))
  | TPickup => Ok (Some (mkTr (CT t) (NT TWaiting) (Some j)))
  | _ => Ok None
  end.

(* create_avg_pickup_to_drop_transition *)
Definition create_pickup_to_drop (x : state) (t : nat) (ts : transport) : res (option transition) :=
  match b_store (t_buf ts) with
  | [j] => _ <- get_job x j ;; Ok (Some (mkTr (CT t) (NT TOutage) (Some j)))
  | _ => Err ENotImpl
  end.

Definition timed_transport (x : state) (t : nat) (ts : transport) : res (list transition) :=
  match t_occ ts with
  | ODep b blocking dtr =>
      r <- time_dependency_is_resolved x ts b blocking ;;
      Ok (if r : bool then [dtr] else [])
  | OAt z =>
      if z <=? s_now x then
        o <- match t_st ts with
             | TPickup | TWaiting => create_idle_to_pick x t ts
             | TTransit => create_pickup_to_drop x t ts
             | TOutage => Ok (Some (mkTr (CT t) (NT TIdle) None))
             | TWorking => Err ENotImpl
             | TIdle => Ok None
             end ;;
        Ok (match o with Some tr => [tr] | None => [] end)
      else Ok []
  | ONo => Ok []
  end.

Fixpoint timed_transports_from (x : state) (t : nat) (l : list transport) : res (list transition) :=
  match l with
  | [] => Ok []
  | ts :: r =>
      a <- timed_transport x t ts ;;
      rest <- timed_transports_from x (S t) r ;;
      Ok (a ++ rest)
  end.

Definition create_timed_transport_transitions (x : state) : res (list transition) :=
  timed_transports_from x O (s_trans x).

Definition create_timed_transitions (x : state) : res (list transition) :=
  a <- create_timed_machine_transitions x ;;
  b <- create_timed_transport_transitions x ;;
  Ok (a ++ b).

End Handlers.
