(* A concrete compiled instance (2 jobs x 2 machines, 1 AGV, tools with asymmetric setup matrix,
   symmetric travel matrix, an AGV outage, start time 1000) and its compiled initial state, produced by
   harness/tocoq.py from the implementation's Compiler output. Used for non-vacuity Examples. *)
From Coq Require Import List ZArith Bool Arith.
From JSL Require Import Base.Res Base.ListX SM.Types SM.Util SM.Handler SM.Step SM.Middleware SM.Inv.
Import ListNotations.

Definition ex_inst : inst := (mkInst [[(mkOpCfg 1%nat (Det (8)%Z) 1%nat); (mkOpCfg 0%nat (Det (1)%Z) 1%nat)]; [(mkOpCfg 1%nat (Det (2)%Z) 1%nat); (mkOpCfg 0%nat (Det (1)%Z) 1%nat)]] [(mkMCfg (mkBCfg Flex (4)%Z RComponent) (mkBCfg Flex (1)%Z RComponent) (mkBCfg Dummy (2)%Z RComponent) [((0%nat, 0%nat), (Det (0)%Z)); ((0%nat, 1%nat), (Det (3)%Z)); ((1%nat, 0%nat), (Det (1)%Z)); ((1%nat, 1%nat), (Det (0)%Z))] []); (mkMCfg (mkBCfg Flex (3)%Z RComponent) (mkBCfg Flex (1)%Z RComponent) (mkBCfg Flex (1000000000)%Z RComponent) [((0%nat, 0%nat), (Det (0)%Z)); ((0%nat, 1%nat), (Det (1)%Z)); ((1%nat, 0%nat), (Det (2)%Z)); ((1%nat, 1%nat), (Det (0)%Z))] [])] [(mkACfg (mkBCfg Flex (1)%Z RComponent) [(mkOCfg (Det (4)%Z) (Det (5)%Z))])] [(mkBCfg Flex (1000000000)%Z RInput); (mkBCfg Flex (1000000000)%Z ROutput)] [(((PM 0%nat), (PM 0%nat)), (Det (0)%Z)); (((PM 0%nat), (PM 1%nat)), (Det (4)%Z)); (((PM 0%nat), (PB 0%nat)), (Det (4)%Z)); (((PM 0%nat), (PB 1%nat)), (Det (2)%Z)); (((PM 1%nat), (PM 0%nat)), (Det (4)%Z)); (((PM 1%nat), (PM 1%nat)), (Det (0)%Z)); (((PM 1%nat), (PB 0%nat)), (Det (2)%Z)); (((PM 1%nat), (PB 1%nat)), (Det (6)%Z)); (((PB 0%nat), (PM 0%nat)), (Det (4)%Z)); (((PB 0%nat), (PM 1%nat)), (Det (2)%Z)); (((PB 0%nat), (PB 0%nat)), (Det (0)%Z)); (((PB 0%nat), (PB 1%nat)), (Det (1)%Z)); (((PB 1%nat), (PM 0%nat)), (Det (2)%Z)); (((PB 1%nat), (PM 1%nat)), (Det (6)%Z)); (((PB 1%nat), (PB 0%nat)), (Det (1)%Z)); (((PB 1%nat), (PB 1%nat)), (Det (0)%Z))] true).
Definition ex_state : state := (mkState [(mkJob [(mkOp 1%nat NoTime NoTime OIdle); (mkOp 0%nat NoTime NoTime OIdle)] (BStd 0%nat)); (mkJob [(mkOp 1%nat NoTime NoTime OIdle); (mkOp 0%nat NoTime NoTime OIdle)] (BStd 0%nat))] (1000)%Z [(mkMachine MIdle NoTime (mkBuf [] FEmpty) (mkBuf [] FEmpty) (mkBuf [] FEmpty) 0%nat []); (mkMachine MIdle NoTime (mkBuf [] FEmpty) (mkBuf [] FEmpty) (mkBuf [] FEmpty) 0%nat [])] [(mkTransport TIdle ONo (mkBuf [] FEmpty) (LAt (PM 0%nat)) None [(OInactive NoTime)])] [(mkBuf [0%nat; 1%nat] FNotEmpty); (mkBuf [] FEmpty)] []).

Definition ex_sigma : oracle := fun _ _ => 0%Z.

(* the result of reset, and of accepting the first three offers *)
Definition ex_reset : mwout := mw_reset ex_sigma ex_inst 100 ex_state 3%Z true (mkMw 3%Z 0 0 true).
Definition ex_after (acts : list Z) : option (result * mw) :=
  match ex_reset with
  | MOk r m _ =>
      fold_left (fun acc a => match acc with
                              | Some (r, m) => match mw_step ex_sigma ex_inst 100 r m a with
                                               | MOk r' m' _ => Some (r', m') | _ => None end
                              | None => None end) acts (Some (r, m))
  | _ => None
  end.
