(* Boolean invariant clauses. These very definitions are (a) the statements of the safety
   theorems in SMP/ and Props/, (b) extracted and evaluated on every implementation
   micro-state by the monitors. No proofs here. *)
From Coq Require Import List ZArith Bool Arith.
From JSL Require Import Base.Res Base.ListX SM.Types SM.Util SM.Handler SM.Step.
Import ListNotations.
Open Scope Z_scope.

Definition is_nil {A} (l : list A) : bool := match l with [] => true | _ => false end.

Definition time_leb (a b : time) : bool :=
  match a, b with Time x, Time y => x <=? y | _, _ => false end.

(* ---------- stores ---------- *)
Definition mach_stores (m : machine) : list (list nat) := [b_store (m_pre m); b_store (m_in m); b_store (m_post m)].
Definition all_stores (x : state) : list (list nat) :=
  map b_store (s_bufs x) ++ flat_map mach_stores (s_machs x) ++ map (fun t => b_store (t_buf t)) (s_trans x).
Definition total_count (x : state) (j : nat) : nat := sum_nat (map (count_nat j) (all_stores x)).

(* I1a: every job is stored exactly once; every stored number is a job *)
Definition placement_b (x : state) : bool :=
  forallb (fun j => Nat.eqb (total_count x j) 1) (seq0 (length (s_jobs x)))
  && forallb (forallb (fun j => Nat.ltb j (length (s_jobs x)))) (all_stores x).

(* I1b: the job's location names a buffer whose store contains it *)
Definition loc_b (x : state) : bool :=
  forallb (fun '(j, jb) => match get_buf x (j_loc jb) with
                           | Some b => mem_nat j (b_store b)
                           | None => false end) (indexed O (s_jobs x)).

(* I2a: a busy machine holds exactly one job, an idle one none *)
Definition mach_hold_b (x : state) : bool :=
  forallb (fun m => match m_st m with
                    | MIdle => is_nil (b_store (m_in m))
                    | _ => Nat.eqb (length (b_store (m_in m))) 1 end) (s_machs x).

(* I3a: an idle AGV holds and claims nothing; any AGV holds at most one job, and only its claim *)
Definition agv_hold_b (x : state) : bool :=
  forallb (fun t => match t_st t with
                    | TIdle => is_nil (b_store (t_buf t)) && opt_nat_eqb (t_job t) None
                    | _ => match b_store (t_buf t) with
                           | [] => true
                           | [j] => opt_nat_eqb (t_job t) (Some j)
                           | _ => false end
                    end) (s_trans x).

Fixpoint nodup_nat (l : list nat) : bool :=
  match l with [] => true | h :: t => negb (mem_nat h t) && nodup_nat t end.

Definition claims (x : state) : list nat :=
  flat_map (fun t => match t_job t with Some j => [j] | None => [] end) (s_trans x).

(* I3a': what an AGV carries: exactly one job in TRANSIT, nothing in any other phase *)
Definition agv_load_b (x : state) : bool :=
  forallb (fun t => match t_st t with
                    | TTransit => Nat.eqb (length (b_store (t_buf t))) 1
                    | _ => is_nil (b_store (t_buf t)) end) (s_trans x).

(* I3b: a job is claimed by at most one AGV *)
Definition claims_b (x : state) : bool := nodup_nat (claims x).

(* C01 side condition: a transition into TRANSIT never takes a job one of whose operations is in process
   (read in the post-state: transport handlers do not touch operation records) *)
Definition transit_side_b (tr : transition) (y : state) : bool :=
  match tr_new tr, tr_job tr with
  | NT TTransit, Some j => match nth_error (s_jobs y) j with
                           | Some jb => negb (is_job_running jb)
                           | None => true end
  | _, _ => true
  end.

(* C04 side condition: the job an AGV takes is the job it claimed at dispatch (read in the post-state:
   the transition into TRANSIT keeps the claim) *)
Definition transit_claim_b (tr : transition) (y : state) : bool :=
  match tr_comp tr, tr_new tr with
  | CT t, NT TTransit => match nth_error (s_trans y) t with
                         | Some ts => opt_nat_eqb (t_job ts) (tr_job tr)
                         | None => true end
  | _, _ => true
  end.

Section WithInst.
Variable i : inst.

(* ---------- capacity and flags (I5) ---------- *)
Definition buf_cap_ok (b : buf) (c : bcfg) : bool := lenZ (b_store b) <=? bc_cap c.
Definition buf_flag_ok (b : buf) (c : bcfg) : bool :=
  match b_flag b with
  | FEmpty => is_nil (b_store b)
  | FFull => lenZ (b_store b) =? bc_cap c
  | FNotEmpty => negb (is_nil (b_store b))
  end.

Fixpoint forallb2 {A B} (f : A -> B -> bool) (l : list A) (l' : list B) : bool :=
  match l, l' with
  | [], [] => true
  | a :: r, b :: r' => f a b && forallb2 f r r'
  | _, _ => false
  end.

Definition on_all_bufs (f : buf -> bcfg -> bool) (x : state) : bool :=
  forallb2 f (s_bufs x) (i_bufs i)
  && forallb2 (fun m c => f (m_pre m) (mc_pre c) && f (m_in m) (mc_in c) && f (m_post m) (mc_post c))
       (s_machs x) (i_machs i)
  && forallb2 (fun t c => f (t_buf t) (ac_buf c)) (s_trans x) (i_trans i).

Definition capacity_b (x : state) : bool := on_all_bufs buf_cap_ok x.
Definition flags_b (x : state) : bool := on_all_bufs buf_flag_ok x.

(* ---------- schedule feasibility (C01) ---------- *)
(* per job: Done* Proc? Idle* *)
Fixpoint pattern_from (phase : nat) (ops : list op) : bool :=
  (* phase 0: still in Done prefix; 1: after the Proc/first Idle *)
  match ops with
  | [] => true
  | o :: r =>
      match o_st o, phase with
      | ODone, O => pattern_from O r
      | OProc, O => pattern_from 1 r
      | OIdle, _ => pattern_from 1 r
      | _, _ => false
      end
  end.

Definition op_times_ok (o : op) : bool :=
  match o_st o with
  | OIdle => true
  | OTransport => false
  | _ => time_leb (o_start o) (o_end o)
  end.

Definition nonidle (o : op) : bool := negb (is_ostate OIdle o).

Fixpoint chain_ok (ops : list op) : bool :=
  match ops with
  | a :: ((b :: _) as r) =>
      (if nonidle a && nonidle b then time_leb (o_end a) (o_start b) else true) && chain_ok r
  | _ => true
  end.

Definition op_machine_ok (o : op) (c : opcfg) : bool := Nat.eqb (o_mach o) (oc_mach c).

Definition job_ok (jb : job) (cs : list opcfg) : bool :=
  pattern_from O (j_ops jb) && forallb op_times_ok (j_ops jb) && chain_ok (j_ops jb)
  && forallb2 op_machine_ok (j_ops jb) cs.

Definition disjoint (a b : op) : bool := time_leb (o_end a) (o_start b) || time_leb (o_end b) (o_start a).

Fixpoint pairwise {A} (f : A -> A -> bool) (l : list A) : bool :=
  match l with [] => true | h :: t => forallb (f h) t && pairwise f t end.

Definition machine_ops (x : state) (m : nat) : list op :=
  filter (fun o => nonidle o && Nat.eqb (o_mach o) m) (flat_map j_ops (s_jobs x)).

Definition feasible_b (x : state) : bool :=
  forallb2 job_ok (s_jobs x) (i_jobs i)
  && forallb (fun m => pairwise disjoint (machine_ops x m)) (seq0 (length (s_machs x))).

(* ---------- clock (I4): nothing pending lies in the past ---------- *)
Definition no_overdue_b (x : state) : bool :=
  forallb (fun o => if is_ostate OProc o then time_leb (Time (s_now x)) (o_end o) else true)
    (flat_map j_ops (s_jobs x))
  && forallb (fun t => match t_st t, t_occ t with
                       | TIdle, _ => true
                       | _, OAt z => s_now x <=? z
                       | _, ODep _ _ _ => true
                       | _, ONo => false end) (s_trans x).

(* an idle or just-delivered AGV claims nothing *)
Definition idle_unclaimed_b (x : state) : bool :=
  forallb (fun t => match t_st t with
                    | TIdle | TOutage => opt_nat_eqb (t_job t) None
                    | _ => true end) (s_trans x).

(* current values of the stochastic time objects are never negative (max(0, .) in the implementation) *)
Definition sto_ok_b (x : state) : bool := forallb (fun p => 0 <=? fst p) (s_sto x).

(* the clock invariant of C12 *)
Definition clock_b (x : state) : bool := no_overdue_b x && idle_unclaimed_b x && sto_ok_b x.

(* recorded times never lie in the future, except the planned end of the running operation *)
Definition past_b (x : state) : bool :=
  forallb (fun o => match o_st o with
                    | ODone => time_leb (o_start o) (Time (s_now x)) && time_leb (o_end o) (Time (s_now x))
                    | OProc => time_leb (o_start o) (Time (s_now x))
                    | _ => true end) (flat_map j_ops (s_jobs x)).

(* I2b: a busy machine's job is being processed on it and ends when the machine is released *)
Definition busy_op_b (x : state) : bool :=
  forallb (fun '(m, ms) =>
    match m_st ms, b_store (m_in ms) with
    | MIdle, _ => true
    | _, [j] =>
        match nth_error (s_jobs x) j with
        | Some jb =>
            match first_not_done jb with
            | Some k => match nth_error (j_ops jb) k with
                        | Some o => is_ostate OProc o && Nat.eqb (o_mach o) m
                                    && match o_end o, m_occ ms with
                                       | Time a, Time b => a =? b | _, _ => false end
                        | None => false end
            | None => false end
        | None => false end
    | _, _ => false end) (indexed O (s_machs x)).

(* I2d: a job has an operation in PROCESSING iff it lies in a machine's internal buffer *)
Definition proc_inner_b (x : state) : bool :=
  forallb (fun jb => Bool.eqb (is_job_running jb) (match j_loc jb with BIn _ => true | _ => false end)) (s_jobs x).

(* I8: a job in an OUTPUT buffer has all operations done *)
Definition output_done_b (x : state) : bool :=
  forallb (fun jb => if is_output i (j_loc jb) then all_operations_done jb else true) (s_jobs x).

(* I6: outside OUTAGE every outage record is inactive *)
Definition oact_inactive (o : oact) : bool := match o with OInactive _ => true | _ => false end.
Definition outages_b (x : state) : bool :=
  forallb (fun m => match m_st m with MOutage => true | _ => forallb oact_inactive (m_out m) end) (s_machs x)
  && forallb (fun t => match t_st t with TOutage => true | _ => forallb oact_inactive (t_out t) end) (s_trans x).

(* active outage records never have negative length (C10) *)
Definition outage_nonneg_b (x : state) : bool :=
  let ok o := match o with OActive s e => time_leb s e | _ => true end in
  forallb (fun m => forallb ok (m_out m)) (s_machs x) && forallb (fun t => forallb ok (t_out t)) (s_trans x).

(* I3c: transport phases *)
Definition agv_phase_b (x : state) : bool :=
  forallb (fun t => match t_st t with
                    | TPickup | TWaiting =>
                        is_nil (b_store (t_buf t)) && negb (opt_nat_eqb (t_job t) None)
                        && match t_loc t with LRoute _ _ _ => true | _ => false end
                    | TTransit =>
                        Nat.eqb (length (b_store (t_buf t))) 1
                        && match t_loc t with LRoute _ _ _ => true | _ => false end
                    | TOutage =>
                        is_nil (b_store (t_buf t)) && opt_nat_eqb (t_job t) None
                        && match t_loc t with LAt _ => true | _ => false end
                    | TIdle => match t_loc t with LAt _ => true | _ => false end
                    | TWorking => false
                    end) (s_trans x).

(* the states the compiler produces: nothing started, machines idle and empty, records routed as configured *)
Definition fresh_b (x : state) : bool :=
  forallb (fun jb => forallb (is_ostate OIdle) (j_ops jb)) (s_jobs x)
  && forallb (fun ms => mstate_eqb (m_st ms) MIdle && is_nil (b_store (m_in ms))) (s_machs x)
  && forallb2 (fun jb cs => forallb2 op_machine_ok (j_ops jb) cs) (s_jobs x) (i_jobs i).

(* ... in addition: no unfinished job lies in an output buffer, and every AGV is idle and empty *)
Definition fresh2_b (x : state) : bool :=
  fresh_b x
  && forallb (fun jb => negb (is_output i (j_loc jb)) || all_operations_done jb) (s_jobs x)
  && forallb (fun ts => tstate_eqb (t_st ts) TIdle && is_nil (b_store (t_buf ts))) (s_trans x).

(* C02 over whole runs: a DONE record with a deterministic configured duration d lasted at least d, and exactly d on a
   machine without outage configuration *)
Definition no_outage_b (m : nat) : bool :=
  match nth_error (i_machs i) m with Some mc => is_nil (mc_out mc) | None => false end.
Definition durations_b (x : state) : bool :=
  forallb (fun '(j, jb) =>
    forallb (fun '(k, o) =>
      match get_opcfg i j k with
      | Ok oc => match oc_dur oc, o_st o with
                 | Det d, ODone => match o_start o, o_end o with
                                   | Time s, Time e => (s + d <=? e) && (if no_outage_b (o_mach o) then e =? s + d else true)
                                   | _, _ => false end
                 | _, _ => true end
      | Err _ => true end) (indexed O (j_ops jb))) (indexed O (s_jobs x)).

(* C07 over whole runs: an operation that has started did not start earlier than its predecessor's end plus the
   (deterministic) travel time between the two machines *)
Fixpoint gap_ops (ops : list op) : bool :=
  match ops with
  | a :: r =>
      match r with
      | b :: _ =>
          (match travel_lookup (i_travel i) (PM (o_mach a)) (PM (o_mach b)) with
           | Some (Det c) => if is_ostate OIdle b then true
                             else match o_end a, o_start b with
                                  | Time e, Time s => e + c <=? s
                                  | _, _ => false end
           | _ => true end) && gap_ops r
      | [] => true
      end
  | [] => true
  end.
Definition travel_gap_b (x : state) : bool := forallb (fun jb => gap_ops (j_ops jb)) (s_jobs x).

(* C09 over whole runs, on the records alone: two DONE operations p, o of one machine, p started strictly before o
   and no other started operation of that machine started in between (ties excluded): o starts no earlier than
   end(p) + matrix[(tool p, tool o)], for a deterministic matrix entry *)
Definition all_recs (x : state) : list ((nat * nat) * op) :=
  flat_map (fun p => map (fun q => ((fst p, fst q), snd q)) (indexed O (j_ops (snd p)))) (indexed O (s_jobs x)).
Definition cref_eqb (a b : nat * nat) : bool := Nat.eqb (fst a) (fst b) && Nat.eqb (snd a) (snd b).
Definition started_on (m : nat) (r : (nat * nat) * op) : bool :=
  negb (is_ostate OIdle (snd r)) && Nat.eqb (o_mach (snd r)) m.
Definition setup_entry (m a : nat) (c : nat * nat) : option Z :=
  match nth_error (i_machs i) m, get_opcfg i (fst c) (snd c) with
  | Some mc, Ok oc => match setup_lookup (mc_setup mc) a (oc_tool oc) with Some (Det sd) => Some sd | _ => None end
  | _, _ => None end.
Definition between_b (s1 s2 : Z) (q : (nat * nat) * op) : bool :=
  match o_start (snd q) with Time sq => (s1 <=? sq) && (sq <=? s2) | NoTime => true end.
Definition setup_pair_b (rs : list ((nat * nat) * op)) (r1 r2 : (nat * nat) * op) : bool :=
  let m := o_mach (snd r2) in
  if is_ostate ODone (snd r1) && is_ostate ODone (snd r2) && Nat.eqb (o_mach (snd r1)) m && negb (cref_eqb (fst r1) (fst r2)) then
    match o_start (snd r1), o_end (snd r1), o_start (snd r2) with
    | Time s1, Time e1, Time s2 =>
        if (s1 <? s2) && negb (existsb (fun q => started_on m q && negb (cref_eqb (fst q) (fst r1)) && negb (cref_eqb (fst q) (fst r2))
                                                && between_b s1 s2 q) rs)
        then match get_opcfg i (fst (fst r1)) (snd (fst r1)) with
             | Ok oc1 => match setup_entry m (oc_tool oc1) (fst r2) with Some sd => e1 + sd <=? s2 | None => true end
             | Err _ => true end
        else true
    | _, _, _ => false end
  else true.
Definition setup_gap_b (x : state) : bool :=
  let rs := all_recs x in forallb (fun r2 => forallb (fun r1 => setup_pair_b rs r1 r2) rs) rs.

(* no AGV waits on a TimeDependency (hypothesis on the initial state of the theorems of SMP/ProvBatch.v; an
   invariant of instances whose machine post-buffers are unordered) *)
Definition nodep_b (x : state) : bool :=
  forallb (fun ts => match t_occ ts with ODep _ _ _ => false | _ => true end) (s_trans x).

(* the TimeDependency invariant of SMP/ProvBatch.v (DEPI), as a boolean: a dependency stored in an AGV's occupied_till is
   that AGV's own -> WAITING / -> TRANSIT transition for its own claim, the AGV waits, and the claimed job lies in the
   (ordered) machine post-buffer BEHIND the blocking job *)
Definition before_b (a b : nat) (l : list nat) : bool :=
  match index_of a l, index_of b l with Some pa, Some pb => Nat.ltb pa pb | _, _ => false end.
Definition rel_ok_b (ty : btype) (l : list nat) (k j : nat) : bool :=
  match ty with Lifo => before_b j k l | Flex => false | _ => before_b k j l end.
Definition wkind_b (tr : transition) : bool :=
  match tr_new tr with NT TWaiting => true | NT TTransit => true | _ => false end.
Definition depi_b (x : state) : bool :=
  forallb (fun p => match t_occ (snd p) with
     | ODep b k d =>
         tstate_eqb (t_st (snd p)) TWaiting &&
         match t_job (snd p), b with
         | Some j, BPost m =>
             match nth_error (s_machs x) m, nth_error (i_machs i) m with
             | Some ms, Some mc =>
                 comp_eqb (tr_comp d) (CT (fst p)) && opt_nat_eqb (tr_job d) (Some j) && wkind_b d
                 && rel_ok_b (bc_type (mc_post mc)) (b_store (m_post ms)) k j
             | _, _ => false end
         | _, _ => false end
     | _ => true end) (indexed O (s_trans x)).

(* a job lying in the pre-buffer of a machine has its first not-done operation on that machine (invariant PRE of
   SMP/Deliver.v: jobs are delivered to the machine of their next operation) *)
Definition pre_ok_b (x : state) : bool :=
  forallb (fun jb => match j_loc jb with
                     | BPre m => match first_not_done jb with
                                 | Some k => match nth_error (j_ops jb) k with Some o => Nat.eqb (o_mach o) m | None => false end
                                 | None => false end
                     | _ => true end) (s_jobs x).

(* the clause vector the monitors print, in this order *)
Definition clause_vector (x : state) : list bool :=
  [ placement_b x; loc_b x; mach_hold_b x; agv_hold_b x; claims_b x; capacity_b x; flags_b x;
    feasible_b x; no_overdue_b x; past_b x; busy_op_b x; proc_inner_b x; output_done_b x;
    outages_b x; outage_nonneg_b x; agv_phase_b x; idle_unclaimed_b x; sto_ok_b x; fresh_b x; agv_load_b x; fresh2_b x; nodep_b x; durations_b x; travel_gap_b x; setup_gap_b x; depi_b x; pre_ok_b x ].

End WithInst.

Definition clause_names : list nat := seq0 27.
