(* buffer_type_utils, job_type_utils, outage_utils, stochastic reads. No proofs. *)
From Coq Require Import List ZArith Bool Arith.
From JSL Require Import Base.Res Base.ListX SM.Types.
Import ListNotations.
Open Scope Z_scope.

(* ---------- stochastic store ---------- *)
Section Sto.
Variable sigma : oracle.

Definition sto_read (sto : list (Z * nat)) (id : nat) : res Z :=
  match nth_error sto id with Some (v, _) => Ok v | None => Err EInvalidValue end.

(* StochasticTimeConfig.update(): next draw, clipped at 0 *)
Definition sto_update (sto : list (Z * nat)) (id : nat) : res (list (Z * nat)) :=
  match nth_error sto id with
  | Some (_, k) => Ok (upd sto id (Z.max 0 (sigma id (S k)), S k))
  | None => Err EInvalidValue
  end.

(* `.time` without update *)
Definition tc_read (sto : list (Z * nat)) (c : tcfg) : res Z :=
  match c with Det z => Ok z | Stoch id => sto_read sto id end.

(* update-then-read (manipulate._get_duration, time_utils._get_travel_time_from_spec) *)
Definition tc_update_read (sto : list (Z * nat)) (c : tcfg) : res (Z * list (Z * nat)) :=
  match c with
  | Det z => Ok (z, sto)
  | Stoch id => sto' <- sto_update sto id ;; v <- sto_read sto' id ;; Ok (v, sto')
  end.

(* read-then-update (manipulate._get_setup_duration) *)
Definition tc_read_update (sto : list (Z * nat)) (c : tcfg) : res (Z * list (Z * nat)) :=
  match c with
  | Det z => Ok (z, sto)
  | Stoch id => v <- sto_read sto id ;; sto' <- sto_update sto id ;; Ok (v, sto')
  end.

(* ---------- outage_utils ---------- *)
Definition time_z (t : time) : res Z := match t with Time z => Ok z | NoTime => Err EPyType end.

(* _sample_from_outage_obj *)
Definition sample_outage (now : Z) (sto : list (Z * nat)) (c : ocfg) (o : oact)
  : res (oact * list (Z * nat)) :=
  match o with
  | OActive _ _ => Err EOutageActive
  | OInactive l =>
      let last := match l with NoTime => 0 | Time z => z end in
      let elapsed := now - last in
      '(apply, sto1) <-
         match og_freq c with
         | Det f => Ok (elapsed <=? f, sto)
         | Stoch id => v <- sto_read sto id ;;
                       if v <? elapsed then sto' <- sto_update sto id ;; Ok (true, sto')
                       else Ok (false, sto)
         end ;;
      if apply : bool then
        '(d, sto2) <- tc_update_read sto1 (og_dur c) ;;
        Ok (OActive (Time now) (Time (now + d)), sto2)
      else Ok (o, sto1)
  end.

(* get_new_outage_states: one result per configured outage, positional with the state *)
Fixpoint new_outage_states (now : Z) (sto : list (Z * nat)) (cs : list ocfg) (os : list oact)
  : res (list oact * list (Z * nat)) :=
  match cs with
  | [] => Ok ([], sto)
  | c :: cs' =>
      match os with
      | [] => Err EOutageActive (* ValueError("Outage state not found in component") *)
      | o :: os' =>
          '(o', sto1) <- sample_outage now sto c o ;;
          '(r, sto2) <- new_outage_states now sto1 cs' os' ;;
          Ok (o' :: r, sto2)
      end
  end.
End Sto.

(* get_occupied_time_from_outage_iterator: max active length, 0 if none. *)
Fixpoint active_lengths (os : list oact) : res (list Z) :=
  match os with
  | [] => Ok []
  | OActive (Time s) (Time e) :: r => l <- active_lengths r ;; Ok ((e - s) :: l)
  | OActive _ _ :: _ => Err EPyType
  | OInactive _ :: r => active_lengths r
  end.
Definition occupied_time (os : list oact) : res Z :=
  l <- active_lengths os ;;
  Ok (match l with [] => 0 | h :: t => fold_left Z.max t h end).

Definition release_outage (o : oact) : oact :=
  match o with OActive _ e => OInactive e | OInactive _ => o end.

(* ---------- buffers ---------- *)
Definition get_buf (x : state) (b : bid) : option buf :=
  match b with
  | BStd n => nth_error (s_bufs x) n
  | BPre m => option_map m_pre (nth_error (s_machs x) m)
  | BIn m => option_map m_in (nth_error (s_machs x) m)
  | BPost m => option_map m_post (nth_error (s_machs x) m)
  | BAgv t => option_map t_buf (nth_error (s_trans x) t)
  end.

Definition get_bcfg (i : inst) (b : bid) : option bcfg :=
  match b with
  | BStd n => nth_error (i_bufs i) n
  | BPre m => option_map mc_pre (nth_error (i_machs i) m)
  | BIn m => option_map mc_in (nth_error (i_machs i) m)
  | BPost m => option_map mc_post (nth_error (i_machs i) m)
  | BAgv t => option_map ac_buf (nth_error (i_trans i) t)
  end.

(* generic buffer update by identifier; control-field updates that leave the buffers alone *)
Definition set_buf (x : state) (L : bid) (b : buf) : state :=
  match L with
  | BStd n => put_sbuf x n b
  | BPre m => match nth_error (s_machs x) m with
              | Some ms => put_mach x m (mkMachine (m_st ms) (m_occ ms) b (m_in ms) (m_post ms) (m_tool ms) (m_out ms))
              | None => x end
  | BIn m => match nth_error (s_machs x) m with
             | Some ms => put_mach x m (mkMachine (m_st ms) (m_occ ms) (m_pre ms) b (m_post ms) (m_tool ms) (m_out ms))
             | None => x end
  | BPost m => match nth_error (s_machs x) m with
               | Some ms => put_mach x m (mkMachine (m_st ms) (m_occ ms) (m_pre ms) (m_in ms) b (m_tool ms) (m_out ms))
               | None => x end
  | BAgv t => match nth_error (s_trans x) t with
              | Some ts => put_trans x t (mkTransport (t_st ts) (t_occ ts) b (t_loc ts) (t_job ts) (t_out ts))
              | None => x end
  end.

Definition set_mach_ctl (x : state) (m : nat) (st : mstate) (oc : time) (tool : nat) (outs : list oact) : state :=
  match nth_error (s_machs x) m with
  | Some ms => put_mach x m (mkMachine st oc (m_pre ms) (m_in ms) (m_post ms) tool outs)
  | None => x end.

Definition set_trans_ctl (x : state) (t : nat) (st : tstate) (oc : occ) (loc : tloc) (jb : option nat)
  (outs : list oact) : state :=
  match nth_error (s_trans x) t with
  | Some ts => put_trans x t (mkTransport st oc (t_buf ts) loc jb outs)
  | None => x end.

Definition put_in_buffer (b : buf) (cap : Z) (j : nat) : res buf :=
  if cap <=? lenZ (b_store b) then Err EBufferFull
  else let st := b_store b ++ [j] in
       Ok (mkBuf st (if lenZ st =? cap then FFull else FNotEmpty)).

Definition remove_from_buffer (b : buf) (j : nat) : res buf :=
  if mem_nat j (b_store b) then
    let st := remove_nat j (b_store b) in
    Ok (mkBuf st (match st with [] => FEmpty | _ => FNotEmpty end))
  else Err EJobNotInBuffer.

(* switch_buffer: (from', to') ; the job's new location is set by the caller *)
Definition switch_buffer (i : inst) (from : buf) (to : buf) (to_id : bid) (j : nat) : res (buf * buf) :=
  from' <- remove_from_buffer from j ;;
  c <- of_opt EInvalidValue (get_bcfg i to_id) ;;
  to' <- put_in_buffer to (bc_cap c) j ;;
  Ok (from', to').

(* move job j from buffer A to buffer B (A <> B): remove, capacity-checked append, new location *)
Definition move_job (i : inst) (x : state) (j : nat) (A B : bid) : res state :=
  a <- of_opt EInvalidValue (get_buf x A) ;;
  a' <- remove_from_buffer a j ;;
  c <- of_opt EInvalidValue (get_bcfg i B) ;;
  b <- of_opt EInvalidValue (get_buf x B) ;;
  b' <- put_in_buffer b (bc_cap c) j ;;
  jb <- get_job x j ;;
  Ok (put_job (set_buf (set_buf x A a') B b') j (set_j_loc jb B)).

Definition get_next_job_from_buffer (b : buf) (ty : btype) : option nat :=
  match b_store b with
  | [] => None
  | h :: _ =>
      match ty with
      | Fifo => Some h
      | Lifo => Some (last (b_store b) h)
      | Flex => None
      | Dummy => Some h
      end
  end.

(* is_correct_position_for_buffer_type with the position possibly None;
   Flex with position None raises TypeError (0 <= None) in the implementation *)
Definition is_correct_position (pos : option nat) (len : nat) (ty : btype) : res bool :=
  if Nat.eqb len 0 then Ok false
  else match ty with
       | Fifo | Dummy => Ok (match pos with Some O => true | _ => false end)
       | Lifo => Ok (match pos with Some p => Nat.eqb p (len - 1) | None => false end)
       | Flex => match pos with Some p => Ok (Nat.ltb p len) | None => Err EPyType end
       end.

(* is_job_ready_for_pickup_from_postbuffer *)
Definition is_ready (i : inst) (x : state) (jn : nat) (jb : job) : res bool :=
  b <- of_opt EInvalidValue (get_buf x (j_loc jb)) ;;
  c <- of_opt EInvalidValue (get_bcfg i (j_loc jb)) ;;
  let pos := index_of jn (b_store b) in
  let okbuf := match j_loc jb with BStd _ | BPost _ => true | _ => false end in
  cp <- is_correct_position pos (length (b_store b)) (bc_type c) ;;
  Ok (okbuf && cp).

(* ---------- jobs ---------- *)
Definition is_ostate (s : ostate) (o : op) : bool := ostate_eqb (o_st o) s.

Definition first_not_done (jb : job) : option nat := find_idx (fun o => negb (is_ostate ODone o)) (j_ops jb).
Definition first_idle (jb : job) : option nat := find_idx (is_ostate OIdle) (j_ops jb).
Definition first_proc (jb : job) : option nat := find_idx (is_ostate OProc) (j_ops jb).

Definition is_job_running (jb : job) : bool := existsb (is_ostate OProc) (j_ops jb).
Definition all_operations_done (jb : job) : bool := forallb (is_ostate ODone) (j_ops jb).
Definition no_operation_idle (jb : job) : bool := forallb (fun o => negb (is_ostate OIdle o)) (j_ops jb).

Definition is_output (i : inst) (b : bid) : bool :=
  match b with
  | BStd n => match nth_error (i_bufs i) n with
              | Some c => match bc_role c with ROutput => true | _ => false end
              | None => false end
  | _ => false
  end.

Definition job_is_done (i : inst) (jb : job) : bool := all_operations_done jb && is_output i (j_loc jb).

(* core_utils.is_done: every job located in an OUTPUT buffer with all its operations done (fix 7fd110d: before,
   the location alone decided) *)
Definition all_in_output (i : inst) (x : state) : bool :=
  forallb (fun jb => is_output i (j_loc jb) && all_operations_done jb) (s_jobs x).

Definition first_output (i : inst) : option nat :=
  find_idx (fun c => match bc_role c with ROutput => true | _ => false end) (i_bufs i).

Definition set_op (jb : job) (k : nat) (o : op) : job := set_j_ops jb (upd (j_ops jb) k o).

Definition get_opcfg (i : inst) (j k : nat) : res opcfg :=
  match nth_error (i_jobs i) j with
  | Some ops => of_opt EInvalidValue (nth_error ops k)
  | None => Err EInvalidValue
  end.

(* travel-time dictionary *)
Fixpoint travel_lookup (tt : list ((place * place) * tcfg)) (a b : place) : option tcfg :=
  match tt with
  | [] => None
  | ((p, q), c) :: r => if place_eqb p a && place_eqb q b then Some c else travel_lookup r a b
  end.

Fixpoint setup_lookup (st : list ((nat * nat) * tcfg)) (a b : nat) : option tcfg :=
  match st with
  | [] => None
  | ((p, q), c) :: r => if Nat.eqb p a && Nat.eqb q b then Some c else setup_lookup r a b
  end.

(* the place a buffer belongs to: parent machine / the standalone buffer itself / the AGV *)
Definition place_of_bid (b : bid) : place :=
  match b with
  | BStd n => PB n
  | BPre m | BIn m | BPost m => PM m
  | BAgv t => PT t
  end.
