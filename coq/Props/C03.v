(* C03 - Jobs are conserved and every resource holds what the state says it holds.
   Statements only; proofs live in SMP/. *)
From Coq Require Import List ZArith Bool.
From JSL Require Import Base.Res SM.Types SM.Util SM.Handler SM.Step SM.Middleware SM.Inv SM.Example
  SMP.Reflect SMP.StepInv SMP.Main SMP.Clock SMP.FeasStep SMP.Agv SMP.LiftSide SMP.OutputDone SMP.LiftProv SMP.ProvBatch SMP.Claims SMP.Hold.
Import ListNotations.

(* Every job is stored exactly once, every stored number is a job (placement_b), each job's location
   names a buffer that contains it (loc_b), and the buffer flags agree with the stores (flags_b):
   after EVERY individual transition that the state machine applies, for every instance, oracle
   (i.e. every seed), transition and state satisfying the clauses - no side condition. *)
Theorem C03_conservation_one_transition :
  forall (sigma : oracle) (i : inst) (x : state) (tr : transition) (x' : state),
    wfs_b i x = true -> apply_transition sigma i x tr = Ok x' -> wfs_b i x' = true.
Proof. exact apply_wfs_b. Qed.
Print Assumptions C03_conservation_one_transition.

(* ... hence in every state the environment can reach from a well-formed initial state under any
   accept/decline sequence of any length, with any truncation setting and any loop fuel ... *)
Theorem C03_conservation_reachable :
  forall (sigma : oracle) (i : inst) (fuel : nat) (x0 : state) (joker0 : Z) (ta : bool) (r : result) (m : mw),
    wfs_b i x0 = true -> reach sigma i fuel x0 joker0 ta r m ->
    placement_b (r_x r) = true /\ loc_b (r_x r) = true /\ capacity_b i (r_x r) = true /\ flags_b i (r_x r) = true.
Proof. intros. apply wfs_b_parts. eapply reach_wfs_b; eauto. Qed.
Print Assumptions C03_conservation_reachable.

(* ... and in every intermediate micro-state between two applied transitions on the way. *)
Theorem C03_conservation_micro_states :
  forall (sigma : oracle) (i : inst) (fuel : nat) (x0 : state) (joker0 : Z) (ta : bool) (r : result) (m : mw)
         (a : Z) (r' : result) (m' : mw) (lg : mlog),
    wfs_b i x0 = true -> reach sigma i fuel x0 joker0 ta r m -> mw_step sigma i fuel r m a = MOk r' m' lg ->
    forall tr y, In (tr, y) lg -> wfs_b i y = true.
Proof. exact reach_micro_wfs_b. Qed.
Print Assumptions C03_conservation_micro_states.

(* multi-transition actions through state.step directly *)
Theorem C03_conservation_step :
  forall (sigma : oracle) (i : inst) (fuel : nat) (x0 : state) (trs : list transition) (tm : tmachine)
         (x' : state) (offers : list transition) (lg : mlog),
    wfs_b i x0 = true -> step sigma i fuel x0 trs tm = SOk x' offers lg ->
    wfs_b i x' = true /\ forall tr y, In (tr, y) lg -> wfs_b i y = true.
Proof. exact step_wfs_b. Qed.
Print Assumptions C03_conservation_step.

(* "a busy machine holds exactly one job, an idle machine none" (mach_hold_b) in every state reachable from a
   compiled initial state - a corollary of the C01 invariant, hence with C01's monitored side condition
   (reachS = reach + "no AGV took a job in process" on every micro-log). *)
Theorem C03_machine_holds_one_partial :
  forall (sigma : oracle) (i : inst) (fuel : nat) (x0 : state) (joker0 : Z) (ta : bool) (r : result) (m : mw),
    inst_nonneg_b i = true -> clock_b x0 = true -> fresh_b i x0 = true ->
    reachS sigma i fuel x0 joker0 ta r m -> mach_hold_b (r_x r) = true.
Proof. intros. eapply reachS_mach_hold_past; eauto. Qed.
Print Assumptions C03_machine_holds_one_partial.

(* ... and without the side condition for instances whose machine post-buffers are unordered (FLEX, the default) *)
Theorem C03_machine_holds_one_every_instance :
  forall (sigma : oracle) (i : inst) (fuel : nat) (x0 : state) (joker0 : Z) (ta : bool) (r : result) (m : mw),
    inst_nonneg_b i = true ->
    clock_b x0 = true -> wfs_b i x0 = true -> fresh2_b i x0 = true -> nodep_b x0 = true ->
    reach sigma i fuel x0 joker0 ta r m -> mach_hold_b (r_x r) = true.
Proof. intros sigma i fuel x0 joker0 ta r m Hnn C W Fr D H. destruct (run_reachable sigma i Hnn _ _ _ _ _ _ C W Fr D H) as [_ [A _]]. exact A. Qed.
Print Assumptions C03_machine_holds_one_every_instance.

(* the same for the instance class of the earlier rounds (corollary) *)
Theorem C03_machine_holds_one_flex :
  forall (sigma : oracle) (i : inst) (fuel : nat) (x0 : state) (joker0 : Z) (ta : bool) (r : result) (m : mw),
    inst_nonneg_b i = true -> flex_post_b i = true ->
    clock_b x0 = true -> wfs_b i x0 = true -> fresh2_b i x0 = true -> nodep_b x0 = true ->
    reach sigma i fuel x0 joker0 ta r m -> mach_hold_b (r_x r) = true.
Proof. intros sigma i fuel x0 joker0 ta r m Hnn Hf C W Fr D H. eapply flex_reachable; eauto. Qed.
Print Assumptions C03_machine_holds_one_flex.

(* "an idle AGV holds and claims nothing; an AGV holds at most one job, and only its claim" (agv_hold_b) in every state of
   every run, for instances whose machine post-buffers are unordered or of capacity one (SMP/Hold.v: the job an AGV takes
   is its claim - derived, not assumed - nothing else puts a job on an AGV, and the claim is dropped with the job) *)
Theorem C03_agv_holds_only_its_claim_every_instance :
  forall (sigma : oracle) (i : inst) (fuel : nat) (x0 : state) (joker0 : Z) (ta : bool) (r : result) (m : mw),
    inst_nonneg_b i = true ->
    clock_b x0 = true -> wfs_b i x0 = true -> fresh2_b i x0 = true -> nodep_b x0 = true ->
    reach sigma i fuel x0 joker0 ta r m -> agv_hold_b (r_x r) = true.
Proof. intros sigma i fuel x0 joker0 ta r m Hnn. apply run_agv_hold; auto. Qed.
Print Assumptions C03_agv_holds_only_its_claim_every_instance.

(* the same for the instance class of the earlier rounds (corollary) *)
Theorem C03_agv_holds_only_its_claim_flex :
  forall (sigma : oracle) (i : inst) (fuel : nat) (x0 : state) (joker0 : Z) (ta : bool) (r : result) (m : mw),
    inst_nonneg_b i = true -> flex_post_b i = true ->
    clock_b x0 = true -> wfs_b i x0 = true -> fresh2_b i x0 = true -> nodep_b x0 = true ->
    reach sigma i fuel x0 joker0 ta r m -> agv_hold_b (r_x r) = true.
Proof. intros. eapply C03_agv_holds_only_its_claim_every_instance; eauto. Qed.
Print Assumptions C03_agv_holds_only_its_claim_flex.

(* "an AGV holds what the state says it holds": exactly one job while in TRANSIT, none in any other phase
   (agv_load_b) - after every applied transition, in every reachable state and every micro-state, for every
   instance, oracle and action sequence; no side condition. *)
Theorem C03_agv_load_one_transition :
  forall (sigma : oracle) (i : inst) (x : state) (tr : transition) (x' : state),
    agv_load_b x = true -> apply_transition sigma i x tr = Ok x' -> agv_load_b x' = true.
Proof. exact apply_agv_load_b. Qed.
Print Assumptions C03_agv_load_one_transition.

Theorem C03_agv_load_reachable :
  forall (sigma : oracle) (i : inst) (fuel : nat) (x0 : state) (joker0 : Z) (ta : bool) (r : result) (m : mw),
    agv_load_b x0 = true -> reach sigma i fuel x0 joker0 ta r m -> agv_load_b (r_x r) = true.
Proof. exact reach_agv_load_b. Qed.
Print Assumptions C03_agv_load_reachable.

Theorem C03_agv_load_micro_states :
  forall (sigma : oracle) (i : inst) (fuel : nat) (x0 : state) (joker0 : Z) (ta : bool) (r : result) (m : mw)
         (a : Z) (r' : result) (m' : mw) (lg : mlog),
    agv_load_b x0 = true -> reach sigma i fuel x0 joker0 ta r m -> mw_step sigma i fuel r m a = MOk r' m' lg ->
    forall tr y, In (tr, y) lg -> agv_load_b y = true.
Proof. exact reach_micro_agv_load_b. Qed.
Print Assumptions C03_agv_load_micro_states.

(* "a job is claimed by at most one AGV" (claims_b) in EVERY state and micro-state of EVERY run of the middleware,
   for every instance (ordered buffers and time dependencies included), oracle, fuel and action sequence: a claim is
   only set by the dispatch of an idle AGV, dispatches come from the offers (jobs nobody has claimed) or the teleport
   filter (pairwise different jobs), never from timed transitions or stored time dependencies (SMP/Claims.v, an
   instance of the provenance lifting SMP/LiftProv.v). Hypotheses on the initial state are boolean and hold for
   compiled initial states (no claims, no time dependency). *)
Theorem C03_claims_reachable :
  forall (sigma : oracle) (i : inst) (fuel : nat) (x0 : state) (joker0 : Z) (ta : bool) (r : result) (m : mw),
    inst_nonneg_b i = true -> clock_b x0 = true -> claims_b x0 = true -> nodep_b x0 = true ->
    reach sigma i fuel x0 joker0 ta r m -> claims_b (r_x r) = true.
Proof. intros sigma i fuel x0 joker0 ta r m Hnn C Cl D H. eapply reach_claims; eauto. apply nodep_depk; auto. Qed.
Print Assumptions C03_claims_reachable.

Theorem C03_claims_micro_states :
  forall (sigma : oracle) (i : inst) (fuel : nat) (x0 : state) (joker0 : Z) (ta : bool) (r : result) (m : mw)
         (a : Z) (r' : result) (m' : mw) (lg : mlog),
    inst_nonneg_b i = true -> clock_b x0 = true -> claims_b x0 = true -> nodep_b x0 = true ->
    reach sigma i fuel x0 joker0 ta r m -> mw_step sigma i fuel r m a = MOk r' m' lg ->
    forall tr y, In (tr, y) lg -> claims_b y = true.
Proof. intros sigma i fuel x0 joker0 ta r m a r' m' lg Hnn C Cl D H Hm. eapply reach_micro_claims; eauto. apply nodep_depk; auto. Qed.
Print Assumptions C03_claims_micro_states.

(* The phases of an AGV agree with what it holds, claims and where it is (agv_phase_b): on the way to a pickup
   or waiting there it is empty, has a claim and a route; in TRANSIT it carries exactly one job along a route; in
   OUTAGE and IDLE it is empty and stands at a place (in OUTAGE without a claim); the WORKING phase is never
   entered - after every applied transition, in every reachable state and micro-state; no side condition. *)
Theorem C03_agv_phase_one_transition :
  forall (sigma : oracle) (i : inst) (x : state) (tr : transition) (x' : state),
    agv_phase_b x = true -> agv_load_b x = true -> apply_transition sigma i x tr = Ok x' -> agv_phase_b x' = true.
Proof. exact apply_agv_phase_b. Qed.
Print Assumptions C03_agv_phase_one_transition.

Theorem C03_agv_phase_reachable :
  forall (sigma : oracle) (i : inst) (fuel : nat) (x0 : state) (joker0 : Z) (ta : bool) (r : result) (m : mw),
    agv_phase_b x0 = true -> agv_load_b x0 = true -> reach sigma i fuel x0 joker0 ta r m -> agv_phase_b (r_x r) = true.
Proof. exact reach_agv_phase_b. Qed.
Print Assumptions C03_agv_phase_reachable.

Theorem C03_agv_phase_micro_states :
  forall (sigma : oracle) (i : inst) (fuel : nat) (x0 : state) (joker0 : Z) (ta : bool) (r : result) (m : mw)
         (a : Z) (r' : result) (m' : mw) (lg : mlog),
    agv_phase_b x0 = true -> agv_load_b x0 = true -> reach sigma i fuel x0 joker0 ta r m ->
    mw_step sigma i fuel r m a = MOk r' m' lg -> forall tr y, In (tr, y) lg -> agv_phase_b y = true.
Proof. exact reach_micro_agv_phase_b. Qed.
Print Assumptions C03_agv_phase_micro_states.

(* non-vacuity: the compiled initial state of a real instance satisfies the hypothesis, and a
   mid-episode state (after accept, accept, accept, decline, accept) is reachable *)
Example C03_hypothesis_satisfiable : wfs_b ex_inst ex_state = true /\ agv_load_b ex_state = true /\ agv_phase_b ex_state = true
  /\ clock_b ex_state = true /\ claims_b ex_state = true /\ nodep_b ex_state = true.
Proof. vm_compute. repeat split; reflexivity. Qed.
Example C03_reachable_nontrivial :
  exists r m, ex_after [1;1;1;0;1]%Z = Some (r, m) /\ wfs_b ex_inst (r_x r) = true /\ s_now (r_x r) = 1019%Z.
Proof. vm_compute. eexists; eexists; repeat split. Qed.

(* the TimeDependency invariant (clause depi_b, SM/Inv.v): in every state and micro-state of every run of every instance, a
   dependency stored in an AGV's occupied_till is that AGV's own -> WAITING / -> TRANSIT transition for its own claim, the
   AGV waits at the pickup point, and the claimed job lies in the ordered machine post-buffer BEHIND the blocking job - so
   a re-issued transition never moves another AGV's job, and the job a dependency waits for cannot have left the buffer *)
Theorem C03_time_dependencies_wellformed_every_instance :
  forall (sigma : oracle) (i : inst) (fuel : nat) (x0 : state) (joker0 : Z) (ta : bool) (r : result) (m : mw),
    inst_nonneg_b i = true ->
    clock_b x0 = true -> wfs_b i x0 = true -> fresh2_b i x0 = true -> nodep_b x0 = true ->
    reach sigma i fuel x0 joker0 ta r m -> depi_b i (r_x r) = true.
Proof. intros sigma i fuel x0 joker0 ta r m Hnn. apply run_depi; auto. Qed.
Print Assumptions C03_time_dependencies_wellformed_every_instance.

Theorem C03_time_dependencies_wellformed_micro_states_every_instance :
  forall (sigma : oracle) (i : inst) (fuel : nat) (x0 : state) (joker0 : Z) (ta : bool) (r : result) (m : mw)
         (a : Z) (r' : result) (m' : mw) (lg : mlog),
    inst_nonneg_b i = true ->
    clock_b x0 = true -> wfs_b i x0 = true -> fresh2_b i x0 = true -> nodep_b x0 = true ->
    reach sigma i fuel x0 joker0 ta r m -> mw_step sigma i fuel r m a = MOk r' m' lg ->
    forall tr y, In (tr, y) lg -> depi_b i y = true.
Proof. intros sigma i fuel x0 joker0 ta r m a r' m' lg Hnn. apply run_micro_depi; auto. Qed.
Print Assumptions C03_time_dependencies_wellformed_micro_states_every_instance.
