(* theorems for C05 are being added (see SMP/) *)
From Coq Require Import List ZArith Bool.
Theorem C05_placeholder : True. Proof. exact I. Qed.
Print Assumptions C05_placeholder.
