(* C05 - Every offered action can be taken (partial). The full statement is false on the unchanged tree
   (known findings: hang, BufferFullError, deadlocks, ZeroDivisionError). Proved for every instance:
   offered transitions never fail validation; a successful step re-establishes the store and clock
   invariants; a step never returns a half-applied state. *)
From Coq Require Import List ZArith Bool.
From JSL Require Import Base.Res Base.ListX SM.Types SM.Util SM.Handler SM.Step SM.Middleware SM.Inv SM.Example SM.ExampleHang
  SMP.Offers SMP.Main SMP.Reflect SMP.StepInv SMP.Atomic SMP.Clock SMP.ClockMain SMP.Hang SMP.LiftProv SMP.ProvBatch SMP.OffersValid SMP.NoFail SM.Events SMP.AllEvents SMP.AllClauses SMP.Claims.
Import ListNotations.

(* accepting the offered transition cannot be rejected by the transition tables *)
Theorem C05_no_validation_error :
  forall i x offers tr, no_transport_ops_b x = true ->
    get_possible_transitions i x = Ok offers -> In tr offers -> is_transition_valid x tr = Ok true.
Proof. exact offers_are_valid. Qed.
Print Assumptions C05_no_validation_error.

(* whenever a step succeeds, the structural invariants hold again in the returned state and in every
   intermediate micro-state (any fuel, any action, any oracle) *)
Theorem C05_success_reestablishes_invariants :
  forall sigma i fuel x0 trs tm x' offers lg,
    wfs_b i x0 = true -> step sigma i fuel x0 trs tm = SOk x' offers lg ->
    wfs_b i x' = true /\ forall tr y, In (tr, y) lg -> wfs_b i y = true.
Proof. exact step_wfs_b. Qed.
Print Assumptions C05_success_reestablishes_invariants.

(* the outcomes of a step are exhaustive and exclusive: success with a state, failure with the input
   state, an exception class, or fuel exhaustion (the model of "never returns") *)
Theorem C05_failure_is_clean :
  forall sigma i fuel x0 trs tm xf lg, step sigma i fuel x0 trs tm = SFail xf lg -> same_shop xf x0.
Proof. exact step_fail_returns_input. Qed.

(* "reports success", over whole runs, for EVERY instance: the middleware NEVER receives an unsuccessful state-machine result
   (success=False) in any run - whatever the agent accepts or declines, for every oracle, fuel and truncation setting:
   every transition the simulator applies (the accepted offer, the timed transitions it creates - including the IDLE -> SETUP
   transitions a machine creates by itself from an ordered pre-buffer and the transitions re-issued from time dependencies -,
   the teleport dispatches) passes validation in the state it is applied in (SMP/NoFail.v: valid where created, and no
   transition of another component applied before it in the same batch can invalidate it; SMP/Deliver.v: a job lying in a
   machine's pre-buffer has its next operation on that machine, because AGVs deliver their claim to the machine of its first
   idle operation). Consequently the environment never truncates an episode because of a failed step. Hypotheses: booleans on
   the initial state only (the last one: jobs that START in a pre-buffer start in front of the machine of their first
   operation). That a step may still RAISE (BufferFullError with finite capacities) or not return
   (ordered standalone buffers) is the subject of the refutations below; for the instance of C05_refuted_* the hypotheses of
   this theorem hold too: it never fails - it does not come back. *)
Theorem C05_step_never_reports_failure_every_instance :
  forall (sigma : oracle) (i : inst) (fuel : nat) (x0 : state) (joker0 : Z) (ta : bool) (r : result) (m : mw)
         (a : Z) (sto : list (Z * nat)) (m' : mw),
    inst_nonneg_b i = true ->
    clock_b x0 = true -> wfs_b i x0 = true -> fresh2_b i x0 = true -> nodep_b x0 = true ->
    pre_ok_b x0 = true ->
    reach sigma i fuel x0 joker0 ta r m -> mw_step sigma i fuel r m a <> MFail sto m'.
Proof. intros sigma i fuel x0 joker0 ta r m a sto m' Hnn C W Fr Dn Po H Hm. eapply run_never_fails; eauto. Qed.
Print Assumptions C05_step_never_reports_failure_every_instance.

Example C05_never_fails_hypotheses_satisfiable :
  inst_nonneg_b hang_inst = true /\ clock_b hang_init = true
  /\ wfs_b hang_inst hang_init = true /\ fresh2_b hang_inst hang_init = true /\ nodep_b hang_init = true
  /\ pre_ok_b hang_init = true.
Proof. vm_compute. repeat split. Qed.

(* C05_refuted: "every offered action can be taken and the call returns" is FALSE of the faithful model, for
   a document the compiler accepts (2 jobs, 2 machines, 1 AGV, FIFO standalone input buffer; SM/ExampleHang.v is
   produced from the implementation's own compile output). After declining the first offer, accepting the second
   (send the AGV to the job that is NOT at the head of the FIFO buffer) makes state.step run out of EVERY fuel:
   the AGV cycles WAITINGPICKUP -> WAITINGPICKUP at a constant clock. The implementation never returns on this
   input (known finding F-C05-hang-ordered-standalone; the C05 check replays it on every run). *)
Theorem C05_refuted_step :
  forall fuel, step hang_sigma hang_inst fuel hang_pre hang_trs TMJumpToEvent = SOutOfFuel.
Proof.
  intros fuel.
  destruct (step_prefix hang_sigma hang_inst hang_pre hang_trs TMJumpToEvent) as [[[x2 timed] lg1]|] eqn:Ep;
    [|vm_compute in Ep; discriminate].
  rewrite (step_prefix_eq _ _ _ _ _ _ _ _ _ Ep).
  assert (Hp : exists xs ts lgs lg', passes hang_sigma hang_inst 1 x2 timed lg1 = Some (xs, ts, lgs) /\ ts <> []
                                /\ loop_pass hang_sigma hang_inst xs ts lgs = Some (xs, ts, lg')).
  { vm_compute in Ep. inversion Ep; subst x2 timed lg1. clear Ep.
    do 4 eexists. split; [vm_compute; reflexivity|]. split; [discriminate|]. vm_compute. reflexivity. }
  destruct Hp as [xs [ts [lgs [lg' [H1 [H2 H3]]]]]].
  eapply stem_and_lasso; eauto.
Qed.
Print Assumptions C05_refuted_step.

(* ... and this input is reached through the middleware from the compiled initial state: reset, decline;
   the remaining single offer is the fatal one, and accepting it never returns, whatever the fuel *)
Theorem C05_refuted_reachable :
  exists r0 m0 lg0 r m lg,
    mw_reset hang_sigma hang_inst 50 hang_init 5%Z false (mkMw 5%Z 0 0 false) = MOk r0 m0 lg0
    /\ mw_step hang_sigma hang_inst 50 r0 m0 0%Z = MOk r m lg
    /\ wfs_b hang_inst (r_x r) = true /\ clock_b (r_x r) = true
    /\ forall fuel, mw_step hang_sigma hang_inst fuel r m 1%Z = MOutOfFuel.
Proof.
  do 6 eexists. split; [vm_compute; reflexivity|]. split; [vm_compute; reflexivity|].
  split; [vm_compute; reflexivity|]. split; [vm_compute; reflexivity|].
  intros fuel. unfold mw_step. cbn [r_offers r_x].
  change (step hang_sigma hang_inst fuel _ _ TMJumpToEvent) with
    (step hang_sigma hang_inst fuel hang_pre hang_trs TMJumpToEvent).
  rewrite C05_refuted_step. reflexivity.
Qed.
Print Assumptions C05_refuted_reachable.

(* what every internal transition of every step does, over whole runs of every instance: every entry (tr, y) of the micro-log of every decision
   was applied to ONE state x1 (the micro-state before it, up to the clock) such that the complete event vector the monitors evaluate on the
   implementation - release order at pre-buffers and for AGVs, setup, tool frame, fired exactly when due, start of processing, end of processing
   with the sampled outages, release, pickup, delivery, AGV release, stores changed by remove-one/append-one only, clock untouched, the two
   side conditions of C01/C04 - is true of (x1, tr, y); the dispatch clause possibly without its readiness conjunct, which is false in some runs
   (C11_dispatch_only_to_ready_jobs_refuted). event_vector_up_to_readiness differs from SM/Events.v event_vector in that one position only. *)
Theorem C05_every_micro_event_satisfies_the_monitor_vector_every_instance :
  forall (sigma : oracle) (i : inst) (fuel : nat) (x0 : state) (joker0 : Z) (ta : bool) (r : result) (m : mw)
         (a : Z) (r' : result) (m' : mw) (lg : mlog),
    inst_nonneg_b i = true ->
    clock_b x0 = true -> wfs_b i x0 = true -> fresh2_b i x0 = true -> nodep_b x0 = true -> pre_ok_b x0 = true ->
    reach sigma i fuel x0 joker0 ta r m -> mw_step sigma i fuel r m a = MOk r' m' lg -> chain_vector i (r_x r) lg.
Proof. intros sigma i fuel x0 joker0 ta r m a r' m' lg Hnn. apply (run_event_vector_ok sigma i Hnn); auto. Qed.
Print Assumptions C05_every_micro_event_satisfies_the_monitor_vector_every_instance.

Theorem C05_monitor_vector_differs_in_the_dispatch_position_only :
  forall i x tr y, length (event_vector i x tr y) = length (event_vector_up_to_readiness i x tr y)
    /\ forall k, k <> 7 -> nth_error (event_vector_up_to_readiness i x tr y) k = nth_error (event_vector i x tr y) k.
Proof. exact vector_shape. Qed.
Print Assumptions C05_monitor_vector_differs_in_the_dispatch_position_only.

(* "... and yields a state that again satisfies all structural invariants", after every INDIVIDUAL internal transition: every state clause the monitors
   print for the implementation - job placement and locations, what machines and AGVs hold, claims, capacities and flags, schedule feasibility,
   nothing overdue, nothing recorded in the future, busy machines and their PROCESSING records, outage records, AGV phases and load, the store of
   stochastic times, and the history clauses (durations, travel gaps, setup gaps, time dependencies, pre-buffer contents) - holds in every
   micro-state of every decision of every run of every instance (all of clause_vector except the two descriptions of initial states and the
   superseded nodep_b). A conjunction of the run-level theorems of SMP/, with busy_op_b and proc_inner_b reflected here for the first time. *)
Theorem C05_every_micro_state_satisfies_every_state_clause_every_instance :
  forall (sigma : oracle) (i : inst) (tool0 : nat -> nat) (fuel : nat) (x0 : state) (joker0 : Z) (ta : bool) (r : result) (m : mw)
         (a : Z) (r' : result) (m' : mw) (lg : mlog),
    inst_nonneg_b i = true ->
    clock_b x0 = true -> wfs_b i x0 = true -> fresh2_b i x0 = true -> nodep_b x0 = true -> pre_ok_b x0 = true ->
    agv_phase_b x0 = true -> outages_b x0 && outage_nonneg_b x0 = true ->
    (forall m0 ms, nth_error (s_machs x0) m0 = Some ms -> m_tool ms = tool0 m0) ->
    reach sigma i fuel x0 joker0 ta r m -> mw_step sigma i fuel r m a = MOk r' m' lg ->
    forall tr y, In (tr, y) lg -> forallb (fun b => b) (clause_vector_live i y) = true.
Proof. intros sigma i tool0 fuel x0 joker0 ta r m a r' m' lg Hnn. apply (run_micro_clause_vector' sigma i Hnn). Qed.
Print Assumptions C05_every_micro_state_satisfies_every_state_clause_every_instance.

