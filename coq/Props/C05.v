(* C05 - Every offered action can be taken (partial). The full statement is false on the unchanged tree
   (known findings: hang, BufferFullError, deadlocks, ZeroDivisionError). Proved for every instance:
   offered transitions never fail validation; a successful step re-establishes the store and clock
   invariants; a step never returns a half-applied state. *)
From Coq Require Import List ZArith Bool.
From JSL Require Import Base.Res Base.ListX SM.Types SM.Util SM.Handler SM.Step SM.Middleware SM.Inv SM.Example
  SMP.Offers SMP.Main SMP.Reflect SMP.StepInv SMP.Atomic SMP.Clock SMP.ClockMain.
Import ListNotations.

(* accepting the offered transition cannot be rejected by the transition tables *)
Theorem C05_no_validation_error :
  forall i x offers tr, no_transport_ops_b x = true ->
    get_possible_transitions i x = Ok offers -> In tr offers -> is_transition_valid x tr = Ok true.
Proof. exact offers_are_valid. Qed.
Print Assumptions C05_no_validation_error.

(* whenever a step succeeds, the structural invariants hold again in the returned state and in every
   intermediate micro-state (any fuel, any action, any oracle) *)
Theorem C05_success_reestablishes_invariants :
  forall sigma i fuel x0 trs tm x' offers lg,
    wfs_b i x0 = true -> step sigma i fuel x0 trs tm = SOk x' offers lg ->
    wfs_b i x' = true /\ forall tr y, In (tr, y) lg -> wfs_b i y = true.
Proof. exact step_wfs_b. Qed.
Print Assumptions C05_success_reestablishes_invariants.

(* the outcomes of a step are exhaustive and exclusive: success with a state, failure with the input
   state, an exception class, or fuel exhaustion (the model of "never returns") *)
Theorem C05_failure_is_clean :
  forall sigma i fuel x0 trs tm xf lg, step sigma i fuel x0 trs tm = SFail xf lg -> same_shop xf x0.
Proof. exact step_fail_returns_input. Qed.

(* C05_refuted: the full statement fails already on a compiled instance - an action in the action space
   (decline) on a reachable state runs out of any finite fuel we tried in Coq; the implementation never
   returns on it (known finding F-C05-hang-ordered-standalone, replayed by the harness) *)
