(* C08 - Buffers never exceed capacity; ordered buffers release jobs in discipline order. *)
From Coq Require Import List ZArith Bool.
From JSL Require Import Base.Res Base.ListX SM.Types SM.Util SM.Handler SM.Step SM.Middleware SM.Inv SM.Example SM.ExampleShift
  SMP.Reflect SMP.StepInv SMP.Main SMP.WF SMP.Feasible SMP.Post SMP.StoreEff SMP.Clock SMP.LiftSide SMP.OutputDone SMP.LiftProv SMP.Release SM.Events Gen.Kernels Gen.KernelsEq SMP.EventsRun.
Import ListNotations.

(* no buffer (standalone, pre/internal/post, AGV) ever holds more jobs than its configured capacity:
   in every reachable state ... *)
Theorem C08_capacity_reachable :
  forall (sigma : oracle) (i : inst) (fuel : nat) (x0 : state) (joker0 : Z) (ta : bool) (r : result) (m : mw),
    wfs_b i x0 = true -> reach sigma i fuel x0 joker0 ta r m -> capacity_b i (r_x r) = true.
Proof. intros. eapply wfs_b_parts. eapply reach_wfs_b; eauto. Qed.
Print Assumptions C08_capacity_reachable.

(* ... and after every single transition on the way *)
Theorem C08_capacity_micro_states :
  forall (sigma : oracle) (i : inst) (fuel : nat) (x0 : state) (joker0 : Z) (ta : bool) (r : result) (m : mw)
         (a : Z) (r' : result) (m' : mw) (lg : mlog),
    wfs_b i x0 = true -> reach sigma i fuel x0 joker0 ta r m -> mw_step sigma i fuel r m a = MOk r' m' lg ->
    forall tr y, In (tr, y) lg -> capacity_b i y = true.
Proof. intros. eapply wfs_b_parts. eapply reach_micro_wfs_b; eauto. Qed.
Print Assumptions C08_capacity_micro_states.

Example C08_hypothesis_satisfiable : wfs_b ex_inst ex_state = true.
Proof. vm_compute. reflexivity. Qed.

(* The release rule of the model IS the implementation's: regenerated from
   buffer_type_utils.is_correct_position_for_buffer_type on every run. *)
Theorem C08_release_rule_is_the_code's :
  forall (p len : nat) ty,
    is_correct_position (Some p) len ty = Ok (gen_is_correct_position (Z.of_nat p) (Z.of_nat len) ty).
Proof. exact gen_is_correct_position_eq. Qed.
Print Assumptions C08_release_rule_is_the_code's.

(* the job an ordered buffer hands to the machine behind it (head for FIFO/DUMMY, last for LIFO, none for FLEX) is the code's:
   gen_next_job is regenerated from buffer_type_utils.get_next_job_from_buffer on every run *)
Theorem C08_next_job_is_the_code's : forall b ty, gen_next_job (b_store b) ty = get_next_job_from_buffer b ty.
Proof. exact gen_next_job_eq. Qed.
Print Assumptions C08_next_job_is_the_code's.

(* ---------- discipline order ---------- *)
(* the AGV side, every applied -> TRANSIT transition of every run (it is a fact about one transition, whatever the state):
   either the claimed job is not at the position the buffer's discipline releases and the AGV keeps waiting - nothing moves -,
   or the job taken is at the release position and leaves; it joins the AGV's buffer at the back *)
Theorem C08_agv_takes_only_the_released_job :
  forall sigma i x tr t ts x',
    nth_error (s_trans x) t = Some ts -> h_t_to_transit sigma i x tr t ts = Ok x' ->
    exists j jb sb sc,
      tr_job tr = Some j /\ nth_error (s_jobs x) j = Some jb /\ get_buf x (j_loc jb) = Some sb /\ get_bcfg i (j_loc jb) = Some sc
      /\ ((exists p, index_of j (b_store sb) = Some p /\ is_correct_position (Some p) (length (b_store sb)) (bc_type sc) = Ok false
                     /\ h_t_waiting_waiting i x tr t ts = Ok x')
          \/ (forall p, index_of j (b_store sb) = Some p -> is_correct_position (Some p) (length (b_store sb)) (bc_type sc) = Ok true)).
Proof.
  intros sigma i x tr t ts x' Hts H.
  destruct (post_to_transit sigma i _ _ _ _ _ Hts H) as [j [jb [sb [sc [A [B [C [D [[p E]|[dst [c [trv [E _]]]]]]]]]]]]].
  - exists j, jb, sb, sc. repeat split; auto. left. eauto.
  - exists j, jb, sb, sc. repeat split; auto.
Qed.
Print Assumptions C08_agv_takes_only_the_released_job.

(* the machine side (SMP/Release.v). (a) where the simulator creates an IDLE -> SETUP transition it names the job at the release
   position of the machine's pre-buffer (head for FIFO/DUMMY, last for LIFO) *)
Theorem C08_created_machine_start_names_the_released_job :
  forall i now m ms tr, timed_machine i now m ms = Ok (Some tr) -> tr_new tr = NM MSetup ->
    exists c j, get_bcfg i (BPre m) = Some c /\ tr = mkTr (CM m) (NM MSetup) (Some j)
                /\ at_release_position j (b_store (m_pre ms)) (bc_type c) = true.
Proof. exact created_start_names_released_job. Qed.
Print Assumptions C08_created_machine_start_names_the_released_job.

(* (b) until it is applied only transitions of OTHER machines are applied (create_timed_transitions lists the machines'
   transitions first), and those leave the pre-buffer as it is *)
Theorem C08_pre_buffer_untouched_by_other_machines :
  forall sigma i x tr0 x' m0 m,
    apply_transition sigma i x tr0 = Ok x' -> tr_comp tr0 = CM m0 -> m0 <> m -> bst x' (BPre m) = bst x (BPre m).
Proof. exact other_machine_leaves_pre_buffer. Qed.
Print Assumptions C08_pre_buffer_untouched_by_other_machines.

(* (c) the agent is only ever offered a machine start from an UNORDERED pre-buffer: offers are computed when
   create_timed_transitions has nothing left, and then no idle machine has a non-empty ordered pre-buffer *)
Theorem C08_offered_machine_start_only_for_unordered_pre_buffer :
  forall i x offers m j,
    wfs_b i x = true -> FE i x -> create_timed_transitions i x = Ok [] -> get_possible_transitions i x = Ok offers ->
    In (mkTr (CM m) (NM MSetup) (Some j)) offers ->
    exists ms c, nth_error (s_machs x) m = Some ms /\ get_bcfg i (BPre m) = Some c /\ bc_type c = Flex
                 /\ at_release_position j (b_store (m_pre ms)) (bc_type c) = true.
Proof. intros i x offers m j W. apply offered_start_only_for_unordered_pre_buffer. apply WFS_complete; auto. Qed.
Print Assumptions C08_offered_machine_start_only_for_unordered_pre_buffer.

(* (a)-(c) composed with the AGV side, over whole runs of every instance: in the micro-log of EVERY decision of EVERY run, every
   entry satisfies the event clauses ev_pre_release and ev_transit_release (the two clauses the monitors evaluate on every
   transition of the implementation) with respect to the micro-state before it (the state the decision was taken in, for the first
   entry; the clock may have been moved in between, the clause does not read it): an IDLE -> SETUP takes the job at the position
   the pre-buffer's discipline releases - head for FIFO/DUMMY, last for LIFO, any stored job for FLEX -, and an AGV that takes a
   job takes it from the release position of the post- or standalone buffer it lies in. SMP/LiftProv.v records for
   every log entry the state it was applied in (chainW), SMP/Release.v carries "a pending machine start names the released job"
   through the batch (machines first, so only other machines act before it). *)
Theorem C08_every_taker_takes_the_released_job_every_instance :
  forall (sigma : oracle) (i : inst) (fuel : nat) (x0 : state) (joker0 : Z) (ta : bool) (r : result) (m : mw)
         (a : Z) (r' : result) (m' : mw) (lg : mlog),
    inst_nonneg_b i = true ->
    clock_b x0 = true -> wfs_b i x0 = true -> fresh2_b i x0 = true -> nodep_b x0 = true -> pre_ok_b x0 = true ->
    reach sigma i fuel x0 joker0 ta r m -> mw_step sigma i fuel r m a = MOk r' m' lg -> chain_release i (r_x r) lg.
Proof. intros sigma i fuel x0 joker0 ta r m a r' m' lg Hnn. apply run_release_order; auto. Qed.
Print Assumptions C08_every_taker_takes_the_released_job_every_instance.

(* non-vacuity: an instance with LIFO machine pre-buffers meets the hypotheses, and the micro-log of a decision of one of its
   runs contains a machine start (created by the simulator from the pre-buffer) *)
Example C08_release_order_nontrivial :
  clock_b sh_init0 = true /\ wfs_b sh_inst sh_init0 = true /\ fresh2_b sh_inst sh_init0 = true /\ nodep_b sh_init0 = true
  /\ pre_ok_b sh_init0 = true
  /\ exists r m r' m' lg, reach sh_sigma sh_inst 400 sh_init0 3%Z true r m /\ mw_step sh_sigma sh_inst 400 r m 1%Z = MOk r' m' lg
       /\ existsb (fun e => match tr_new (fst e) with NM MSetup => true | _ => false end) lg = true.
Proof.
  repeat (split; [vm_compute; reflexivity|]).
  destruct (runG sh_sigma sh_inst side2 400 sh_init0 3%Z true [1;1]%Z) as [[r m]|] eqn:E; [|vm_compute in E; discriminate].
  destruct (mw_step sh_sigma sh_inst 400 r m 1%Z) as [r' m' lg| | |] eqn:E2.
  - exists r, m, r', m', lg. split; [eapply reachG_reach; eapply runG_reach; exact E|]. split; [exact E2|].
    vm_compute in E. inversion E; subst. vm_compute in E2. inversion E2; subst. vm_compute. reflexivity.
  - exfalso. vm_compute in E. inversion E; subst. vm_compute in E2. discriminate.
  - exfalso. vm_compute in E. inversion E; subst. vm_compute in E2. discriminate.
  - exfalso. vm_compute in E. inversion E; subst. vm_compute in E2. discriminate.
Qed.

(* the same lift for the store clauses: in every run every applied transition changes the stores only by removing one job from one
   store and appending it at the back of another one (ev_stores), and a machine release appends the finished job at the back
   of the post-buffer (ev_machine_release) *)
Theorem C08_stores_change_by_remove_and_append_along_every_run :
  forall (sigma : oracle) (i : inst) (fuel : nat) (x0 : state) (joker0 : Z) (ta : bool) (r : result) (m : mw)
         (a : Z) (r' : result) (m' : mw) (lg : mlog),
    inst_nonneg_b i = true ->
    clock_b x0 = true -> wfs_b i x0 = true -> fresh2_b i x0 = true -> nodep_b x0 = true -> pre_ok_b x0 = true ->
    reach sigma i fuel x0 joker0 ta r m -> mw_step sigma i fuel r m a = MOk r' m' lg -> chain_events i (r_x r) lg.
Proof. intros sigma i fuel x0 joker0 ta r m a r' m' lg Hnn. apply run_events_ok; auto. Qed.
Print Assumptions C08_stores_change_by_remove_and_append_along_every_run.
