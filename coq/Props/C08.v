(* C08 - Buffers never exceed capacity; ordered buffers release jobs in discipline order. *)
From Coq Require Import List ZArith Bool.
From JSL Require Import Base.Res SM.Types SM.Util SM.Handler SM.Step SM.Middleware SM.Inv SM.Example
  SMP.Reflect SMP.StepInv SMP.Main Gen.Kernels Gen.KernelsEq.
Import ListNotations.

(* no buffer (standalone, pre/internal/post, AGV) ever holds more jobs than its configured capacity:
   in every reachable state ... *)
Theorem C08_capacity_reachable :
  forall (sigma : oracle) (i : inst) (fuel : nat) (x0 : state) (joker0 : Z) (ta : bool) (r : result) (m : mw),
    wfs_b i x0 = true -> reach sigma i fuel x0 joker0 ta r m -> capacity_b i (r_x r) = true.
Proof. intros. eapply wfs_b_parts. eapply reach_wfs_b; eauto. Qed.
Print Assumptions C08_capacity_reachable.

(* ... and after every single transition on the way *)
Theorem C08_capacity_micro_states :
  forall (sigma : oracle) (i : inst) (fuel : nat) (x0 : state) (joker0 : Z) (ta : bool) (r : result) (m : mw)
         (a : Z) (r' : result) (m' : mw) (lg : mlog),
    wfs_b i x0 = true -> reach sigma i fuel x0 joker0 ta r m -> mw_step sigma i fuel r m a = MOk r' m' lg ->
    forall tr y, In (tr, y) lg -> capacity_b i y = true.
Proof. intros. eapply wfs_b_parts. eapply reach_micro_wfs_b; eauto. Qed.
Print Assumptions C08_capacity_micro_states.

Example C08_hypothesis_satisfiable : wfs_b ex_inst ex_state = true.
Proof. vm_compute. reflexivity. Qed.

(* The release rule of the model IS the implementation's: regenerated from
   buffer_type_utils.is_correct_position_for_buffer_type on every run. *)
Theorem C08_release_rule_is_the_code's :
  forall (p len : nat) ty,
    is_correct_position (Some p) len ty = Ok (gen_is_correct_position (Z.of_nat p) (Z.of_nat len) ty).
Proof. exact gen_is_correct_position_eq. Qed.
Print Assumptions C08_release_rule_is_the_code's.

(* the job an ordered buffer hands to the machine behind it (head for FIFO/DUMMY, last for LIFO, none for FLEX) is the code's:
   gen_next_job is regenerated from buffer_type_utils.get_next_job_from_buffer on every run *)
Theorem C08_next_job_is_the_code's : forall b ty, gen_next_job (b_store b) ty = get_next_job_from_buffer b ty.
Proof. exact gen_next_job_eq. Qed.
Print Assumptions C08_next_job_is_the_code's.
