From Coq Require Import List ZArith Bool.
From JSL Require Import Base.Res Base.ListX SM.Types SM.Util.
Theorem C08_placeholder : True. Proof. exact I. Qed.
Print Assumptions C08_placeholder.
