(* C02 - Operations last exactly their configured duration (+ outage). One-step exactness of every
   handler that writes an operation record; the composition over a whole history additionally uses the
   clock invariant of C12 (no event fires late) and, for machines, the phase invariant (partial, see
   DESIGN.md). *)
From Coq Require Import List ZArith Bool.
From JSL Require Import Base.Res Base.ListX SM.Types SM.Util SM.Handler SM.Step SM.Inv
  SMP.Post SMP.PostApply SMP.Offers SMP.Clock.
Import ListNotations.

(* SETUP->WORKING: the operation is stamped start = now, planned end = now + d where d is the configured
   duration, or for a stochastic duration the value sampled at this very moment (update-then-read) *)
Theorem C02_processing_starts_exact :
  forall sigma i x tr m ms x',
    tr_comp tr = CM m -> nth_error (s_machs x) m = Some ms -> m_st ms = MSetup ->
    apply_transition sigma i x tr = Ok x' ->
    exists j jb k oc d,
      tr_job tr = Some j /\ nth_error (s_jobs x) j = Some jb /\ first_not_done jb = Some k
      /\ get_opcfg i j k = Ok oc /\ tc_read (s_sto x') (oc_dur oc) = Ok d
      /\ nth_error (s_machs x') m = Some (mkMachine MWorking (Time (s_now x + d)%Z) (m_pre ms) (m_in ms) (m_post ms) (m_tool ms) (m_out ms))
      /\ nth_error (s_jobs x') j = Some (set_op jb k (mkOp m (Time (s_now x)) (Time (s_now x + d)%Z) OProc))
      /\ s_now x' = s_now x /\ mem_nat j (b_store (m_in ms)) = true.
Proof.
  intros sigma i x tr m ms x' Hc Hm Hst H.
  destruct (apply_machine sigma i x tr m ms x' Hc Hm H) as [[E _]|[[_ [_ Hh]]|[[E _]|[E _]]]]; try congruence.
  eapply post_setup_working; eauto.
Qed.
Print Assumptions C02_processing_starts_exact.

(* WORKING->OUTAGE (end of processing): the planned end is extended by exactly the longest outage that
   becomes active now (0 if none), the machine is blocked until then *)
Theorem C02_outage_extends_exact :
  forall sigma i x tr m ms x',
    tr_comp tr = CM m -> nth_error (s_machs x) m = Some ms -> m_st ms = MWorking ->
    apply_transition sigma i x tr = Ok x' ->
    exists mc outs sto' occ_for j jb k o,
      nth_error (i_machs i) m = Some mc
      /\ new_outage_states sigma (s_now x) (s_sto x) (mc_out mc) (m_out ms) = Ok (outs, sto')
      /\ occupied_time outs = Ok occ_for
      /\ tr_job tr = Some j /\ nth_error (s_jobs x) j = Some jb /\ first_proc jb = Some k /\ nth_error (j_ops jb) k = Some o
      /\ nth_error (s_machs x') m = Some (mkMachine MOutage (Time (s_now x + occ_for)%Z) (m_pre ms) (m_in ms) (m_post ms) (m_tool ms) outs)
      /\ nth_error (s_jobs x') j = Some (set_op jb k (set_op_end o (Time (s_now x + occ_for)%Z)))
      /\ s_now x' = s_now x.
Proof.
  intros sigma i x tr m ms x' Hc Hm Hst H.
  destruct (apply_machine sigma i x tr m ms x' Hc Hm H) as [[E _]|[[E _]|[[_ [_ Hh]]|[E _]]]]; try congruence.
  eapply post_working_outage; eauto.
Qed.
Print Assumptions C02_outage_extends_exact.

(* OUTAGE->IDLE (release): the operation becomes DONE with end = now and keeps its start *)
Theorem C02_completion_exact :
  forall sigma i x tr m ms x',
    tr_comp tr = CM m -> nth_error (s_machs x) m = Some ms -> m_st ms = MOutage ->
    apply_transition sigma i x tr = Ok x' ->
    exists j jb k o,
      hd_error (b_store (m_in ms)) = Some j /\ nth_error (s_jobs x) j = Some jb
      /\ first_proc jb = Some k /\ nth_error (j_ops jb) k = Some o
      /\ (exists jb', nth_error (s_jobs x') j = Some jb' /\ j_loc jb' = BPost m
            /\ j_ops jb' = upd (j_ops jb) k (mkOp (o_mach o) (o_start o) (Time (s_now x)) ODone))
      /\ s_now x' = s_now x.
Proof.
  intros sigma i x tr m ms x' Hc Hm Hst H.
  destruct (apply_machine sigma i x tr m ms x' Hc Hm H) as [[E _]|[[E _]|[[E _]|[_ [_ Hh]]]]]; try congruence.
  destruct (post_outage_idle i x tr m ms x' Hm Hh) as (j & jb & k & o & H1 & H2 & H3 & H4 & _ & H5 & H6).
  exists j, jb, k, o. repeat split; auto.
Qed.
Print Assumptions C02_completion_exact.

(* the outage time is never negative *)
Theorem C02_outage_nonneg :
  forall now outs v, Forall (oact_fresh now) outs -> occupied_time outs = Ok v -> (0 <= v)%Z.
Proof. exact occupied_time_nonneg. Qed.

(* timed machine transitions are never created before they are due *)
Theorem C02_not_early :
  forall i now m ms tr, timed_machine i now m ms = Ok (Some tr) -> m_st ms <> MIdle ->
    exists z, m_occ ms = Time z /\ (z <= now)%Z.
Proof.
  intros i now m ms tr H Hs. destruct (timed_machine_spec i now m ms tr H) as [[z [j [Ho [Hz _]]]]|[c [j [Hi _]]]].
  - eauto.
  - congruence.
Qed.
