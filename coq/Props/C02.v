(* C02 - Operations last exactly their configured duration (+ outage). One-step exactness of every
   handler that writes an operation record; the composition over a whole history additionally uses the
   clock invariant of C12 (no event fires late) and, for machines, the phase invariant (partial, see
   DESIGN.md). *)
From Coq Require Import List ZArith Bool.
From JSL Require Import Base.Res Base.ListX SM.Types SM.Util SM.Handler SM.Step SM.Inv
  SMP.Post SMP.PostApply SMP.Offers SMP.Clock SM.Middleware SM.ExampleShift SMP.StepInv SMP.LiftSide SMP.OutputDone SMP.Reflect SMP.LiftProv SMP.ProvBatch SMP.Durations SM.Events SMP.EventsRun SMP.Due.
Import ListNotations.

(* SETUP->WORKING: the operation is stamped start = now, planned end = now + d where d is the configured
   duration, or for a stochastic duration the value sampled at this very moment (update-then-read) *)
Theorem C02_processing_starts_exact :
  forall sigma i x tr m ms x',
    tr_comp tr = CM m -> nth_error (s_machs x) m = Some ms -> m_st ms = MSetup ->
    apply_transition sigma i x tr = Ok x' ->
    exists j jb k oc d,
      tr_job tr = Some j /\ nth_error (s_jobs x) j = Some jb /\ first_not_done jb = Some k
      /\ get_opcfg i j k = Ok oc /\ tc_read (s_sto x') (oc_dur oc) = Ok d
      /\ nth_error (s_machs x') m = Some (mkMachine MWorking (Time (s_now x + d)%Z) (m_pre ms) (m_in ms) (m_post ms) (m_tool ms) (m_out ms))
      /\ nth_error (s_jobs x') j = Some (set_op jb k (mkOp m (Time (s_now x)) (Time (s_now x + d)%Z) OProc))
      /\ s_now x' = s_now x /\ mem_nat j (b_store (m_in ms)) = true.
Proof.
  intros sigma i x tr m ms x' Hc Hm Hst H.
  destruct (apply_machine sigma i x tr m ms x' Hc Hm H) as [[E _]|[[_ [_ Hh]]|[[E _]|[E _]]]]; try congruence.
  eapply post_setup_working; eauto.
Qed.
Print Assumptions C02_processing_starts_exact.

(* WORKING->OUTAGE (end of processing): the planned end is extended by exactly the longest outage that
   becomes active now (0 if none), the machine is blocked until then *)
Theorem C02_outage_extends_exact :
  forall sigma i x tr m ms x',
    tr_comp tr = CM m -> nth_error (s_machs x) m = Some ms -> m_st ms = MWorking ->
    apply_transition sigma i x tr = Ok x' ->
    exists mc outs sto' occ_for j jb k o,
      nth_error (i_machs i) m = Some mc
      /\ new_outage_states sigma (s_now x) (s_sto x) (mc_out mc) (m_out ms) = Ok (outs, sto')
      /\ occupied_time outs = Ok occ_for
      /\ tr_job tr = Some j /\ nth_error (s_jobs x) j = Some jb /\ first_proc jb = Some k /\ nth_error (j_ops jb) k = Some o
      /\ nth_error (s_machs x') m = Some (mkMachine MOutage (Time (s_now x + occ_for)%Z) (m_pre ms) (m_in ms) (m_post ms) (m_tool ms) outs)
      /\ nth_error (s_jobs x') j = Some (set_op jb k (set_op_end o (Time (s_now x + occ_for)%Z)))
      /\ s_now x' = s_now x.
Proof.
  intros sigma i x tr m ms x' Hc Hm Hst H.
  destruct (apply_machine sigma i x tr m ms x' Hc Hm H) as [[E _]|[[E _]|[[_ [_ Hh]]|[E _]]]]; try congruence.
  eapply post_working_outage; eauto.
Qed.
Print Assumptions C02_outage_extends_exact.

(* OUTAGE->IDLE (release): the operation becomes DONE with end = now and keeps its start *)
Theorem C02_completion_exact :
  forall sigma i x tr m ms x',
    tr_comp tr = CM m -> nth_error (s_machs x) m = Some ms -> m_st ms = MOutage ->
    apply_transition sigma i x tr = Ok x' ->
    exists j jb k o,
      hd_error (b_store (m_in ms)) = Some j /\ nth_error (s_jobs x) j = Some jb
      /\ first_proc jb = Some k /\ nth_error (j_ops jb) k = Some o
      /\ (exists jb', nth_error (s_jobs x') j = Some jb' /\ j_loc jb' = BPost m
            /\ j_ops jb' = upd (j_ops jb) k (mkOp (o_mach o) (o_start o) (Time (s_now x)) ODone))
      /\ s_now x' = s_now x.
Proof.
  intros sigma i x tr m ms x' Hc Hm Hst H.
  destruct (apply_machine sigma i x tr m ms x' Hc Hm H) as [[E _]|[[E _]|[[E _]|[_ [_ Hh]]]]]; try congruence.
  destruct (post_outage_idle i x tr m ms x' Hm Hh) as (j & jb & k & o & H1 & H2 & H3 & H4 & _ & H5 & H6).
  exists j, jb, k, o. repeat split; auto.
Qed.
Print Assumptions C02_completion_exact.

(* the outage time is never negative *)
Theorem C02_outage_nonneg :
  forall now outs v, Forall (oact_fresh now) outs -> occupied_time outs = Ok v -> (0 <= v)%Z.
Proof. exact occupied_time_nonneg. Qed.

(* timed machine transitions are never created before they are due *)
Theorem C02_not_early :
  forall i now m ms tr, timed_machine i now m ms = Ok (Some tr) -> m_st ms <> MIdle ->
    exists z, m_occ ms = Time z /\ (z <= now)%Z.
Proof.
  intros i now m ms tr H Hs. destruct (timed_machine_spec i now m ms tr H) as [[z [j [Ho [Hz _]]]]|[c [j [Hi _]]]].
  - eauto.
  - congruence.
Qed.
Print Assumptions C02_not_early.

(* Over whole runs (SMP/Durations.v): in EVERY state and micro-state of EVERY run of the middleware - any action sequence
   of any length, any oracle, fuel and truncation setting - on an instance whose machine post-buffers are unordered
   (FLEX, the compiler's default), every DONE operation whose configured duration is deterministic lasted AT LEAST that
   duration, and EXACTLY that duration on a machine without outage configuration (durations_b, evaluated by the
   monitors on every implementation state, all instances). The proof shows that every machine transition is applied
   exactly when due: not early (created when occupied_till <= now; nothing else in its batch touches that machine or
   moves its job), not late (clock invariant), and that a busy machine's PROCESSING record ends at the machine's
   occupied_till - so OUTAGE starts at start + d and adds exactly the outage time, and completion does not move the end. *)
Theorem C02_durations_reachable_every_instance :
  forall (sigma : oracle) (i : inst) (fuel : nat) (x0 : state) (joker0 : Z) (ta : bool) (r : result) (m : mw),
    inst_nonneg_b i = true ->
    clock_b x0 = true -> wfs_b i x0 = true -> fresh2_b i x0 = true -> nodep_b x0 = true ->
    reach sigma i fuel x0 joker0 ta r m -> durations_b i (r_x r) = true.
Proof. intros sigma i fuel x0 joker0 ta r m Hnn. apply run_durations; auto. Qed.
Print Assumptions C02_durations_reachable_every_instance.

(* the same for the instance class of the earlier rounds (corollary) *)
Theorem C02_durations_reachable_flex :
  forall (sigma : oracle) (i : inst) (fuel : nat) (x0 : state) (joker0 : Z) (ta : bool) (r : result) (m : mw),
    inst_nonneg_b i = true -> flex_post_b i = true ->
    clock_b x0 = true -> wfs_b i x0 = true -> fresh2_b i x0 = true -> nodep_b x0 = true ->
    reach sigma i fuel x0 joker0 ta r m -> durations_b i (r_x r) = true.
Proof. intros. eapply C02_durations_reachable_every_instance; eauto. Qed.
Print Assumptions C02_durations_reachable_flex.

Theorem C02_durations_micro_states_every_instance :
  forall (sigma : oracle) (i : inst) (fuel : nat) (x0 : state) (joker0 : Z) (ta : bool) (r : result) (m : mw)
         (a : Z) (r' : result) (m' : mw) (lg : mlog),
    inst_nonneg_b i = true ->
    clock_b x0 = true -> wfs_b i x0 = true -> fresh2_b i x0 = true -> nodep_b x0 = true ->
    reach sigma i fuel x0 joker0 ta r m -> mw_step sigma i fuel r m a = MOk r' m' lg ->
    forall tr y, In (tr, y) lg -> durations_b i y = true.
Proof. intros sigma i fuel x0 joker0 ta r m a r' m' lg Hnn. apply run_micro_durations; auto. Qed.
Print Assumptions C02_durations_micro_states_every_instance.

(* the same for the instance class of the earlier rounds (corollary) *)
Theorem C02_durations_micro_states_flex :
  forall (sigma : oracle) (i : inst) (fuel : nat) (x0 : state) (joker0 : Z) (ta : bool) (r : result) (m : mw)
         (a : Z) (r' : result) (m' : mw) (lg : mlog),
    inst_nonneg_b i = true -> flex_post_b i = true ->
    clock_b x0 = true -> wfs_b i x0 = true -> fresh2_b i x0 = true -> nodep_b x0 = true ->
    reach sigma i fuel x0 joker0 ta r m -> mw_step sigma i fuel r m a = MOk r' m' lg ->
    forall tr y, In (tr, y) lg -> durations_b i y = true.
Proof. intros. eapply C02_durations_micro_states_every_instance; eauto. Qed.
Print Assumptions C02_durations_micro_states_flex.

(* non-vacuity: the clause speaks about something - a run of a compiled instance (AGV, outages, deterministic
   durations) reaches a state with DONE operations *)
Example C02_durations_nontrivial :
  exists r m, reach sh_sigma sh_inst 200 sh_init0 3%Z true r m
              /\ existsb (fun jb => existsb (is_ostate ODone) (j_ops jb)) (s_jobs (r_x r)) = true
              /\ durations_b sh_inst (r_x r) = true.
Proof.
  destruct (runG sh_sigma sh_inst side2 200 sh_init0 3%Z true [1;1;1;1]%Z) as [[r m]|] eqn:E; [|vm_compute in E; discriminate].
  exists r, m. split; [eapply reachG_reach; eapply runG_reach; exact E|]. vm_compute in E. inversion E; subst. vm_compute. split; reflexivity.
Qed.

(* over whole runs of every instance: every entry (tr, y) of the micro-log of EVERY decision of EVERY run was applied to a state x1
   (the micro-state before it, up to the clock) of which the event clauses the monitors evaluate are true - in particular ev_work
   (SETUP -> WORKING stamps start = now, end = now + d with d the duration drawn now for the configured operation, on the
   configured machine), ev_machine_outage (the end is extended by exactly the longest outage sampled now) and
   ev_machine_release (DONE with end = now, start kept). SMP/EventsOk.v proves the clauses of every applied transition from the
   run invariants, SMP/EventsRun.v lifts them along the witnessed chain of applications (LiftProv chainW). *)
Theorem C02_duration_events_hold_along_every_run :
  forall (sigma : oracle) (i : inst) (fuel : nat) (x0 : state) (joker0 : Z) (ta : bool) (r : result) (m : mw)
         (a : Z) (r' : result) (m' : mw) (lg : mlog),
    inst_nonneg_b i = true ->
    clock_b x0 = true -> wfs_b i x0 = true -> fresh2_b i x0 = true -> nodep_b x0 = true -> pre_ok_b x0 = true ->
    reach sigma i fuel x0 joker0 ta r m -> mw_step sigma i fuel r m a = MOk r' m' lg -> chain_events i (r_x r) lg.
Proof. intros sigma i fuel x0 joker0 ta r m a r' m' lg Hnn. apply run_events_ok; auto. Qed.
Print Assumptions C02_duration_events_hold_along_every_run.

(* over whole runs of every instance, exactness in time: every timed transition of every micro-log - the end of a setup, the end of processing,
   the end of a machine's outage, an AGV's arrival at the pickup point, a delivery, the end of an AGV's outage - is applied in a state whose clock
   EQUALS the component's occupied_till (ev_due): never early (created only when occupied_till <= now, and nothing applied before it in the
   batch touches its component: a batch invariant) and never late (clock invariant; a busy machine's occupied_till is the end of its
   PROCESSING record). With ev_work / ev_machine_outage / ev_machine_release this makes a completed operation's interval exactly the drawn
   duration plus the applied outage. SMP/Due.v *)
Theorem C02_timed_events_fire_exactly_when_due_along_every_run :
  forall (sigma : oracle) (i : inst) (fuel : nat) (x0 : state) (joker0 : Z) (ta : bool) (r : result) (m : mw)
         (a : Z) (r' : result) (m' : mw) (lg : mlog),
    inst_nonneg_b i = true ->
    clock_b x0 = true -> wfs_b i x0 = true -> fresh2_b i x0 = true -> nodep_b x0 = true -> pre_ok_b x0 = true ->
    reach sigma i fuel x0 joker0 ta r m -> mw_step sigma i fuel r m a = MOk r' m' lg -> chain_due (r_x r) lg.
Proof. intros sigma i fuel x0 joker0 ta r m a r' m' lg Hnn. apply (run_due_ok sigma i Hnn); auto. Qed.
Print Assumptions C02_timed_events_fire_exactly_when_due_along_every_run.

