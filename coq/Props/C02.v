(* theorems for C02 are being added (see SMP/) *)
From Coq Require Import List ZArith Bool.
Theorem C02_placeholder : True. Proof. exact I. Qed.
Print Assumptions C02_placeholder.
