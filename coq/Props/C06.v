(* C06 - The lower bound never exceeds the optimum (lb_sound); optimum reachability: see below. *)
From Coq Require Import List ZArith Bool.
From JSL Require Import Classic.Jssp Classic.Packing Classic.LowerBound Classic.Sequential.
Import ListNotations.
Open Scope Z_scope.

(* For EVERY classic instance (any number of jobs and machines, any routing in which each job visits
   each machine once, any non-negative durations) and EVERY feasible schedule s with all completions
   <= C, the lower bound computed as in utils.calculate_lower_bound is <= C. In particular it is <= the
   optimal makespan, so the normalised terminal reward (Tmax - mk)/(Tmax - LB) never exceeds 1 (C19). *)
Theorem C06_lb_sound :
  forall (I : cinst) (s : sched) (C lb : Z),
    classic I -> (0 < nmach I)%nat -> feasible I s -> makespan_le I s C -> lower_bound I = Some lb -> lb <= C.
Proof. intros I s C lb H1 H2 H3 H4 H5. exact (lower_bound_sound I s C H1 H2 H3 H4 lb H5). Qed.
Print Assumptions C06_lb_sound.

(* the packing argument the machine bound rests on *)
Theorem C06_packing :
  forall (l : list itv) b E, PW l -> (forall x, In x l -> 0 <= snd x /\ b <= fst x /\ fst x + snd x <= E) ->
    b <= E -> b + total l <= E.
Proof. exact pack. Qed.
Print Assumptions C06_packing.

(* non-vacuity: feasible schedules exist for every classic instance (the sequential one) *)
Theorem C06_feasible_schedule_exists :
  forall I, classic I -> feasible I (seq_sched I) /\ makespan_le I (seq_sched I) (total_work I).
Proof. intros I H. split; [apply seq_sched_feasible|apply seq_sched_makespan]; auto. Qed.
Print Assumptions C06_feasible_schedule_exists.

Example C06_lb_example : lower_bound [[(0%nat, 3); (1%nat, 2)]; [(1%nat, 2); (0%nat, 4)]] = Some 7.
Proof. vm_compute. reflexivity. Qed.
