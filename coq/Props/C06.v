(* C06 - The lower bound never exceeds the optimum (lb_sound); optimum reachability: see below. *)
From Coq Require Import List ZArith QArith Bool Lia.
From JSL Require Import Classic.Jssp Classic.Packing Classic.LowerBound Classic.Sequential Base.Res SM.Types SM.Util SM.Handler SM.Step SM.Middleware SM.Inv SM.ExampleShift SMP.Clock SMP.StepInv SMP.LiftSide SMP.OutputDone SMP.Reflect SMP.LiftProv SMP.ProvBatch SMP.Durations SMP.EndToEnd SMP.Makespan Obs.Reward Obs.RewardP.
Import ListNotations.
Open Scope Z_scope.

(* For EVERY classic instance (any number of jobs and machines, any routing in which each job visits
   each machine once, any non-negative durations) and EVERY feasible schedule s with all completions
   <= C, the lower bound computed as in utils.calculate_lower_bound is <= C. In particular it is <= the
   optimal makespan, so the normalised terminal reward (Tmax - mk)/(Tmax - LB) never exceeds 1 (C19). *)
Theorem C06_lb_sound :
  forall (I : cinst) (s : sched) (C lb : Z),
    classic I -> (0 < nmach I)%nat -> feasible I s -> makespan_le I s C -> lower_bound I = Some lb -> lb <= C.
Proof. intros I s C lb H1 H2 H3 H4 H5. exact (lower_bound_sound I s C H1 H2 H3 H4 lb H5). Qed.
Print Assumptions C06_lb_sound.

(* the packing argument the machine bound rests on *)
Theorem C06_packing :
  forall (l : list itv) b E, PW l -> (forall x, In x l -> 0 <= snd x /\ b <= fst x /\ fst x + snd x <= E) ->
    b <= E -> b + total l <= E.
Proof. exact pack. Qed.
Print Assumptions C06_packing.

(* non-vacuity: feasible schedules exist for every classic instance (the sequential one) *)
Theorem C06_feasible_schedule_exists :
  forall I, classic I -> feasible I (seq_sched I) /\ makespan_le I (seq_sched I) (total_work I).
Proof. intros I H. split; [apply seq_sched_feasible|apply seq_sched_makespan]; auto. Qed.
Print Assumptions C06_feasible_schedule_exists.

Example C06_lb_example : lower_bound [[(0%nat, 3); (1%nat, 2)]; [(1%nat, 2); (0%nat, 4)]] = Some 7.
Proof. vm_compute. reflexivity. Qed.

(* End to end (SMP/EndToEnd.v): the lower bound is below EVERY terminated run of the environment. For an instance whose
   job table is a classic instance I (every job visits every machine once, deterministic durations) and whose machine
   post-buffers are unordered (every classic instance the compiler produces), for EVERY run of the middleware - any
   action sequence, oracle, fuel, truncation setting, with AGVs, setup times and outages if configured - that ends
   with all work delivered: Taillard's bound of I is at most every upper bound C of the recorded completion times, in
   particular the reported makespan (C04_makespan_is_clock: the clock set to the latest completion). The proof shows
   that the operation records of the finished state form a feasible schedule of I: starts non-negative (no operation
   starts before the initial clock), job precedence and machine exclusivity with the CONFIGURED durations (C01's
   invariant with C02's: every record lasts at least its configured duration), all operations done (C04). Hence the
   optimum over all agent behaviours cannot be below the bound, and the terminal reward never exceeds its maximum. *)
Theorem C06_lower_bound_below_every_terminated_run_every_instance :
  forall (sigma : oracle) (i : inst) (fuel : nat) (x0 : state) (joker0 : Z) (ta : bool) (r : result) (m : mw)
         (I : cinst) (lb C : Z),
    inst_nonneg_b i = true ->
    clock_b x0 = true -> wfs_b i x0 = true -> fresh2_b i x0 = true -> nodep_b x0 = true -> (0 <= s_now x0)%Z ->
    cinst_rel i I -> classic I -> (0 < nmach I)%nat -> lower_bound I = Some lb ->
    reach sigma i fuel x0 joker0 ta r m -> all_in_output i (r_x r) = true ->
    (forall jb o e, In jb (s_jobs (r_x r)) -> In o (j_ops jb) -> o_end o = Time e -> (e <= C)%Z) ->
    (lb <= C)%Z.
Proof. intros sigma i fuel x0 joker0 ta r m I lb C Hnn. apply terminated_run_lower_bound; auto. Qed.
Print Assumptions C06_lower_bound_below_every_terminated_run_every_instance.

(* the same for the instance class of the earlier rounds (corollary) *)
Theorem C06_lower_bound_below_every_terminated_run_flex :
  forall (sigma : oracle) (i : inst) (fuel : nat) (x0 : state) (joker0 : Z) (ta : bool) (r : result) (m : mw)
         (I : cinst) (lb C : Z),
    inst_nonneg_b i = true -> flex_post_b i = true ->
    clock_b x0 = true -> wfs_b i x0 = true -> fresh2_b i x0 = true -> nodep_b x0 = true -> (0 <= s_now x0)%Z ->
    cinst_rel i I -> classic I -> (0 < nmach I)%nat -> lower_bound I = Some lb ->
    reach sigma i fuel x0 joker0 ta r m -> all_in_output i (r_x r) = true ->
    (forall jb o e, In jb (s_jobs (r_x r)) -> In o (j_ops jb) -> o_end o = Time e -> (e <= C)%Z) ->
    (lb <= C)%Z.
Proof. intros. eapply C06_lower_bound_below_every_terminated_run_every_instance; eauto. Qed.
Print Assumptions C06_lower_bound_below_every_terminated_run_flex.

(* non-vacuity: a compiled instance (AGV, outages) is related to a classic instance, satisfies the hypotheses, and its
   always-accept episode is a terminated run *)
Definition sh_classic : cinst := [[(1%nat, 1%Z); (0%nat, 0%Z)]; [(1%nat, 1%Z); (0%nat, 4%Z)]].
Example C06_end_to_end_hypotheses :
  cinst_rel sh_inst sh_classic /\ classic sh_classic /\ (0 < nmach sh_classic)%nat /\ lower_bound sh_classic = Some 5%Z
  /\ exists r m, reach sh_sigma sh_inst 200 sh_init0 3%Z true r m /\ all_in_output sh_inst (r_x r) = true.
Proof.
  split; [repeat constructor|]. split.
  - split; [discriminate|]. intros ops [<-|[<-|[]]]; (split; [reflexivity|]); (split; [repeat constructor; simpl; intuition discriminate|]);
      intros o [<-|[<-|[]]]; simpl; split; lia.
  - split; [simpl; lia|]. split; [vm_compute; reflexivity|].
    destruct (runG sh_sigma sh_inst side2 200 sh_init0 3%Z true [1;1;1;1;1]%Z) as [[r m]|] eqn:E; [|vm_compute in E; discriminate].
    exists r, m. split; [eapply reachG_reach; eapply runG_reach; exact E|]. vm_compute in E. inversion E; subst. vm_compute. reflexivity.
Qed.

(* ... in particular the REPORTED makespan: the clock of a terminated result is the latest completion (C04_clock_at_termination_is_the_latest_completion),
   so the bound is at most the time and info["makespan"] the environment reports, for every run of every instance that ends with all work delivered *)
Theorem C06_lower_bound_below_the_reported_makespan_every_instance :
  forall (sigma : oracle) (i : inst) (fuel : nat) (x0 : state) (joker0 : Z) (ta : bool) (r : result) (m : mw)
         (I : cinst) (lb : Z),
    inst_nonneg_b i = true ->
    clock_b x0 = true -> wfs_b i x0 = true -> fresh2_b i x0 = true -> nodep_b x0 = true -> (0 <= s_now x0)%Z ->
    cinst_rel i I -> classic I -> (0 < nmach I)%nat -> lower_bound I = Some lb ->
    reach sigma i fuel x0 joker0 ta r m -> all_in_output i (r_x r) = true ->
    (lb <= s_now (r_x r))%Z.
Proof.
  intros sigma i fuel x0 joker0 ta r m I lb Hnn C W Fr Dn Ht0 R Hcl Hnm Hlb H Hout.
  eapply C06_lower_bound_below_every_terminated_run_every_instance; eauto.
  exact (proj1 (terminated_clock_bounds_all_ends sigma i _ _ _ _ _ _ H Hout)).
Qed.
Print Assumptions C06_lower_bound_below_the_reported_makespan_every_instance.

(* ... and therefore the main term of the terminal reward, computed with that bound, never exceeds its nominal maximum 1 *)
Theorem C06_terminal_reward_never_exceeds_its_maximum :
  forall (sigma : oracle) (i : inst) (fuel : nat) (x0 : state) (joker0 : Z) (ta : bool) (r : result) (m : mw)
         (I : cinst) (lb : Z) (c : rcfg),
    inst_nonneg_b i = true ->
    clock_b x0 = true -> wfs_b i x0 = true -> fresh2_b i x0 = true -> nodep_b x0 = true -> (0 <= s_now x0)%Z ->
    cinst_rel i I -> classic I -> (0 < nmach I)%nat -> lower_bound I = Some lb ->
    reach sigma i fuel x0 joker0 ta r m -> all_in_output i (r_x r) = true ->
    rc_lb c = lb -> (rc_lb c < rc_tmax c)%Z ->
    (terminal_term c (s_now (r_x r)) <= 1)%Q.
Proof.
  intros sigma i fuel x0 joker0 ta r m I lb c Hnn C W Fr Dn Ht0 R Hcl Hnm Hlb H Hout Elb Hlt.
  apply terminal_term_le_one; auto. rewrite Elb.
  eapply C06_lower_bound_below_the_reported_makespan_every_instance; eauto.
Qed.
Print Assumptions C06_terminal_reward_never_exceeds_its_maximum.

