(* C17 - Compilation yields unique identifiers; initial-state settings are honoured; compilation is a
   function of the document (determinism across processes is decided by the harness). *)
From Coq Require Import List ZArith Bool.
From JSL Require Import Base.Res SM.Types SM.Util Dsl.Doc Dsl.DocP SM.Handler SM.Step SM.Inv.
Import ListNotations.

(* ID_Counter never hands out an identifier that is already in use *)
Theorem C17_new_id_fresh : forall ids, ~ In (new_id ids) ids.
Proof. exact new_id_fresh. Qed.
Print Assumptions C17_new_id_fresh.

(* all buffer identifiers of a compiled instance (custom, default input/output, pre/internal/post of
   every machine, AGV buffers) are pairwise different - for any number of machines, AGVs and custom
   buffer names *)
Theorem C17_buffer_ids_unique :
  forall d early i L, NoDup (map fst (d_bufs d)) -> compile_inst d early = Ok (i, L) -> NoDup (all_labels L).
Proof. exact labels_unique. Qed.
Print Assumptions C17_buffer_ids_unique.

(* a listed initial store keeps its order (it is a prefix of the buffer's initial contents) *)
Theorem C17_listed_store_order_kept :
  forall listed here, NoDup listed -> exists r, dedup_nat (listed ++ here) = listed ++ r.
Proof. exact listed_store_order_kept. Qed.
Print Assumptions C17_listed_store_order_kept.

(* compilation is a function: equal documents give equal results *)
Theorem C17_deterministic : forall d1 d2 early, d1 = d2 -> compile d1 early = compile d2 early.
Proof. intros; subst; reflexivity. Qed.

Example C17_example_labels :
  match compile_inst (mkDDoc [[(0%nat, 3%Z); (1%nat, 2%Z)]; [(1%nat, 2%Z); (0%nat, 4%Z)]] None None None
                        [(7%nat, mkBSpec (Some Fifo) (Some 2%Z) (Some RInput)); (3%nat, mkBSpec None None (Some ROutput))]
                        DMNone [] (mkDInit None [] [] [])) true with
  | Ok (_, L) => all_labels L = [7; 3; 2; 4; 5; 6; 8; 9; 10; 11]%nat
  | Err _ => False
  end.
Proof. vm_compute. reflexivity. Qed.

(* Every initial state the compiler model produces - for EVERY document it accepts - satisfies the hypotheses of
   the state-machine theorems that do not depend on where the document puts the jobs: nothing started, machines
   idle and empty, records routed as configured (fresh_b: hypothesis of C01), nothing pending in the past and no
   claims (clock_b: C12), every AGV empty (agv_load_b: C03); and the clock is the configured start time. *)
Theorem C17_initial_state_meets_hypotheses :
  forall (d : ddoc) (early : bool) (i : inst) (x : state) (L : labels),
    compile d early = Ok (i, x, L) ->
    fresh_b i x = true /\ clock_b x = true /\ agv_load_b x = true
    /\ s_now x = (match di_start (d_init d) with Some z => z | None => 0%Z end).
Proof.
  intros d early i x L H. unfold compile in H.
  destruct (compile_inst d early) as [[i0 L0]|] eqn:E; simpl in H; [|discriminate].
  destruct (init_state d i0 L0) as [x0|] eqn:E2; simpl in H; [|discriminate].
  inversion H; subst. eapply init_state_fresh; eauto.
Qed.
Print Assumptions C17_initial_state_meets_hypotheses.

(* ... and the further hypotheses of the run-level theorems that concern AGVs and outage records: no AGV starts with a time dependency, every AGV starts
   idle, empty and at a place, every outage record starts inactive - for every document the compiler model accepts. (Left to the per-episode check of
   the harness: the store clauses wfs_b, the output-buffer clause of fresh2_b and pre_ok_b - they depend on what init_state lists.) *)
Theorem C17_initial_state_meets_the_agv_and_outage_hypotheses :
  forall (d : ddoc) (early : bool) (i : inst) (x : state) (L : labels),
    compile d early = Ok (i, x, L) ->
    nodep_b x = true /\ agv_phase_b x = true /\ outages_b x && outage_nonneg_b x = true
    /\ forallb (fun ts => tstate_eqb (t_st ts) TIdle && is_nil (b_store (t_buf ts))) (s_trans x) = true.
Proof.
  intros d early i x L H. unfold compile in H.
  destruct (compile_inst d early) as [[i0 L0]|] eqn:E; simpl in H; [|discriminate].
  destruct (init_state d i0 L0) as [x0|] eqn:E2; simpl in H; [|discriminate].
  inversion H; subst. eapply init_state_more; eauto.
Qed.
Print Assumptions C17_initial_state_meets_the_agv_and_outage_hypotheses.

