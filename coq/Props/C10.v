(* theorems for C10 are being added (see SMP/) *)
From Coq Require Import List ZArith Bool.
Theorem C10_placeholder : True. Proof. exact I. Qed.
Print Assumptions C10_placeholder.
