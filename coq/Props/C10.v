(* C10 - Outages block a component for exactly their duration, then release it. *)
From Coq Require Import List ZArith Bool.
From JSL Require Import Base.Res Base.ListX SM.Types SM.Util SM.Handler SM.Step SM.Inv
  SMP.Post SMP.PostApply SMP.Offers SMP.Clock SM.Middleware SM.Example SMP.StepInv SMP.Clock SMP.Outages SM.Events SMP.Reflect SMP.LiftProv SMP.EventsRun SMP.Due.
From JSL Require Import SM.Events SMP.SampledOk.
Import ListNotations.

(* machine: blocked until now + longest active outage; the job stays inside (internal buffer untouched) *)
Theorem C10_machine_blocked_exact :
  forall sigma i x tr m ms x',
    tr_comp tr = CM m -> nth_error (s_machs x) m = Some ms -> m_st ms = MWorking ->
    apply_transition sigma i x tr = Ok x' ->
    exists mc outs sto' occ_for,
      nth_error (i_machs i) m = Some mc
      /\ new_outage_states sigma (s_now x) (s_sto x) (mc_out mc) (m_out ms) = Ok (outs, sto')
      /\ occupied_time outs = Ok occ_for
      /\ nth_error (s_machs x') m = Some (mkMachine MOutage (Time (s_now x + occ_for)%Z) (m_pre ms) (m_in ms) (m_post ms) (m_tool ms) outs).
Proof.
  intros sigma i x tr m ms x' Hc Hm Hst H.
  destruct (apply_machine sigma i x tr m ms x' Hc Hm H) as [[E _]|[[E _]|[[_ [_ Hh]]|[E _]]]]; try congruence.
  destruct (post_working_outage sigma i x tr m ms x' Hm Hh) as (mc & outs & sto' & occ & j & jb & k & o & A & B & C & _ & _ & _ & _ & D & _).
  exists mc, outs, sto', occ. auto.
Qed.
Print Assumptions C10_machine_blocked_exact.

(* sampled outages: untouched inactive records, or records starting now with non-negative length; the
   blocking time (their maximum) is never negative; a component with no outage due is blocked for 0 *)
Theorem C10_sampled_outages :
  forall sigma now cs sto os outs sto',
    sto_nonneg sto -> forallb (fun o => tc_nonneg (og_dur o)) cs = true ->
    new_outage_states sigma now sto cs os = Ok (outs, sto') ->
    Forall (oact_fresh now) outs /\ sto_nonneg sto'.
Proof. intros sigma now. exact (new_outage_states_ok sigma now). Qed.
Theorem C10_duration_nonneg :
  forall now outs v, Forall (oact_fresh now) outs -> occupied_time outs = Ok v -> (0 <= v)%Z.
Proof. exact occupied_time_nonneg. Qed.
Theorem C10_none_due : occupied_time [] = Ok 0%Z.
Proof. reflexivity. Qed.
Print Assumptions C10_sampled_outages.

(* release of a machine: idle again, every outage record inactive with its end remembered *)
Theorem C10_machine_release :
  forall sigma i x tr m ms x',
    tr_comp tr = CM m -> nth_error (s_machs x) m = Some ms -> m_st ms = MOutage ->
    apply_transition sigma i x tr = Ok x' ->
    exists ms', nth_error (s_machs x') m = Some ms' /\ m_st ms' = MIdle /\ m_out ms' = map release_outage (m_out ms).
Proof.
  intros sigma i x tr m ms x' Hc Hm Hst H.
  destruct (apply_machine sigma i x tr m ms x' Hc Hm H) as [[E _]|[[E _]|[[E _]|[_ [_ Hh]]]]]; try congruence.
  destruct (post_outage_idle i x tr m ms x' Hm Hh) as (j & jb & k & o & _ & _ & _ & _ & (ms' & A & B & C & _) & _).
  exists ms'. auto.
Qed.
Theorem C10_release_remembers_end :
  forall s e, release_outage (OActive s e) = OInactive e.
Proof. reflexivity. Qed.
Theorem C10_release_all_inactive :
  forall os, forallb oact_inactive (map release_outage os) = true.
Proof. induction os as [|[s e|l] os IH]; simpl; auto. Qed.
Print Assumptions C10_machine_release.

(* AGV: after a delivery it is blocked until now + longest active outage, claims nothing, stands at the
   destination *)
Theorem C10_agv_blocked_exact :
  forall sigma i x tr t ts x',
    nth_error (s_trans x) t = Some ts -> h_t_transit_outage sigma i x tr t ts = Ok x' ->
    exists ac outs sto' occ_for dst,
      nth_error (i_trans i) t = Some ac
      /\ new_outage_states sigma (s_now x) (s_sto x) (ac_out ac) (t_out ts) = Ok (outs, sto')
      /\ occupied_time outs = Ok occ_for
      /\ exists ts', nth_error (s_trans x') t = Some ts' /\ t_st ts' = TOutage /\ t_occ ts' = OAt (s_now x + occ_for)%Z
           /\ t_loc ts' = LAt dst /\ t_job ts' = None /\ t_out ts' = outs.
Proof.
  intros sigma i x tr t ts x' Ht H.
  destruct (post_deliver sigma i x tr t ts x' Ht H) as (j & jb & cur & src & dst & ac & B & outs & sto' & occ & _ & _ & _ & A & _ & C & D & (ts' & E1 & E2 & E3 & E4 & E5 & E6 & _) & _).
  exists ac, outs, sto', occ, dst. repeat split; auto. exists ts'. repeat split; auto.
Qed.
Print Assumptions C10_agv_blocked_exact.

(* a component in OUTAGE accepts nothing but the release *)
Theorem C10_outage_accepts_only_release :
  forall b, is_valid_transition machine_table (NM MOutage) (NM b) = true -> b = MIdle.
Proof. intros b H. destruct b; simpl in H; try discriminate; reflexivity. Qed.
Theorem C10_agv_outage_accepts_only_release :
  forall b, is_valid_transition transport_table (NT TOutage) (NT b) = true -> b = TIdle.
Proof. intros b H. destruct b; simpl in H; try discriminate; reflexivity. Qed.

(* Over whole runs: outside its OUTAGE phase every outage record of a machine or AGV is inactive (outages_b) and
   every active record has start <= end (outage_nonneg_b) - after every applied transition, in every state the
   environment reaches under any action sequence and in every micro-state on the way; for every instance with
   non-negative configured times and every oracle. No side condition. *)
Theorem C10_outage_records_one_transition :
  forall (sigma : oracle) (i : inst) (x : state) (tr : transition) (x' : state),
    inst_nonneg_b i = true -> clock_b x = true -> outages_b x && outage_nonneg_b x = true ->
    apply_transition sigma i x tr = Ok x' -> outages_b x' && outage_nonneg_b x' = true.
Proof.
  intros sigma i x tr x' Hnn C O H. apply OUT_iff. eapply apply_preserves_OUT; eauto.
  - apply ClockMain.NO_iff_clock_b; auto.
  - apply OUT_iff; auto.
Qed.
Print Assumptions C10_outage_records_one_transition.

Theorem C10_outage_records_reachable :
  forall (sigma : oracle) (i : inst) (fuel : nat) (x0 : state) (joker0 : Z) (ta : bool) (r : result) (m : mw),
    inst_nonneg_b i = true -> clock_b x0 = true -> outages_b x0 && outage_nonneg_b x0 = true ->
    reach sigma i fuel x0 joker0 ta r m -> outages_b (r_x r) && outage_nonneg_b (r_x r) = true.
Proof. intros. eapply reach_outages; eauto. Qed.
Print Assumptions C10_outage_records_reachable.

Theorem C10_outage_records_micro_states :
  forall (sigma : oracle) (i : inst) (fuel : nat) (x0 : state) (joker0 : Z) (ta : bool) (r : result) (m : mw)
         (a : Z) (r' : result) (m' : mw) (lg : mlog),
    inst_nonneg_b i = true -> clock_b x0 = true -> outages_b x0 && outage_nonneg_b x0 = true ->
    reach sigma i fuel x0 joker0 ta r m -> mw_step sigma i fuel r m a = MOk r' m' lg ->
    forall tr y, In (tr, y) lg -> outages_b y && outage_nonneg_b y = true.
Proof. intros. eapply reach_micro_outages; eauto. Qed.
Print Assumptions C10_outage_records_micro_states.

Example C10_hypotheses_satisfiable :
  inst_nonneg_b ex_inst = true /\ clock_b ex_state = true /\ outages_b ex_state && outage_nonneg_b ex_state = true.
Proof. vm_compute. repeat split. Qed.

(* the clause the monitors evaluate on every outage-sampling transition of the implementation (SM/Events.v sampled_ok: records
   untouched or started now with end >= start; for a deterministic frequency started exactly when due, for a deterministic
   duration lasting exactly that) is TRUE of what the model's sampler returns, for every configuration, state of the samplers
   and oracle - so it raises no alarm on behaviour that agrees with the model, and an alarm names a transition on which the
   implementation left a due outage out, started one that was not due, or blocked for another length *)
Theorem C10_sampling_clause_holds_of_the_model :
  forall sigma now cs sto os outs sto',
    sto_nonneg sto -> forallb (fun o => tc_nonneg (og_dur o)) cs = true ->
    new_outage_states sigma now sto cs os = Ok (outs, sto') -> sampled_ok now cs os outs = true.
Proof. exact new_outage_states_sampled_ok. Qed.
Print Assumptions C10_sampling_clause_holds_of_the_model.

(* over whole runs of every instance: at every WORKING -> OUTAGE of every micro-log the new outage records satisfy the sampling
   clause for the machine's configured outages (sampled_ok: started exactly when due for a deterministic frequency, exact
   length for a deterministic duration, untouched otherwise), the machine is blocked for exactly the longest active one and
   the operation's end extended by it (ev_machine_outage); releases remember the ends (ev_machine_release,
   ev_transport_release) *)
Theorem C10_outage_events_hold_along_every_run :
  forall (sigma : oracle) (i : inst) (fuel : nat) (x0 : state) (joker0 : Z) (ta : bool) (r : result) (m : mw)
         (a : Z) (r' : result) (m' : mw) (lg : mlog),
    inst_nonneg_b i = true ->
    clock_b x0 = true -> wfs_b i x0 = true -> fresh2_b i x0 = true -> nodep_b x0 = true -> pre_ok_b x0 = true ->
    reach sigma i fuel x0 joker0 ta r m -> mw_step sigma i fuel r m a = MOk r' m' lg -> chain_events i (r_x r) lg.
Proof. intros sigma i fuel x0 joker0 ta r m a r' m' lg Hnn. apply run_events_ok; auto. Qed.
Print Assumptions C10_outage_events_hold_along_every_run.

(* over whole runs of every instance: a machine's OUTAGE -> IDLE and an AGV's OUTAGE -> IDLE are applied exactly when the block computed from the
   longest active outage has elapsed (ev_due, SMP/Due.v) *)
Theorem C10_outage_ends_exactly_when_due_along_every_run :
  forall (sigma : oracle) (i : inst) (fuel : nat) (x0 : state) (joker0 : Z) (ta : bool) (r : result) (m : mw)
         (a : Z) (r' : result) (m' : mw) (lg : mlog),
    inst_nonneg_b i = true ->
    clock_b x0 = true -> wfs_b i x0 = true -> fresh2_b i x0 = true -> nodep_b x0 = true -> pre_ok_b x0 = true ->
    reach sigma i fuel x0 joker0 ta r m -> mw_step sigma i fuel r m a = MOk r' m' lg -> chain_due (r_x r) lg.
Proof. intros sigma i fuel x0 joker0 ta r m a r' m' lg Hnn. apply (run_due_ok sigma i Hnn); auto. Qed.
Print Assumptions C10_outage_ends_exactly_when_due_along_every_run.

