(* C13 - Same configuration, seed and actions give the same episode.
   What a theorem can carry: the seed plumbing (independence of the global generator state and of
   interleaved activity) and seed-irrelevance for instances without stochastic elements. Generator
   internals, interpreter hash randomisation and object sharing are decided by cross-process runs. *)
From Coq Require Import List ZArith Bool.
From JSL Require Import Base.Res SM.Types SM.Util SM.Handler SM.Step SM.Middleware SM.Example
  SMP.NoStoch Seed.SeedModel.
Import ListNotations.

(* a reset with a seed (given now or stored from before) re-seeds the global generators before the
   instance is compiled: the start seeds of the stochastic objects and the env's bookkeeping do not
   depend on the global generator state - for any generator (G, seeded, draw) *)
Theorem C13_reset_independent_of_global :
  forall (G : Type) (seeded : Z -> G) (draw : G -> Z * G) nsto e a g1 g2,
    seeded_env e a = true -> fst (reset G seeded draw nsto e a g1) = fst (reset G seeded draw nsto e a g2).
Proof. exact reset_independent_of_global. Qed.
Print Assumptions C13_reset_independent_of_global.

(* across any pattern of resets, with ARBITRARY interference on the global generators in between
   (other environment objects, user code): same start seeds in every episode, same final bookkeeping *)
Theorem C13_noninterference :
  forall (G : Type) (seeded : Z -> G) (draw : G -> Z * G) nsto args e noise1 noise2 g1 g2,
    (match args with a :: _ => seeded_env e a = true | [] => True end) ->
    fst (fst (run_resets G seeded draw nsto e args noise1 g1)) = fst (fst (run_resets G seeded draw nsto e args noise2 g2))
    /\ snd (fst (run_resets G seeded draw nsto e args noise1 g1)) = snd (fst (run_resets G seeded draw nsto e args noise2 g2)).
Proof. exact resets_independent. Qed.
Print Assumptions C13_noninterference.

(* for instances without stochastic elements the whole environment step is independent of the oracle,
   i.e. of every seed: any two oracles give the same result, for every state, action and fuel *)
Theorem C13_seed_irrelevant :
  forall s1 s2 i, no_stoch_b i = true ->
  forall fuel e a, env_step s1 i fuel e a = env_step s2 i fuel e a.
Proof. exact env_step_det. Qed.
Print Assumptions C13_seed_irrelevant.

Theorem C13_seed_irrelevant_step :
  forall s1 s2 i, no_stoch_b i = true ->
  forall fuel x trs tm, step s1 i fuel x trs tm = step s2 i fuel x trs tm.
Proof. exact step_det. Qed.

Example C13_no_stoch_satisfiable : no_stoch_b ex_inst = true.
Proof. vm_compute. reflexivity. Qed.
