(* theorems for C11 are being added (see SMP/) *)
From Coq Require Import List ZArith Bool.
Theorem C11_placeholder : True. Proof. exact I. Qed.
Print Assumptions C11_placeholder.
