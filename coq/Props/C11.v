(* C11 - No deadlock (partial): what is proved is the last sentence of the property, for every instance:
   with early transport disabled an AGV is only ever OFFERED a job that is ready for pickup; and offers
   are always applicable. Progress/liveness ("every non-terminal state offers a transition", "always-accept
   finishes") is refuted in the stated configuration class by the known findings (hang with an ordered
   standalone buffer, LIFO deadlock with early transport disabled) and otherwise decided by exploration. *)
From Coq Require Import List ZArith Bool.
From JSL Require Import Base.Res Base.ListX SM.Types SM.Util SM.Handler SM.Step SM.Inv SMP.Offers SM.ExampleDeadlock SM.ExampleUnready SM.Events SM.ExampleHang SM.Middleware SMP.Reflect Props.C05 Gen.Kernels Gen.KernelsEq SMP.StepInv SMP.LiftProv SMP.ProvBatch SMP.OffersValid SMP.Clock SMP.EventsRun SMP.ReadyOffer.
Import ListNotations.

Theorem C11_ready_only :
  forall i x l tr, i_early i = false -> get_possible_transport_transition i x = Ok l -> In tr l ->
    exists t ts j jb, tr = mkTr (CT t) (NT TWorking) (Some j)
      /\ nth_error (s_trans x) t = Some ts /\ t_st ts = TIdle
      /\ nth_error (s_jobs x) j = Some jb /\ is_ready i x j jb = Ok true.
Proof.
  intros i x l tr He H Hin. destruct (transport_offers_spec i x l tr H Hin) as [t [ts [j [jb [A [B [C [D [_ E]]]]]]]]].
  exists t, ts, j, jb. repeat split; auto.
Qed.
Print Assumptions C11_ready_only.

(* ready = lies in a post- or standalone buffer at the position the discipline releases *)
Theorem C11_ready_means :
  forall i x j jb, is_ready i x j jb = Ok true ->
    exists b c, get_buf x (j_loc jb) = Some b /\ get_bcfg i (j_loc jb) = Some c
      /\ (match j_loc jb with BStd _ | BPost _ => True | _ => False end)
      /\ is_correct_position (index_of j (b_store b)) (length (b_store b)) (bc_type c) = Ok true.
Proof.
  intros i x j jb H. unfold is_ready in H.
  destruct (get_buf x (j_loc jb)) as [b|]; simpl in H; [|discriminate].
  destruct (get_bcfg i (j_loc jb)) as [c|]; simpl in H; [|discriminate].
  destruct (is_correct_position _ _ _) as [cp|] eqn:E; simpl in H; [|discriminate].
  injection H as H1. apply andb_true_iff in H1. destruct H1 as [H1 H2]. subst cp.
  exists b, c. split; [reflexivity|]. split; [reflexivity|]. split; [|exact E].
  destruct (j_loc jb); try discriminate; exact I.
Qed.
Print Assumptions C11_ready_means.

Theorem C11_offers_applicable :
  forall i x offers tr, no_transport_ops_b x = true ->
    get_possible_transitions i x = Ok offers -> In tr offers -> is_transition_valid x tr = Ok true.
Proof. exact offers_are_valid. Qed.

(* C11_refuted: "inside the configuration class the offer list never becomes empty before the end, and always
   accepting finishes the instance" is FALSE of the faithful model. SM/ExampleDeadlock.v is a compiled document
   of the class (3 jobs, 2 machines, 1 AGV, LIFO post-buffers that can hold all jobs, early transport disabled):
   after reset and four accepted offers the state has no offers and is not terminal, and every further action
   raises - for every fuel. The implementation raises InvalidValue on the same five actions (known finding
   F-C11-deadlock-lifo-no-early; replayed by the C11 check on every run). *)
Definition dl_run (fuel : nat) (acts : list Z) : option (result * mw) :=
  match mw_reset dl_sigma dl_inst fuel dl_init 5%Z false (mkMw 5%Z 0 0 false) with
  | MOk r m _ =>
      fold_left (fun acc a => match acc with
                              | Some (r, m) => match mw_step dl_sigma dl_inst fuel r m a with
                                               | MOk r' m' _ => Some (r', m') | _ => None end
                              | None => None end) acts (Some (r, m))
  | _ => None
  end.

Theorem C11_refuted :
  i_early dl_inst = false /\
  exists r m, dl_run 200 [1; 1; 1; 1]%Z = Some (r, m)
    /\ wfs_b dl_inst (r_x r) = true /\ clock_b (r_x r) = true
    /\ r_offers r = [] /\ all_in_output dl_inst (r_x r) = false
    /\ forall fuel a, mw_step dl_sigma dl_inst fuel r m a = MRaise EInvalidValue.
Proof.
  split; [reflexivity|]. do 2 eexists. split; [vm_compute; reflexivity|].
  split; [vm_compute; reflexivity|]. split; [vm_compute; reflexivity|].
  split; [reflexivity|]. split; [vm_compute; reflexivity|]. intros fuel a. reflexivity.
Qed.
Print Assumptions C11_refuted.

(* The last sentence of the property - "with early transport disabled an AGV is only ever dispatched to a job that is ready for
   pickup" - is FALSE of the faithful model too. SM/ExampleUnready.v is a compiled document inside the class (3 jobs, every
   capacity 3, early transport disabled; zero travel times, LIFO post-buffers, zero-duration operations, a machine outage of
   length 2): after accept, accept, accept the agent declines the only offer - the dispatch of the AGV to job 1, which lies ready on
   top of machine 1's post-buffer while machine 1 sits out its outage with job 2 inside. The simulator jumps to the end of the outage
   and creates, from that one state, the release of job 2 and the zero-travel dispatch to job 1; it applies the release first, so
   job 2 lies on top of the LIFO post-buffer when the AGV is dispatched to job 1: not ready. Found while trying to prove the event
   clause ev_dispatch along every run (the readiness conjunct is a fact about the state the offer was computed in, and the batch
   invariant cannot carry it across a release); the implementation does the same on the same actions (known finding
   F-C11-teleport-dispatch-buried, replayed by the C11 check on every run). *)
Definition ur_prefix (fuel : nat) (acts : list Z) : option (result * mw) :=
  match mw_reset ur_sigma ur_inst fuel ur_init 5%Z false (mkMw 5%Z 0 0 false) with
  | MOk r m _ =>
      fold_left (fun acc a => match acc with
                              | Some (r, m) => match mw_step ur_sigma ur_inst fuel r m a with
                                               | MOk r' m' _ => Some (r', m') | _ => None end
                              | None => None end) acts (Some (r, m))
  | _ => None
  end.

Theorem C11_dispatch_only_to_ready_jobs_refuted :
  i_early ur_inst = false /\ wfs_b ur_inst ur_init = true /\ clock_b ur_init = true /\
  exists r m r' m' lg, ur_prefix 200 [1; 1; 1]%Z = Some (r, m)
    /\ length (r_offers r) = 1
    /\ mw_step ur_sigma ur_inst 200 r m 0%Z = MOk r' m' lg
    /\ scan_unready ur_inst (r_x r) lg = true.
Proof.
  split; [reflexivity|]. split; [vm_compute; reflexivity|]. split; [vm_compute; reflexivity|].
  destruct (ur_prefix 200 [1; 1; 1]%Z) as [[r m]|] eqn:E; [|vm_compute in E; discriminate].
  destruct (mw_step ur_sigma ur_inst 200 r m 0%Z) as [r' m' lg| | |] eqn:E2.
  - exists r, m, r', m', lg. split; [reflexivity|]. vm_compute in E. inversion E; subst. vm_compute in E2. inversion E2; subst.
    split; [vm_compute; reflexivity|]. split; [reflexivity|]. vm_compute. reflexivity.
  - vm_compute in E. inversion E; subst. vm_compute in E2. discriminate.
  - vm_compute in E. inversion E; subst. vm_compute in E2. discriminate.
  - vm_compute in E. inversion E; subst. vm_compute in E2. discriminate.
Qed.
Print Assumptions C11_dispatch_only_to_ready_jobs_refuted.

(* the non-terminating step of C05_refuted lies in the class too (FIFO standalone input buffer that holds all
   jobs, unordered post-buffers): always-accept does not finish there either *)
Theorem C11_refuted_hang :
  forall fuel, step hang_sigma hang_inst fuel hang_pre hang_trs TMJumpToEvent = SOutOfFuel.
Proof. exact C05_refuted_step. Qed.
Print Assumptions C11_refuted_hang.

(* the predicates on a job's operation records that decide what is offered (is_job_running, no_operation_idle,
   all_operations_done, the per-job done test) are the code's: regenerated from job_type_utils / core_utils on every run *)
Theorem C11_job_predicates_are_the_code's :
  forall i jb, gen_is_job_running jb = is_job_running jb /\ gen_no_operation_idle jb = no_operation_idle jb
               /\ gen_all_operations_done jb = all_operations_done jb /\ gen_job_is_done i jb = job_is_done i jb
               /\ gen_no_processing_operations jb = negb (is_job_running jb).
Proof.
  intros i jb. split; [apply gen_is_job_running_eq|]. split; [apply gen_no_operation_idle_eq|]. split; [apply gen_all_operations_done_eq|].
  split; [apply gen_job_is_done_eq|apply gen_no_processing_operations_eq].
Qed.
Print Assumptions C11_job_predicates_are_the_code's.

(* Over whole runs: every transition offered to the agent passes validation in the very state it is offered in, in every
   result reachable by any run of the middleware (instances whose machine post-buffers are unordered or of capacity one;
   SMP/OffersValid.v: the offers of a result are those of get_possible_transitions of its state, and that state satisfies
   the C01 invariant). What can still go wrong after a valid offer is accepted is the subject of the refutations above. *)
Theorem C11_every_offer_is_valid_in_every_run_every_instance :
  forall (sigma : oracle) (i : inst) (fuel : nat) (x0 : state) (joker0 : Z) (ta : bool) (r : result) (m : mw),
    inst_nonneg_b i = true ->
    clock_b x0 = true -> wfs_b i x0 = true -> fresh2_b i x0 = true -> nodep_b x0 = true ->
    reach sigma i fuel x0 joker0 ta r m ->
    forall tr, In tr (r_offers r) -> is_transition_valid (r_x r) tr = Ok true.
Proof. intros sigma i fuel x0 joker0 ta r m Hnn. apply run_offers_valid; auto. Qed.
Print Assumptions C11_every_offer_is_valid_in_every_run_every_instance.

(* the same for the instance class of the earlier rounds (corollary) *)
Theorem C11_every_offer_is_valid_in_every_run_flex :
  forall (sigma : oracle) (i : inst) (fuel : nat) (x0 : state) (joker0 : Z) (ta : bool) (r : result) (m : mw),
    inst_nonneg_b i = true -> flex_post_b i = true ->
    clock_b x0 = true -> wfs_b i x0 = true -> fresh2_b i x0 = true -> nodep_b x0 = true ->
    reach sigma i fuel x0 joker0 ta r m ->
    forall tr, In tr (r_offers r) -> is_transition_valid (r_x r) tr = Ok true.
Proof. intros. eapply C11_every_offer_is_valid_in_every_run_every_instance; eauto. Qed.
Print Assumptions C11_every_offer_is_valid_in_every_run_flex.

(* the readiness test ("at the position the buffer's discipline releases, in a post- or standalone buffer"), its negation
   used as the early-transport test, and the transportability test of the model ARE the implementation's: regenerated from
   buffer_type_utils.job_in_correct_buffer_for_pickup / is_job_ready_for_pickup_from_postbuffer and
   possible_transition_utils.is_early_transport / is_transportable on every run *)
Theorem C11_readiness_is_the_code's : forall i x jn jb, gen_is_ready i x jn jb = is_ready i x jn jb.
Proof. exact gen_is_ready_eq. Qed.
Print Assumptions C11_readiness_is_the_code's.

Theorem C11_early_transport_test_is_the_code's :
  forall i x jn jb, gen_is_early i x jn jb = (r <- is_ready i x jn jb ;; Ok (negb r)).
Proof. exact gen_is_early_eq. Qed.
Print Assumptions C11_early_transport_test_is_the_code's.

Theorem C11_transportability_is_the_code's : forall i x jb, gen_is_transportable i x jb = is_transportable i x jb.
Proof. exact gen_is_transportable_eq. Qed.
Print Assumptions C11_transportability_is_the_code's.

(* the test that decides whether a job's next operation may be offered at all (no PROCESSING record, an IDLE one left),
   regenerated from possible_transition_utils.is_job_next_operation_free and job_type_utils.group_operations_by_state *)
Theorem C11_next_operation_free_is_the_code's : forall jb, gen_is_job_next_operation_free jb = is_job_next_operation_free jb.
Proof. exact gen_is_job_next_operation_free_eq. Qed.
Print Assumptions C11_next_operation_free_is_the_code's.

(* the three finders of a job's next operation record (first not DONE - raising InvalidValue when there is none -, first IDLE, first PROCESSING),
   regenerated from job_type_utils *)
Theorem C11_next_operation_finders_are_the_code's : forall jb,
  gen_first_not_done jb = first_not_done jb /\ gen_first_idle jb = first_idle jb /\ gen_first_proc jb = first_proc jb.
Proof. exact gen_first_ops_eq. Qed.
Print Assumptions C11_next_operation_finders_are_the_code's.

(* what IS true of every dispatch of every run of every instance: every IDLE -> WORKING of an AGV in the micro-log of any decision names an
   unclaimed job, takes exactly travel(where the AGV stands -> where the job lies) to get there, records the route to the machine of the
   job's next idle operation (or the output buffer) and claims the job - the whole clause ev_dispatch - unless its readiness conjunct
   (early transport allowed, or the job ready for pickup in that state) is false; that it CAN be false with early transport disabled is
   C11_dispatch_only_to_ready_jobs_refuted above. chain_events carries this disjunction for every entry, next to the nine event clauses
   that hold outright (SMP/EventsOk.v apply_ev_dispatch, SMP/EventsRun.v). *)
Theorem C11_dispatch_clause_holds_up_to_readiness_along_every_run :
  forall (sigma : oracle) (i : inst) (fuel : nat) (x0 : state) (joker0 : Z) (ta : bool) (r : result) (m : mw)
         (a : Z) (r' : result) (m' : mw) (lg : mlog),
    inst_nonneg_b i = true ->
    clock_b x0 = true -> wfs_b i x0 = true -> fresh2_b i x0 = true -> nodep_b x0 = true -> pre_ok_b x0 = true ->
    reach sigma i fuel x0 joker0 ta r m -> mw_step sigma i fuel r m a = MOk r' m' lg -> chain_events i (r_x r) lg.
Proof. intros sigma i fuel x0 joker0 ta r m a r' m' lg Hnn. apply run_events_ok; auto. Qed.
Print Assumptions C11_dispatch_clause_holds_up_to_readiness_along_every_run.

(* ... and the part of that sentence that is TRUE, without any hypothesis on the run: every dispatch OFFERED to the agent names a job that is ready for
   pickup (or early transport is allowed) in the state the offer is presented in - which is the state an accepted offer is applied in (mw_step hands
   [tr] to state.step, which applies it first, to r_x r). The offers of every reachable result are offers computed from its own state
   (reach_offers: fresh after a step, a tail of them after a decline that keeps the state). So the refuted case is confined to dispatches the
   simulator applies by itself (zero travel time) after other transitions of the same batch. SMP/ReadyOffer.v *)
Theorem C11_offered_dispatches_name_ready_jobs :
  forall (sigma : oracle) (i : inst) (fuel : nat) (x0 : state) (joker0 : Z) (ta : bool) (r : result) (m : mw) (tr : transition),
    reach sigma i fuel x0 joker0 ta r m -> In tr (r_offers r) -> tr_new tr = NT TWorking ->
    dispatch_ready_conj i (r_x r) tr = true.
Proof. intros. eapply offered_dispatches_are_ready; eauto. Qed.
Print Assumptions C11_offered_dispatches_name_ready_jobs.

