(* C01 - Every schedule the simulator produces is a feasible job-shop schedule.
   Statements only; proofs live in SMP/FeasView.v (the invariant on views), SMP/Feasible.v (handlers),
   SMP/FeasSound.v (the boolean clause), SMP/FeasStep.v (state.step, middleware, reachable states). *)
From Coq Require Import List ZArith Bool.
From JSL Require Import Base.Res SM.Types SM.Util SM.Handler SM.Step SM.Middleware SM.Inv SM.Example
  SMP.Clock SMP.ClockMain SMP.FeasView SMP.Feasible SMP.FeasSound SMP.FeasStep Dsl.Doc Dsl.DocP SM.ExampleShift SM.ExampleDeadlock SMP.StepInv SMP.LiftSide SMP.OutputDone SMP.Reflect SMP.LiftProv SMP.ProvBatch.
Import ListNotations.

(* feasible_b (SM/Inv.v), the clause the monitors evaluate on every state of the implementation: per job
   the records read DONE* PROCESSING? IDLE*, start <= end, consecutive non-idle records do not overlap
   (precedence in technological order), each record names the machine the instance configures; per machine
   no two non-idle records overlap (one operation at a time).

   C01_initial: the compiler's initial states are feasible (and satisfy the inductive invariant FE). *)
Theorem C01_initial :
  forall (i : inst) (x : state), fresh_b i x = true -> FE i x /\ feasible_b i x = true.
Proof. intros i x H. split; [apply fresh_FE; auto|apply FE_feasible; apply fresh_FE; auto]. Qed.
Print Assumptions C01_initial.

(* the inductive invariant implies the clause *)
Theorem C01_invariant_implies_feasible : forall (i : inst) (x : state), FE i x -> feasible_b i x = true.
Proof. exact FE_feasible. Qed.
Print Assumptions C01_invariant_implies_feasible.

(* One applied transition, any instance with non-negative configured times, any oracle (seed), any state
   satisfying the clock invariant (C12) and FE, any transition that state.step validated:
   FE survives. The single side condition (transit_side_b, read in the post-state) says that an AGV did
   not take a job whose operation is in process; it is needed for transitions handed to state.step
   directly (the validator only checks the AGV's phase) and is evaluated by the monitors on every
   transition the implementation applies. *)
Theorem C01_one_transition_partial :
  forall (sigma : oracle) (i : inst) (x : state) (tr : transition) (x' : state),
    inst_nonneg_b i = true -> clock_b x = true -> FE i x ->
    is_transition_valid x tr = Ok true -> apply_transition sigma i x tr = Ok x' ->
    transit_side_b tr x' = true ->
    FE i x' /\ feasible_b i x' = true.
Proof.
  intros sigma i x tr x' Hnn C F Hv Ha Hs. apply NO_iff_clock_b in C.
  assert (F' : FE i x') by (eapply apply_preserves_FE; eauto). split; [exact F'|apply FE_feasible; exact F'].
Qed.
Print Assumptions C01_one_transition_partial.

(* Every state the environment reaches from a compiled initial state under ANY accept/decline sequence of
   ANY length, any truncation setting and loop fuel is a feasible schedule, as long as the side condition
   held for the transitions applied on the way (reachS = reach + side condition per micro-log).
   Full statement (C01 without the side condition) is NOT proved: it needs the further invariant that a
   claimed job stays where it was claimed until its AGV arrives, which the middleware's offers guarantee
   but arbitrary state.step inputs do not. *)
Theorem C01_reachable_partial :
  forall (sigma : oracle) (i : inst) (fuel : nat) (x0 : state) (joker0 : Z) (ta : bool) (r : result) (m : mw),
    inst_nonneg_b i = true -> clock_b x0 = true -> fresh_b i x0 = true ->
    reachS sigma i fuel x0 joker0 ta r m -> feasible_b i (r_x r) = true.
Proof. intros. eapply reachS_feasible; eauto. Qed.
Print Assumptions C01_reachable_partial.

(* ... and every micro-state between two applied transitions of the next decision *)
Theorem C01_micro_states_partial :
  forall (sigma : oracle) (i : inst) (fuel : nat) (x0 : state) (joker0 : Z) (ta : bool) (r : result) (m : mw)
         (a : Z) (r' : result) (m' : mw) (lg : mlog),
    inst_nonneg_b i = true -> clock_b x0 = true -> fresh_b i x0 = true ->
    reachS sigma i fuel x0 joker0 ta r m -> mw_step sigma i fuel r m a = MOk r' m' lg -> sides lg ->
    forall tr y, In (tr, y) lg -> feasible_b i y = true.
Proof. intros. eapply reachS_micro_feasible; eauto. Qed.
Print Assumptions C01_micro_states_partial.

(* multi-transition actions through state.step directly *)
Theorem C01_step_partial :
  forall (sigma : oracle) (i : inst) (fuel : nat) (x0 : state) (trs : list transition) (tm : tmachine)
         (x' : state) (offers : list transition) (lg : mlog),
    inst_nonneg_b i = true -> tm <> TMJumpByOne -> clock_b x0 = true -> FE i x0 ->
    step sigma i fuel x0 trs tm = SOk x' offers lg -> sides lg ->
    feasible_b i x' = true /\ forall tr y, In (tr, y) lg -> feasible_b i y = true.
Proof.
  intros sigma i fuel x0 trs tm x' offers lg Hnn Htm C F Hs Hsd. apply NO_iff_clock_b in C.
  destruct (step_FE sigma i Hnn _ _ _ _ _ _ _ Htm C F Hs Hsd) as [L [xq [Nq [Fq [E|[_ [z E]]]]]]]; subst x'.
  - split; [apply FE_feasible; auto|]. intros tr y Hin. apply FE_feasible. apply (L _ _ Hin).
  - split; [rewrite feasible_set_now; apply FE_feasible; auto|]. intros tr y Hin. apply FE_feasible. apply (L _ _ Hin).
Qed.
Print Assumptions C01_step_partial.

(* End to end on the models: for EVERY document the compiler model accepts (non-negative configured times),
   every state the environment model reaches from the compiled initial state is a feasible schedule - the
   hypotheses on the initial state are discharged by C17_initial_state_meets_hypotheses. *)
Theorem C01_from_document_partial :
  forall (sigma : oracle) (d : ddoc) (early : bool) (i : inst) (x0 : state) (L : labels)
         (fuel : nat) (joker0 : Z) (ta : bool) (r : result) (m : mw),
    compile d early = Ok (i, x0, L) -> inst_nonneg_b i = true ->
    reachS sigma i fuel x0 joker0 ta r m -> feasible_b i (r_x r) = true.
Proof.
  intros sigma d early i x0 L fuel joker0 ta r m Hc Hnn Hr. unfold compile in Hc.
  destruct (compile_inst d early) as [[i0 L0]|] eqn:E; simpl in Hc; [|discriminate].
  destruct (init_state d i0 L0) as [x1|] eqn:E2; simpl in Hc; [|discriminate].
  inversion Hc; subst. destruct (init_state_fresh _ _ _ _ E2) as [F [C _]].
  eapply reachS_feasible; eauto.
Qed.
Print Assumptions C01_from_document_partial.

(* C01 WITHOUT any side condition for every instance whose machine post-buffers are unordered (flex_post_b: FLEX, the
   compiler's default for every buffer, or of capacity one): every state the environment reaches from an initial state (jobs not
   started, machines and AGVs idle and empty, no unfinished job in an output buffer, no AGV waiting on a time
   dependency: all boolean, all evaluated on the compiled initial states by the check) under ANY accept/decline
   sequence of ANY length, any oracle, fuel and truncation setting is a feasible schedule - and so is every
   micro-state. The side condition is DERIVED (SMP/Prov.v, LiftProv.v, ProvBatch.v): every -> TRANSIT transition the
   simulator applies was created in the first state of its batch for the AGV's own claim and a job lying in a
   post- or standalone buffer, and no transition applied before it in that batch can change either fact. For
   ordered (FIFO/LIFO/DUMMY) machine post-buffers the statement above (C01_reachable_partial) remains. *)
Theorem C01_reachable_every_instance :
  forall (sigma : oracle) (i : inst) (fuel : nat) (x0 : state) (joker0 : Z) (ta : bool) (r : result) (m : mw),
    inst_nonneg_b i = true ->
    clock_b x0 = true -> wfs_b i x0 = true -> fresh2_b i x0 = true -> nodep_b x0 = true ->
    reach sigma i fuel x0 joker0 ta r m -> feasible_b i (r_x r) = true.
Proof. intros sigma i fuel x0 joker0 ta r m Hnn C W Fr D H. destruct (run_reachable sigma i Hnn _ _ _ _ _ _ C W Fr D H) as [A _]. exact A. Qed.
Print Assumptions C01_reachable_every_instance.

(* the same for the instance class of the earlier rounds (corollary) *)
Theorem C01_reachable_flex :
  forall (sigma : oracle) (i : inst) (fuel : nat) (x0 : state) (joker0 : Z) (ta : bool) (r : result) (m : mw),
    inst_nonneg_b i = true -> flex_post_b i = true ->
    clock_b x0 = true -> wfs_b i x0 = true -> fresh2_b i x0 = true -> nodep_b x0 = true ->
    reach sigma i fuel x0 joker0 ta r m -> feasible_b i (r_x r) = true.
Proof. intros sigma i fuel x0 joker0 ta r m Hnn Hf C W Fr D H. eapply flex_reachable; eauto. Qed.
Print Assumptions C01_reachable_flex.

Theorem C01_micro_states_every_instance :
  forall (sigma : oracle) (i : inst) (fuel : nat) (x0 : state) (joker0 : Z) (ta : bool) (r : result) (m : mw)
         (a : Z) (r' : result) (m' : mw) (lg : mlog),
    inst_nonneg_b i = true ->
    clock_b x0 = true -> wfs_b i x0 = true -> fresh2_b i x0 = true -> nodep_b x0 = true ->
    reach sigma i fuel x0 joker0 ta r m -> mw_step sigma i fuel r m a = MOk r' m' lg ->
    forall tr y, In (tr, y) lg -> feasible_b i y = true /\ transit_side_b tr y = true.
Proof.
  intros sigma i fuel x0 joker0 ta r m a r' m' lg Hnn C W Fr D H Hm tr y Hin.
  destruct (run_micro_states sigma i Hnn _ _ _ _ _ _ _ _ _ _ C W Fr D H Hm _ _ Hin) as [A [_ [_ S]]].
  split; [exact A|]. apply side2_parts in S. tauto.
Qed.
Print Assumptions C01_micro_states_every_instance.

(* the same for the instance class of the earlier rounds (corollary) *)
Theorem C01_micro_states_flex :
  forall (sigma : oracle) (i : inst) (fuel : nat) (x0 : state) (joker0 : Z) (ta : bool) (r : result) (m : mw)
         (a : Z) (r' : result) (m' : mw) (lg : mlog),
    inst_nonneg_b i = true -> flex_post_b i = true ->
    clock_b x0 = true -> wfs_b i x0 = true -> fresh2_b i x0 = true -> nodep_b x0 = true ->
    reach sigma i fuel x0 joker0 ta r m -> mw_step sigma i fuel r m a = MOk r' m' lg ->
    forall tr y, In (tr, y) lg -> feasible_b i y = true /\ transit_side_b tr y = true.
Proof.
  intros sigma i fuel x0 joker0 ta r m a r' m' lg Hnn Hf C W Fr D H Hm tr y Hin.
  destruct (flex_micro_states sigma i Hnn Hf _ _ _ _ _ _ _ _ _ _ C W Fr D H Hm _ _ Hin) as [A [_ [_ [_ S]]]].
  split; [exact A|]. apply side2_parts in S. tauto.
Qed.
Print Assumptions C01_micro_states_flex.

(* every run is a run with the side condition: the partial theorems above apply to every run of such instances *)
Theorem C01_side_condition_derived_every_instance :
  forall (sigma : oracle) (i : inst) (fuel : nat) (x0 : state) (joker0 : Z) (ta : bool) (r : result) (m : mw),
    inst_nonneg_b i = true ->
    clock_b x0 = true -> wfs_b i x0 = true -> fresh2_b i x0 = true -> nodep_b x0 = true ->
    reach sigma i fuel x0 joker0 ta r m -> reachS2 sigma i fuel x0 joker0 ta r m.
Proof.
  intros sigma i fuel x0 joker0 ta r m Hnn C W Fr D H. apply NO_iff_clock_b in C.
  eapply reach_side2; eauto; [apply J_init; auto|apply BI_init; auto].
Qed.
Print Assumptions C01_side_condition_derived_every_instance.

(* the same for the instance class of the earlier rounds (corollary) *)
Theorem C01_side_condition_derived_flex :
  forall (sigma : oracle) (i : inst) (fuel : nat) (x0 : state) (joker0 : Z) (ta : bool) (r : result) (m : mw),
    inst_nonneg_b i = true -> flex_post_b i = true ->
    clock_b x0 = true -> wfs_b i x0 = true -> fresh2_b i x0 = true -> nodep_b x0 = true ->
    reach sigma i fuel x0 joker0 ta r m -> reachS2 sigma i fuel x0 joker0 ta r m.
Proof. intros. eapply C01_side_condition_derived_every_instance; eauto. Qed.
Print Assumptions C01_side_condition_derived_flex.

(* the executable side condition implies the one in the theorems *)
Theorem C01_sides_reflect : forall lg, sides_b lg = true -> sides lg.
Proof. exact sides_b_sound. Qed.
Print Assumptions C01_sides_reflect.

(* non-vacuity: the compiled initial state of a real instance satisfies the hypotheses; a mid-episode
   state with operations DONE and PROCESSING is reachable WITH the side condition (runS checks it on
   every micro-log) and is feasible *)
Example C01_hypotheses_satisfiable :
  inst_nonneg_b ex_inst = true /\ clock_b ex_state = true /\ fresh_b ex_inst ex_state = true.
Proof. vm_compute. repeat split. Qed.
Example C01_reachable_nontrivial :
  exists r m, runS ex_sigma ex_inst 100 ex_state 3%Z true [1;1;1;0;1]%Z = Some (r, m)
              /\ feasible_b ex_inst (r_x r) = true
              /\ existsb (fun jb => existsb (is_ostate ODone) (j_ops jb)) (s_jobs (r_x r)) = true.
Proof. vm_compute. eexists; eexists; repeat split. Qed.

(* non-vacuity of the flex theorems: a compiled instance with AGV, outages and unordered post-buffers satisfies
   every hypothesis, and its always-accept episode is a run (reach) that ends with all work done *)
Example C01_flex_hypotheses_satisfiable :
  inst_nonneg_b sh_inst = true /\ flex_post_b sh_inst = true /\ clock_b sh_init0 = true /\ wfs_b sh_inst sh_init0 = true
  /\ fresh2_b sh_inst sh_init0 = true /\ nodep_b sh_init0 = true.
Proof. vm_compute. repeat split. Qed.
Example C01_flex_run_nontrivial :
  exists r m, reach sh_sigma sh_inst 200 sh_init0 3%Z true r m
              /\ existsb (fun jb => existsb (is_ostate ODone) (j_ops jb)) (s_jobs (r_x r)) = true.
Proof.
  destruct (runG sh_sigma sh_inst side2 200 sh_init0 3%Z true [1;1;1;1]%Z) as [[r m]|] eqn:E; [|vm_compute in E; discriminate].
  exists r, m. split; [eapply reachG_reach; eapply runG_reach; exact E|]. vm_compute in E. inversion E; subst. vm_compute. reflexivity.
Qed.

(* non-vacuity of the *_every_instance theorems outside the earlier class: an instance with LIFO machine post-buffers
   (flex_post_b false) meets the hypotheses, and its always-accept run reaches a state in which an AGV waits on a
   TimeDependency (nodep_b false) - the situation the invariant DEPI of SMP/ProvBatch.v is about *)
Example C01_every_instance_nontrivial :
  inst_nonneg_b dl_inst = true /\ flex_post_b dl_inst = false /\ clock_b dl_init = true /\ wfs_b dl_inst dl_init = true
  /\ fresh2_b dl_inst dl_init = true /\ nodep_b dl_init = true
  /\ exists r m, reach dl_sigma dl_inst 200 dl_init 5%Z false r m /\ nodep_b (r_x r) = false /\ feasible_b dl_inst (r_x r) = true.
Proof.
  repeat (split; [vm_compute; reflexivity|]).
  destruct (runG dl_sigma dl_inst side2 200 dl_init 5%Z false [1;1;1;1]%Z) as [[r m]|] eqn:E; [|vm_compute in E; discriminate].
  exists r, m. split; [eapply reachG_reach; eapply runG_reach; exact E|]. vm_compute in E. inversion E; subst. vm_compute. split; reflexivity.
Qed.
