(* theorems for C01 are being added (see SMP/) *)
From Coq Require Import List ZArith Bool.
Theorem C01_placeholder : True. Proof. exact I. Qed.
Print Assumptions C01_placeholder.
