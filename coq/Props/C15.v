(* C15 - Observations identify the pending offer; faithful encoding of the state. *)
From Coq Require Import List ZArith QArith Bool.
From JSL Require Import Base.Res SM.Types SM.Util SM.Handler SM.Step SM.Middleware SM.Example
  Obs.ObsModel Obs.ObsP.
Import ListNotations.

(* two offers with equal encodings have the same component and the same job (exact rationals; float32
   rounding keeps them apart while #components, #jobs < 2^23 - not proved, exercised by the harness) *)
Theorem C15_offer_injective :
  forall i nj tr1 tr2 a1 b1 c1 a2 b2 c2,
    valid_offer nj tr1 -> valid_offer nj tr2 ->
    encode_offer i nj tr1 = Ok (a1, b1, c1) -> encode_offer i nj tr2 = Ok (a2, b2, c2) ->
    a1 == a2 -> b1 == b2 -> c1 == c2 -> tr_comp tr1 = tr_comp tr2 /\ tr_job tr1 = tr_job tr2.
Proof. exact encode_injective. Qed.
Print Assumptions C15_offer_injective.

(* ... and an offer of the state machine is determined by its component and job *)
Theorem C15_offers_shape :
  forall i x offers, get_possible_transitions i x = Ok offers -> Forall offer_shape offers.
Proof. exact offers_shape. Qed.
Theorem C15_offer_determined :
  forall tr1 tr2, offer_shape tr1 -> offer_shape tr2 -> tr_comp tr1 = tr_comp tr2 -> tr_job tr1 = tr_job tr2 -> tr1 = tr2.
Proof. exact offers_determined_by_comp_job. Qed.
Print Assumptions C15_offers_shape.

(* the observation is a function of (state, offers): immediate in Gallina; its fields are, by definition
   of make_simple, the independent reading indexed by job and machine number: *)
Theorem C15_job_running_reads_state :
  forall i tmax x o k jb, make_simple i tmax x = Ok o -> nth_error (s_jobs x) k = Some jb ->
    nth_error (ob_job_running o) k = Some (b2z (is_job_running jb)).
Proof.
  intros i tmax x o k jb H Hk. unfold make_simple in H. destruct (tmax =? 0)%Z; [discriminate|].
  inversion H; subst; simpl. rewrite nth_error_map, Hk. reflexivity.
Qed.
Theorem C15_job_progression_reads_state :
  forall i tmax x o k jb, make_simple i tmax x = Ok o -> nth_error (s_jobs x) k = Some jb ->
    nth_error (ob_job_progression o) k = Some (countb (is_ostate ODone) (j_ops jb)).
Proof.
  intros i tmax x o k jb H Hk. unfold make_simple in H. destruct (tmax =? 0)%Z; [discriminate|].
  inversion H; subst; simpl. rewrite nth_error_map, Hk. reflexivity.
Qed.
Theorem C15_machine_running_reads_state :
  forall i tmax x o k ms, make_simple i tmax x = Ok o -> nth_error (s_machs x) k = Some ms ->
    nth_error (ob_machine_running o) k = Some (b2z (mstate_eqb (m_st ms) MWorking)).
Proof.
  intros i tmax x o k ms H Hk. unfold make_simple in H. destruct (tmax =? 0)%Z; [discriminate|].
  inversion H; subst; simpl. rewrite nth_error_map, Hk. reflexivity.
Qed.
Print Assumptions C15_job_running_reads_state.
