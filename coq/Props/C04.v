(* C04 - Episodes end exactly when all work is delivered and report the true makespan. *)
From Coq Require Import List ZArith Bool.
From JSL Require Import Base.Res SM.Types SM.Util SM.Handler SM.Step SM.Middleware SMP.Decline.
Import ListNotations.

Theorem C04_done_raises :
  forall sigma i fuel e a, env_done e = true -> env_step sigma i fuel e a = ERaise EEnvDone.
Proof. exact env_done_raises. Qed.
Print Assumptions C04_done_raises.

Theorem C04_exclusive :
  forall sigma i fuel e a e' lg, env_ok e -> env_step sigma i fuel e a = EOk e' lg -> e_term e' && e_trunc e' = false.
Proof. exact env_flags_exclusive. Qed.
Print Assumptions C04_exclusive.

Theorem C04_env_ok_preserved :
  forall sigma i fuel e a e' lg, env_ok e -> env_step sigma i fuel e a = EOk e' lg -> env_done e' = false -> env_ok e'.
Proof. exact env_ok_preserved. Qed.

Theorem C04_term_flag :
  forall sigma i fuel e a e' lg, env_step sigma i fuel e a = EOk e' lg ->
    e_trunc e' = false \/ e_hist e' = S (e_hist e) -> e_hist e' = S (e_hist e) ->
    e_term e' = all_in_output i (r_x (e_res e')).
Proof. exact env_term_flag. Qed.
Print Assumptions C04_term_flag.

Theorem C04_makespan_is_clock :
  forall e, e_term e = true -> env_makespan e = Some (s_now (r_x (e_res e))).
Proof. exact env_makespan_is_clock. Qed.
Print Assumptions C04_makespan_is_clock.
