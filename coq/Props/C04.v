(* C04 - Episodes end exactly when all work is delivered and report the true makespan. *)
From Coq Require Import List ZArith Bool.
From JSL Require Import Base.Res SM.Types SM.Util SM.Handler SM.Step SM.Middleware SM.Inv SM.Example SMP.Decline SMP.Clock SMP.LiftSide SMP.OutputDone SMP.StepInv SMP.Reflect SMP.LiftProv SMP.ProvBatch Gen.Kernels Gen.KernelsEq SMP.Makespan.
Import ListNotations.

Theorem C04_done_raises :
  forall sigma i fuel e a, env_done e = true -> env_step sigma i fuel e a = ERaise EEnvDone.
Proof. exact env_done_raises. Qed.
Print Assumptions C04_done_raises.

Theorem C04_exclusive :
  forall sigma i fuel e a e' lg, env_ok e -> env_step sigma i fuel e a = EOk e' lg -> e_term e' && e_trunc e' = false.
Proof. exact env_flags_exclusive. Qed.
Print Assumptions C04_exclusive.

Theorem C04_env_ok_preserved :
  forall sigma i fuel e a e' lg, env_ok e -> env_step sigma i fuel e a = EOk e' lg -> env_done e' = false -> env_ok e'.
Proof. exact env_ok_preserved. Qed.

Theorem C04_term_flag :
  forall sigma i fuel e a e' lg, env_step sigma i fuel e a = EOk e' lg ->
    e_trunc e' = false \/ e_hist e' = S (e_hist e) -> e_hist e' = S (e_hist e) ->
    e_term e' = all_in_output i (r_x (e_res e')).
Proof. exact env_term_flag. Qed.
Print Assumptions C04_term_flag.

(* what the flag says, for EVERY instance and initial state (after fix 7fd110d; before it the flag read the locations
   only, and a job that STARTED in an output buffer with pending operations made it true - the hypothesis fresh2_b of
   the theorems below excluded exactly that, see DESIGN.md 9.4) *)
Theorem C04_flag_means_delivered_and_done :
  forall (i : inst) (x : state),
    all_in_output i x = true <->
    (forall jb, In jb (s_jobs x) -> is_output i (j_loc jb) = true /\ all_operations_done jb = true).
Proof.
  intros i x. unfold all_in_output. rewrite forallb_forall. split; intros H jb Hin; specialize (H jb Hin).
  - apply andb_true_iff in H. exact H.
  - apply andb_true_iff. exact H.
Qed.
Print Assumptions C04_flag_means_delivered_and_done.

(* ... and that test is the code's: gen_is_done is REGENERATED from core_utils.is_done / job_type_utils.all_operations_done /
   buffer_type_utils.get_output_buffers of /repo on every run (harness/translate_kernels.py, fail closed) *)
Theorem C04_termination_test_is_the_code's : forall i x, gen_is_done i x = all_in_output i x.
Proof. exact gen_is_done_eq. Qed.
Print Assumptions C04_termination_test_is_the_code's.

Theorem C04_makespan_is_clock :
  forall e, e_term e = true -> env_makespan e = Some (s_now (r_x (e_res e))).
Proof. exact env_makespan_is_clock. Qed.
Print Assumptions C04_makespan_is_clock.

(* "terminated => every operation of every job is done": a job lying in an OUTPUT buffer has all its
   operations done (output_done_b) in every state reachable from a compiled initial state (fresh2_b) under any
   action sequence, so a state in which every job lies in an output buffer (= the terminated flag, C04_term_flag)
   has finished all work. PARTIAL: two side conditions on the applied TRANSIT transitions (reachS2 = reach with
   side2 on every micro-log): the job an AGV takes is not in process (transit_side_b) and is the job it claimed
   (transit_claim_b); both are evaluated by the monitors on every transition the implementation applies. *)
Theorem C04_output_done_partial :
  forall (sigma : oracle) (i : inst) (fuel : nat) (x0 : state) (joker0 : Z) (ta : bool) (r : result) (m : mw),
    inst_nonneg_b i = true -> clock_b x0 = true -> fresh2_b i x0 = true ->
    reachS2 sigma i fuel x0 joker0 ta r m -> output_done_b i (r_x r) = true.
Proof. intros. eapply reachS2_output_done; eauto. Qed.
Print Assumptions C04_output_done_partial.

Theorem C04_terminated_all_done_partial :
  forall (sigma : oracle) (i : inst) (fuel : nat) (x0 : state) (joker0 : Z) (ta : bool) (r : result) (m : mw),
    inst_nonneg_b i = true -> clock_b x0 = true -> fresh2_b i x0 = true ->
    reachS2 sigma i fuel x0 joker0 ta r m -> all_in_output i (r_x r) = true ->
    forallb all_operations_done (s_jobs (r_x r)) = true.
Proof. intros. eapply reachS2_terminated_all_done; eauto. Qed.
Print Assumptions C04_terminated_all_done_partial.

(* The same WITHOUT side conditions for instances whose machine post-buffers are unordered (FLEX, the compiler's
   default): both side conditions are derived for every applied transition of every run (SMP/ProvBatch.v). *)
Theorem C04_output_done_every_instance :
  forall (sigma : oracle) (i : inst) (fuel : nat) (x0 : state) (joker0 : Z) (ta : bool) (r : result) (m : mw),
    inst_nonneg_b i = true ->
    clock_b x0 = true -> wfs_b i x0 = true -> fresh2_b i x0 = true -> nodep_b x0 = true ->
    reach sigma i fuel x0 joker0 ta r m -> output_done_b i (r_x r) = true.
Proof. intros sigma i fuel x0 joker0 ta r m Hnn C W Fr D H. destruct (run_reachable sigma i Hnn _ _ _ _ _ _ C W Fr D H) as [_ [_ A]]. exact A. Qed.
Print Assumptions C04_output_done_every_instance.

(* the same for the instance class of the earlier rounds (corollary) *)
Theorem C04_output_done_flex :
  forall (sigma : oracle) (i : inst) (fuel : nat) (x0 : state) (joker0 : Z) (ta : bool) (r : result) (m : mw),
    inst_nonneg_b i = true -> flex_post_b i = true ->
    clock_b x0 = true -> wfs_b i x0 = true -> fresh2_b i x0 = true -> nodep_b x0 = true ->
    reach sigma i fuel x0 joker0 ta r m -> output_done_b i (r_x r) = true.
Proof. intros sigma i fuel x0 joker0 ta r m Hnn Hf C W Fr D H. eapply flex_reachable; eauto. Qed.
Print Assumptions C04_output_done_flex.

Theorem C04_terminated_all_done_every_instance :
  forall (sigma : oracle) (i : inst) (fuel : nat) (x0 : state) (joker0 : Z) (ta : bool) (r : result) (m : mw),
    inst_nonneg_b i = true ->
    clock_b x0 = true -> wfs_b i x0 = true -> fresh2_b i x0 = true -> nodep_b x0 = true ->
    reach sigma i fuel x0 joker0 ta r m ->
    all_in_output i (r_x r) = true -> forallb all_operations_done (s_jobs (r_x r)) = true.
Proof. intros sigma i fuel x0 joker0 ta r m Hnn C W Fr D H. eapply run_terminated_all_done; eauto. Qed.
Print Assumptions C04_terminated_all_done_every_instance.

(* the same for the instance class of the earlier rounds (corollary) *)
Theorem C04_terminated_all_done_flex :
  forall (sigma : oracle) (i : inst) (fuel : nat) (x0 : state) (joker0 : Z) (ta : bool) (r : result) (m : mw),
    inst_nonneg_b i = true -> flex_post_b i = true ->
    clock_b x0 = true -> wfs_b i x0 = true -> fresh2_b i x0 = true -> nodep_b x0 = true ->
    reach sigma i fuel x0 joker0 ta r m ->
    all_in_output i (r_x r) = true -> forallb all_operations_done (s_jobs (r_x r)) = true.
Proof. intros. eapply C04_terminated_all_done_every_instance; eauto. Qed.
Print Assumptions C04_terminated_all_done_flex.

(* non-vacuity: the compiled initial state of a real instance satisfies the hypotheses, and the terminal state
   of the always-accept episode is reached WITH both side conditions (runG checks them on every micro-log) *)
Example C04_hypotheses_satisfiable : fresh2_b ex_inst ex_state = true.
Proof. vm_compute. reflexivity. Qed.
Example C04_terminal_reachable :
  exists r m, runG ex_sigma ex_inst side2 100 ex_state 3%Z true [1;1;1;1;1;1;1;1;1;1]%Z = Some (r, m)
              /\ all_in_output ex_inst (r_x r) = true /\ r_offers r = [].
Proof. vm_compute. eexists; eexists; repeat split. Qed.

(* "On termination the reported time and the makespan in the info dictionary equal the latest operation completion time of the schedule":
   in every result reachable by any run of any instance (no hypothesis at all: any initial state, oracle, fuel, actions) in which all work is
   delivered, no recorded completion lies after the clock and - if anything was processed - a DONE operation ends exactly at it; the
   environment's makespan is that clock (C04_makespan_is_clock). state.step sets the clock to the maximum DONE end when it finds all work
   delivered (also BACK, when an AGV's delivery trip ran past the last completion); every other way to a result keeps the state. *)
Theorem C04_clock_at_termination_is_the_latest_completion :
  forall (sigma : oracle) (i : inst) (fuel : nat) (x0 : state) (joker0 : Z) (ta : bool) (r : result) (m : mw),
    reach sigma i fuel x0 joker0 ta r m -> all_in_output i (r_x r) = true ->
    (forall jb o e, In jb (s_jobs (r_x r)) -> In o (j_ops jb) -> o_end o = Time e -> (e <= s_now (r_x r))%Z)
    /\ ((exists jb o, In jb (s_jobs (r_x r)) /\ In o (j_ops jb)) ->
        exists jb o, In jb (s_jobs (r_x r)) /\ In o (j_ops jb) /\ o_st o = ODone /\ o_end o = Time (s_now (r_x r))).
Proof. intros. eapply terminated_clock_bounds_all_ends; eauto. Qed.
Print Assumptions C04_clock_at_termination_is_the_latest_completion.

