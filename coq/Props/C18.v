(* C18 - Declining changes only the offer list or the clock; truncation counts exactly. *)
From Coq Require Import List ZArith Bool.
From JSL Require Import Base.Res SM.Types SM.Util SM.Handler SM.Step SM.Middleware SMP.Decline Gen.Kernels Gen.KernelsEq SM.Inv SMP.StepInv SMP.Reflect SMP.Clock SMP.DeclineStrict.
Import ListNotations.
Open Scope Z_scope.

Theorem C18_decline_many :
  forall sigma i fuel r m o1 o2 rest, r_offers r = o1 :: o2 :: rest ->
    mw_step sigma i fuel r m 0 = MOk (mkResult (r_x r) (o2 :: rest) []) (add_operation m true) [].
Proof. exact decline_many. Qed.
Print Assumptions C18_decline_many.

Theorem C18_decline_last_shape :
  forall sigma i fuel r m o1 r' m' lg, r_offers r = [o1] -> mw_step sigma i fuel r m 0 = MOk r' m' lg ->
    r_acts r' = [] /\
    exists x' offers, step sigma i fuel (r_x r) [] TMForceJump = SOk x' offers lg /\ r_x r' = x' /\ r_offers r' = offers
      /\ (offers = [] -> all_in_output i x' = true).
Proof. exact decline_last_shape. Qed.
Print Assumptions C18_decline_last_shape.

Theorem C18_offers_complete :
  forall sigma i fuel x0 trs tm x' offers lg, step sigma i fuel x0 trs tm = SOk x' offers lg ->
    (offers = [] /\ exists y, all_in_output i y = true) \/ get_possible_transitions i x' = Ok offers.
Proof. exact step_offers_complete. Qed.
Print Assumptions C18_offers_complete.

Theorem C18_truncation_counts :
  forall sigma i fuel joker0 r m a r' m' lg s,
    counts_ok joker0 m s -> mw_step sigma i fuel r m a = MOk r' m' lg ->
    mw_trunc_active m' = mw_trunc_active m /\
    ((a = 1 /\ counts_ok joker0 m' (tspec_accept s))
     \/ (a = 0 /\ (exists o1 o2 rest, r_offers r = o1 :: o2 :: rest) /\ counts_ok joker0 m' s)
     \/ (a = 0 /\ (exists o1, r_offers r = [o1]) /\
         (r_offers r' = [] \/ counts_ok joker0 m' (tspec_decline_last (mw_trunc_active m) s)))).
Proof. exact truncation_counts. Qed.
Print Assumptions C18_truncation_counts.

Theorem C18_truncated_iff_count :
  forall joker0 m s, counts_ok joker0 m s -> (mw_joker m <? 0 = true <-> joker0 < ts_declined_rounds s).
Proof. exact truncated_iff_count. Qed.
Theorem C18_counts_init : forall joker0 active, counts_ok joker0 (mkMw joker0 0 0 active) tspec_init.
Proof. exact counts_init. Qed.
Theorem C18_inactive_never_counts : forall s, ts_declined_rounds (tspec_decline_last false s) = ts_declined_rounds s.
Proof. exact inactive_never_counts. Qed.
Print Assumptions C18_truncated_iff_count.

(* The truncation rule of the model IS the implementation's: regenerated from SubTimeStepper.should_truncate. *)
Theorem C18_truncation_rule_is_the_code's :
  forall m, should_truncate m = gen_should_truncate (mw_trunc_active m) (Z.of_nat (mw_noop m)) (Z.of_nat (mw_act m)).
Proof. exact gen_should_truncate_eq. Qed.
Print Assumptions C18_truncation_rule_is_the_code's.

(* "declining the last remaining offer ... strictly advances time": over whole runs of every instance, a decline of the only offer that does not end the
   episode leaves the clock strictly later. At a decision point nothing is due - the simulator would have applied it: create_timed_transitions is empty
   there -, so every pending completion and arrival lies strictly in the future (a PROCESSING record ending now would make its machine due, an AGV whose
   occupied_till is now would get its transition); the forcing time machine jumps to the earliest of them or by one unit, and the event loop never goes
   back (SMP/DeclineStrict.v). Exempt: a decline after which the episode terminates - the clock is then SET to the latest completion (C04), which may
   lie before the decline. *)
Theorem C18_declining_the_last_offer_strictly_advances_time :
  forall (sigma : oracle) (i : inst) (fuel : nat) (x0 : state) (joker0 : Z) (ta : bool) (r : result) (m : mw)
         (o1 : transition) (r' : result) (m' : mw) (lg : mlog),
    inst_nonneg_b i = true ->
    clock_b x0 = true -> wfs_b i x0 = true -> fresh2_b i x0 = true -> nodep_b x0 = true ->
    reach sigma i fuel x0 joker0 ta r m -> r_offers r = [o1] -> mw_step sigma i fuel r m 0 = MOk r' m' lg ->
    r_offers r' <> [] -> s_now (r_x r) < s_now (r_x r').
Proof. intros sigma i fuel x0 joker0 ta r m o1 r' m' lg Hnn. apply (run_decline_last_strict sigma i Hnn). Qed.
Print Assumptions C18_declining_the_last_offer_strictly_advances_time.

