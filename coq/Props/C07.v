(* C07 - Transport takes the configured travel time and never moves an unready job (one-step exactness,
   AGV events fire exactly when due by the clock invariant of C12). *)
From Coq Require Import List ZArith Bool.
From JSL Require Import Base.Res Base.ListX SM.Types SM.Util SM.Handler SM.Step SM.Inv
  SMP.Post SMP.PostApply SMP.Offers SMP.Clock SMP.ClockMain SMP.WF SMP.Reflect SMP.Feasible SMP.Unique SM.Middleware SMP.StepInv SMP.LiftSide SMP.OutputDone SMP.LiftProv SMP.ProvBatch SMP.Deliver SM.ExampleShift SMP.Durations SMP.Travel SM.Events SMP.EventsRun SMP.Transit.
Import ListNotations.

(* dispatch: the AGV reaches the pickup point exactly travel(where it stands -> where the job lies)
   later, the route (pickup buffer, destination) is fixed, the job is claimed. Direction of the lookup:
   travel_lookup FROM TO. *)
Theorem C07_dispatch_exact :
  forall sigma i x tr t ts x',
    tr_comp tr = CT t -> nth_error (s_trans x) t = Some ts -> t_st ts = TIdle ->
    apply_transition sigma i x tr = Ok x' ->
    exists j p jb target c ttp,
      tr_job tr = Some j /\ t_loc ts = LAt p /\ nth_error (s_jobs x) j = Some jb /\ dest_idle i jb = Ok target
      /\ travel_lookup (i_travel i) p (place_of_bid (j_loc jb)) = Some c /\ tc_read (s_sto x) c = Ok ttp
      /\ nth_error (s_trans x') t =
           Some (mkTransport TPickup (OAt (s_now x + ttp)%Z) (t_buf ts) (LRoute p (j_loc jb) target) (Some j) (t_out ts))
      /\ s_now x' = s_now x /\ s_jobs x' = s_jobs x /\ s_machs x' = s_machs x /\ s_bufs x' = s_bufs x.
Proof.
  intros sigma i x tr t ts x' Hc Ht Hst H.
  destruct (apply_transport sigma i x tr t ts x' Hc Ht H) as [[_ [_ Hh]]|[[E _]|[[[E|E] _]|[[[E|E] _]|[[E _]|[E _]]]]]]; try congruence.
  eapply post_dispatch; eauto.
Qed.
Print Assumptions C07_dispatch_exact.

(* pickup: either the job is not at the position its buffer's discipline releases and the AGV keeps
   waiting, or the job is taken and arrives exactly travel(place of its buffer -> destination) later *)
Theorem C07_pickup_exact :
  forall sigma i x tr t ts x',
    nth_error (s_trans x) t = Some ts -> h_t_to_transit sigma i x tr t ts = Ok x' ->
    exists j jb sb sc,
      tr_job tr = Some j /\ nth_error (s_jobs x) j = Some jb /\ get_buf x (j_loc jb) = Some sb
      /\ get_bcfg i (j_loc jb) = Some sc /\
      ((exists p, index_of j (b_store sb) = Some p /\ is_correct_position (Some p) (length (b_store sb)) (bc_type sc) = Ok false
                  /\ h_t_waiting_waiting i x tr t ts = Ok x')
       \/
       (exists dst c trv,
          (forall p, index_of j (b_store sb) = Some p -> is_correct_position (Some p) (length (b_store sb)) (bc_type sc) = Ok true)
          /\ dest_not_done i jb = Ok dst
          /\ travel_lookup (i_travel i) (place_of_bid (j_loc jb)) dst = Some c /\ tc_read (s_sto x') c = Ok trv
          /\ (exists ts', nth_error (s_trans x') t = Some ts' /\ t_st ts' = TTransit /\ t_occ ts' = OAt (s_now x + trv)%Z
                /\ b_store (t_buf ts') = b_store (t_buf ts) ++ [j] /\ t_loc ts' = t_loc ts /\ t_job ts' = t_job ts)
          /\ (exists sb', get_buf x' (j_loc jb) = Some sb' /\ b_store sb' = remove_nat j (b_store sb))
          /\ nth_error (s_jobs x') j = Some (set_j_loc jb (BAgv t)) /\ s_now x' = s_now x)).
Proof. exact post_to_transit. Qed.
Print Assumptions C07_pickup_exact.

(* delivery: the job joins the back of the destination's pre-buffer (or the output buffer), the AGV
   stands at the destination and drops its claim *)
Theorem C07_delivery_exact :
  forall sigma i x tr t ts x',
    nth_error (s_trans x) t = Some ts -> h_t_transit_outage sigma i x tr t ts = Ok x' ->
    exists j jb cur src dst ac B outs sto' occ_for,
      tr_job tr = Some j /\ nth_error (s_jobs x) j = Some jb /\ t_loc ts = LRoute cur src dst
      /\ nth_error (i_trans i) t = Some ac
      /\ B = (match dst with PM m => BPre m | PB n => BStd n | PT k => BAgv k end)
      /\ new_outage_states sigma (s_now x) (s_sto x) (ac_out ac) (t_out ts) = Ok (outs, sto')
      /\ occupied_time outs = Ok occ_for
      /\ (exists ts', nth_error (s_trans x') t = Some ts' /\ t_st ts' = TOutage /\ t_occ ts' = OAt (s_now x + occ_for)%Z
            /\ t_loc ts' = LAt dst /\ t_job ts' = None /\ t_out ts' = outs
            /\ b_store (t_buf ts') = remove_nat j (b_store (t_buf ts)))
      /\ (forall b, get_buf x B = Some b -> exists b', get_buf x' B = Some b' /\ b_store b' = b_store b ++ [j])
      /\ nth_error (s_jobs x') j = Some (set_j_loc jb B) /\ s_now x' = s_now x.
Proof. exact post_deliver. Qed.
Print Assumptions C07_delivery_exact.

(* AGV events fire exactly when due: created only when occupied_till <= now (timed_transport), and the
   clock invariant says now <= occupied_till for every non-idle AGV *)
Theorem C07_agv_events_exact :
  forall i x t ts tr z,
    clock_b x = true -> nth_error (s_trans x) t = Some ts -> t_st ts <> TIdle -> t_occ ts = OAt z ->
    timed_transport i x t ts = Ok [tr] -> z = s_now x.
Proof.
  intros i x t ts tr z Hc Ht Hs Ho H. apply NO_iff_clock_b in Hc.
  pose proof (timed_transport_due i x t ts tr z Ho H) as H1.
  destruct (no_trans _ Hc _ _ Ht) as [A _]. specialize (A Hs). rewrite Ho in A. apply Z.le_antisymm; auto.
Qed.
Print Assumptions C07_agv_events_exact.

(* only AGVs that are idle and jobs no AGV has claimed are offered for dispatch *)
Theorem C07_dispatch_offers :
  forall i x l tr, get_possible_transport_transition i x = Ok l -> In tr l ->
    exists t ts j jb, tr = mkTr (CT t) (NT TWorking) (Some j)
      /\ nth_error (s_trans x) t = Some ts /\ t_st ts = TIdle /\ nth_error (s_jobs x) j = Some jb
      /\ ~ In j (claims x) /\ (i_early i = false -> is_ready i x j jb = Ok true).
Proof. exact transport_offers_spec. Qed.

(* The pickups the simulator itself schedules: a due AGV is sent into TRANSIT only from WAITINGPICKUP, only for
   the job it claimed at dispatch, and only if that job is ready for pickup (lies in a standalone or post buffer
   at the position its discipline releases). *)
Theorem C07_pickup_only_claimed_ready :
  forall (i : inst) (x : state) (t : nat) (ts : transport) (tr : transition) (z : Z),
    t_occ ts = OAt z -> timed_transport i x t ts = Ok [tr] -> tr_new tr = NT TTransit ->
    t_st ts = TWaiting /\ exists j jb, tr = mkTr (CT t) (NT TTransit) (Some j) /\ t_job ts = Some j
      /\ nth_error (s_jobs x) j = Some jb /\ is_ready i x j jb = Ok true.
Proof. exact timed_transit_spec. Qed.
Print Assumptions C07_pickup_only_claimed_ready.

(* ... hence, in a state satisfying the store invariant (C03) and the feasibility invariant (C01), these
   transitions satisfy the two side conditions the partial theorems of C01 and C04 assume (the job is not in
   process; it is the AGV's claim) - in the state they are created in. What is NOT proved is that this survives
   the other transitions of the same event batch and dependency-parked transitions; that part stays monitored. *)
Theorem C07_side_conditions_at_creation :
  forall (i : inst) (x : state) (t : nat) (ts : transport) (tr : transition) (z : Z),
    wfs_b i x = true -> FE i x -> nth_error (s_trans x) t = Some ts ->
    t_occ ts = OAt z -> timed_transport i x t ts = Ok [tr] -> tr_new tr = NT TTransit ->
    transit_side_b tr x = true /\ transit_claim_b tr x = true.
Proof. intros i x t ts tr z W. apply timed_transit_sides_at_creation. apply WFS_complete; auto. Qed.
Print Assumptions C07_side_conditions_at_creation.

(* "never moves an unready job", over whole runs, for instances whose machine post-buffers are unordered (FLEX, the
   default): EVERY -> TRANSIT transition applied in ANY run of the middleware takes the AGV's own claim, and the job
   taken is not in process - in the micro-log of every decision, for every action sequence, oracle and fuel. *)
Theorem C07_every_pickup_claimed_and_not_in_process_every_instance :
  forall (sigma : oracle) (i : inst) (fuel : nat) (x0 : state) (joker0 : Z) (ta : bool) (r : result) (m : mw)
         (a : Z) (r' : result) (m' : mw) (lg : mlog),
    inst_nonneg_b i = true ->
    clock_b x0 = true -> wfs_b i x0 = true -> fresh2_b i x0 = true -> nodep_b x0 = true ->
    reach sigma i fuel x0 joker0 ta r m -> mw_step sigma i fuel r m a = MOk r' m' lg ->
    forall tr y, In (tr, y) lg -> transit_side_b tr y = true /\ transit_claim_b tr y = true.
Proof.
  intros sigma i fuel x0 joker0 ta r m a r' m' lg Hnn C W Fr D H Hm tr y Hin.
  destruct (run_micro_states sigma i Hnn _ _ _ _ _ _ _ _ _ _ C W Fr D H Hm _ _ Hin) as [_ [_ [_ S]]].
  apply side2_parts in S. tauto.
Qed.
Print Assumptions C07_every_pickup_claimed_and_not_in_process_every_instance.

(* the same for the instance class of the earlier rounds (corollary) *)
Theorem C07_every_pickup_claimed_and_not_in_process_flex :
  forall (sigma : oracle) (i : inst) (fuel : nat) (x0 : state) (joker0 : Z) (ta : bool) (r : result) (m : mw)
         (a : Z) (r' : result) (m' : mw) (lg : mlog),
    inst_nonneg_b i = true -> flex_post_b i = true ->
    clock_b x0 = true -> wfs_b i x0 = true -> fresh2_b i x0 = true -> nodep_b x0 = true ->
    reach sigma i fuel x0 joker0 ta r m -> mw_step sigma i fuel r m a = MOk r' m' lg ->
    forall tr y, In (tr, y) lg -> transit_side_b tr y = true /\ transit_claim_b tr y = true /\ nodep_b y = true.
Proof.
  intros sigma i fuel x0 joker0 ta r m a r' m' lg Hnn Hf C W Fr D H Hm tr y Hin.
  destruct (flex_micro_states sigma i Hnn Hf _ _ _ _ _ _ _ _ _ _ C W Fr D H Hm _ _ Hin) as [_ [_ [_ [N S]]]].
  apply side2_parts in S. tauto.
Qed.
Print Assumptions C07_every_pickup_claimed_and_not_in_process_flex.

(* "an operation never starts earlier than its predecessor's end plus the travel time between the two machines", over
   whole runs (SMP/Travel.v): in EVERY state and micro-state of EVERY run of the middleware on an instance whose machine
   post-buffers are unordered (FLEX, the default), for every pair of consecutive operations of a job whose travel-time
   entry (machine of the first -> machine of the second) is deterministic: start(second) >= end(first) + that entry
   (travel_gap_b, also evaluated by the monitors on every implementation state). The invariant follows a job from the
   completion of an operation to the start of the next: released into the post-buffer of the machine that finished it
   (never into a standalone buffer while work is left: routes to buffers end in OUTPUT buffers, where only finished
   jobs arrive), picked up there no earlier than the completion with the matrix entry for exactly that direction,
   carried until pickup + travel (deliveries are applied exactly when due), available in front of the next machine no
   earlier than that, and started no earlier than available. *)
Theorem C07_start_after_predecessor_plus_travel_every_instance :
  forall (sigma : oracle) (i : inst) (fuel : nat) (x0 : state) (joker0 : Z) (ta : bool) (r : result) (m : mw),
    inst_nonneg_b i = true ->
    clock_b x0 = true -> wfs_b i x0 = true -> fresh2_b i x0 = true -> nodep_b x0 = true -> agv_phase_b x0 = true ->
    reach sigma i fuel x0 joker0 ta r m -> travel_gap_b i (r_x r) = true.
Proof. intros sigma i fuel x0 joker0 ta r m Hnn. apply run_travel_gap; auto. Qed.
Print Assumptions C07_start_after_predecessor_plus_travel_every_instance.

(* the same for the instance class of the earlier rounds (corollary) *)
Theorem C07_start_after_predecessor_plus_travel_flex :
  forall (sigma : oracle) (i : inst) (fuel : nat) (x0 : state) (joker0 : Z) (ta : bool) (r : result) (m : mw),
    inst_nonneg_b i = true -> flex_post_b i = true ->
    clock_b x0 = true -> wfs_b i x0 = true -> fresh2_b i x0 = true -> nodep_b x0 = true -> agv_phase_b x0 = true ->
    reach sigma i fuel x0 joker0 ta r m -> travel_gap_b i (r_x r) = true.
Proof. intros. eapply C07_start_after_predecessor_plus_travel_every_instance; eauto. Qed.
Print Assumptions C07_start_after_predecessor_plus_travel_flex.

Theorem C07_start_after_predecessor_plus_travel_micro_states_every_instance :
  forall (sigma : oracle) (i : inst) (fuel : nat) (x0 : state) (joker0 : Z) (ta : bool) (r : result) (m : mw)
         (a : Z) (r' : result) (m' : mw) (lg : mlog),
    inst_nonneg_b i = true ->
    clock_b x0 = true -> wfs_b i x0 = true -> fresh2_b i x0 = true -> nodep_b x0 = true -> agv_phase_b x0 = true ->
    reach sigma i fuel x0 joker0 ta r m -> mw_step sigma i fuel r m a = MOk r' m' lg ->
    forall tr y, In (tr, y) lg -> travel_gap_b i y = true.
Proof. intros sigma i fuel x0 joker0 ta r m a r' m' lg Hnn. apply run_micro_travel_gap; auto. Qed.
Print Assumptions C07_start_after_predecessor_plus_travel_micro_states_every_instance.

(* the same for the instance class of the earlier rounds (corollary) *)
Theorem C07_start_after_predecessor_plus_travel_micro_states_flex :
  forall (sigma : oracle) (i : inst) (fuel : nat) (x0 : state) (joker0 : Z) (ta : bool) (r : result) (m : mw)
         (a : Z) (r' : result) (m' : mw) (lg : mlog),
    inst_nonneg_b i = true -> flex_post_b i = true ->
    clock_b x0 = true -> wfs_b i x0 = true -> fresh2_b i x0 = true -> nodep_b x0 = true -> agv_phase_b x0 = true ->
    reach sigma i fuel x0 joker0 ta r m -> mw_step sigma i fuel r m a = MOk r' m' lg ->
    forall tr y, In (tr, y) lg -> travel_gap_b i y = true.
Proof. intros. eapply C07_start_after_predecessor_plus_travel_micro_states_every_instance; eauto. Qed.
Print Assumptions C07_start_after_predecessor_plus_travel_micro_states_flex.

(* non-vacuity: the hypotheses hold for a compiled instance with AGV and non-zero travel times, and a run reaches a state
   in which a second operation has started *)
Example C07_travel_gap_nontrivial :
  agv_phase_b sh_init0 = true /\
  exists r m, reach sh_sigma sh_inst 200 sh_init0 3%Z true r m
              /\ existsb (fun jb => match j_ops jb with _ :: b :: _ => negb (is_ostate OIdle b) | _ => false end) (s_jobs (r_x r)) = true
              /\ travel_gap_b sh_inst (r_x r) = true.
Proof.
  split; [vm_compute; reflexivity|].
  destruct (runG sh_sigma sh_inst side2 200 sh_init0 3%Z true [1;1;1;1;1]%Z) as [[r m]|] eqn:E; [|vm_compute in E; discriminate].
  exists r, m. split; [eapply reachG_reach; eapply runG_reach; exact E|]. vm_compute in E. inversion E; subst. vm_compute. split; reflexivity.
Qed.

(* the TimeDependency invariant (clause depi_b, SM/Inv.v): in every state and micro-state of every run of every instance, a
   dependency stored in an AGV's occupied_till is that AGV's own -> WAITING / -> TRANSIT transition for its own claim, the
   AGV waits at the pickup point, and the claimed job lies in the ordered machine post-buffer BEHIND the blocking job - so
   a re-issued transition never moves another AGV's job, and the job a dependency waits for cannot have left the buffer *)
Theorem C07_time_dependencies_wellformed_every_instance :
  forall (sigma : oracle) (i : inst) (fuel : nat) (x0 : state) (joker0 : Z) (ta : bool) (r : result) (m : mw),
    inst_nonneg_b i = true ->
    clock_b x0 = true -> wfs_b i x0 = true -> fresh2_b i x0 = true -> nodep_b x0 = true ->
    reach sigma i fuel x0 joker0 ta r m -> depi_b i (r_x r) = true.
Proof. intros sigma i fuel x0 joker0 ta r m Hnn. apply run_depi; auto. Qed.
Print Assumptions C07_time_dependencies_wellformed_every_instance.

Theorem C07_time_dependencies_wellformed_micro_states_every_instance :
  forall (sigma : oracle) (i : inst) (fuel : nat) (x0 : state) (joker0 : Z) (ta : bool) (r : result) (m : mw)
         (a : Z) (r' : result) (m' : mw) (lg : mlog),
    inst_nonneg_b i = true ->
    clock_b x0 = true -> wfs_b i x0 = true -> fresh2_b i x0 = true -> nodep_b x0 = true ->
    reach sigma i fuel x0 joker0 ta r m -> mw_step sigma i fuel r m a = MOk r' m' lg ->
    forall tr y, In (tr, y) lg -> depi_b i y = true.
Proof. intros sigma i fuel x0 joker0 ta r m a r' m' lg Hnn. apply run_micro_depi; auto. Qed.
Print Assumptions C07_time_dependencies_wellformed_micro_states_every_instance.

(* "a job is delivered to the machine of its next operation" (clause pre_ok_b, SMP/Deliver.v): in every state and micro-state
   of every run of every instance, a job lying in the pre-buffer of a machine has its first not-done operation on that
   machine - an AGV's route ends at the machine of its claim's first idle operation (set by the dispatch, kept because a
   claimed job cannot start a setup), the delivered job is the AGV's claim and is not in process *)
Theorem C07_delivered_to_the_machine_of_the_next_operation_every_instance :
  forall (sigma : oracle) (i : inst) (fuel : nat) (x0 : state) (joker0 : Z) (ta : bool) (r : result) (m : mw),
    inst_nonneg_b i = true ->
    clock_b x0 = true -> wfs_b i x0 = true -> fresh2_b i x0 = true -> nodep_b x0 = true ->
    pre_ok_b x0 = true ->
    reach sigma i fuel x0 joker0 ta r m -> pre_ok_b (r_x r) = true.
Proof. intros sigma i fuel x0 joker0 ta r m Hnn. apply run_pre_ok; auto. Qed.
Print Assumptions C07_delivered_to_the_machine_of_the_next_operation_every_instance.

Theorem C07_delivered_to_the_machine_of_the_next_operation_micro_states_every_instance :
  forall (sigma : oracle) (i : inst) (fuel : nat) (x0 : state) (joker0 : Z) (ta : bool) (r : result) (m : mw)
         (a : Z) (r' : result) (m' : mw) (lg : mlog),
    inst_nonneg_b i = true ->
    clock_b x0 = true -> wfs_b i x0 = true -> fresh2_b i x0 = true -> nodep_b x0 = true ->
    pre_ok_b x0 = true ->
    reach sigma i fuel x0 joker0 ta r m -> mw_step sigma i fuel r m a = MOk r' m' lg ->
    forall tr y, In (tr, y) lg -> pre_ok_b y = true.
Proof. intros sigma i fuel x0 joker0 ta r m a r' m' lg Hnn. apply run_micro_pre_ok; auto. Qed.
Print Assumptions C07_delivered_to_the_machine_of_the_next_operation_micro_states_every_instance.

(* over whole runs of every instance: every TRANSIT -> OUTAGE (delivery) of every micro-log appends the job at the back of the
   pre-buffer of the route's destination machine (or the destination buffer), leaves the AGV empty, unclaimed and standing at the
   destination, and blocks it for exactly the longest outage sampled now as configured (ev_deliver, with the other proved event
   clauses, along the witnessed chain of applications; SMP/EventsOk.v, EventsRun.v) *)
Theorem C07_delivery_events_hold_along_every_run :
  forall (sigma : oracle) (i : inst) (fuel : nat) (x0 : state) (joker0 : Z) (ta : bool) (r : result) (m : mw)
         (a : Z) (r' : result) (m' : mw) (lg : mlog),
    inst_nonneg_b i = true ->
    clock_b x0 = true -> wfs_b i x0 = true -> fresh2_b i x0 = true -> nodep_b x0 = true -> pre_ok_b x0 = true ->
    reach sigma i fuel x0 joker0 ta r m -> mw_step sigma i fuel r m a = MOk r' m' lg -> chain_events i (r_x r) lg.
Proof. intros sigma i fuel x0 joker0 ta r m a r' m' lg Hnn. apply run_events_ok; auto. Qed.
Print Assumptions C07_delivery_events_hold_along_every_run.

(* over whole runs of every instance, the pickup: every -> TRANSIT of every micro-log either finds its job off the release position of an
   ordered buffer and leaves the AGV waiting with every store untouched, or takes the AGV's OWN claim - a job that is not being
   processed (never "before the operation it is undergoing has completed") and lies in a post- or standalone buffer - out of that
   buffer into the empty AGV, for exactly travel(where the job lies -> the machine of its next operation, or the first output buffer
   when nothing is left), the value drawn now, and that destination is the one the route recorded at dispatch (ev_transit; SMP/Transit.v:
   the batch invariant gives "own claim, outside every machine", RTE/OD/RT0 give the agreement of the recorded and the recomputed
   destination) *)
Theorem C07_pickup_events_hold_along_every_run :
  forall (sigma : oracle) (i : inst) (fuel : nat) (x0 : state) (joker0 : Z) (ta : bool) (r : result) (m : mw)
         (a : Z) (r' : result) (m' : mw) (lg : mlog),
    inst_nonneg_b i = true ->
    clock_b x0 = true -> wfs_b i x0 = true -> fresh2_b i x0 = true -> nodep_b x0 = true -> pre_ok_b x0 = true ->
    reach sigma i fuel x0 joker0 ta r m -> mw_step sigma i fuel r m a = MOk r' m' lg -> chain_transit i (r_x r) lg.
Proof. intros sigma i fuel x0 joker0 ta r m a r' m' lg Hnn. apply run_transit_ok; auto. Qed.
Print Assumptions C07_pickup_events_hold_along_every_run.

