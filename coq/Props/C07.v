(* theorems for C07 are being added (see SMP/) *)
From Coq Require Import List ZArith Bool.
Theorem C07_placeholder : True. Proof. exact I. Qed.
Print Assumptions C07_placeholder.
