(* theorems for C09 are being added (see SMP/) *)
From Coq Require Import List ZArith Bool.
Theorem C09_placeholder : True. Proof. exact I. Qed.
Print Assumptions C09_placeholder.
