(* C09 - Sequence-dependent setup times are always paid, using the right matrix entry. *)
From Coq Require Import List ZArith Bool.
From JSL Require Import Base.Res Base.ListX SM.Types SM.Util SM.Handler SM.Step SM.Inv SM.Example
  SMP.Post SMP.PostApply SMP.Offers SMP.ClockStep.
Import ListNotations.

(* Every IDLE->SETUP transition that is applied (for any instance, oracle/seed, state): the setup time
   is the matrix entry at (tool mounted BEFORE, tool of the operation) - its current value for a
   stochastic entry -, the machine is blocked until exactly now + that time, the new tool is mounted,
   the job moves from the pre-buffer into the machine and its operation is PROCESSING over
   [now, now + setup]. Direction: setup_lookup (mc_setup mc) FROM TO. *)
Theorem C09_setup_exact :
  forall sigma i x tr m ms x',
    tr_comp tr = CM m -> nth_error (s_machs x) m = Some ms -> m_st ms = MIdle ->
    apply_transition sigma i x tr = Ok x' ->
    exists j jb k oc mc sc sd,
      tr_job tr = Some j /\ nth_error (s_jobs x) j = Some jb /\ first_not_done jb = Some k
      /\ get_opcfg i j k = Ok oc /\ nth_error (i_machs i) m = Some mc
      /\ setup_lookup (mc_setup mc) (m_tool ms) (oc_tool oc) = Some sc
      /\ tc_read (s_sto x) sc = Ok sd
      /\ (exists ms', nth_error (s_machs x') m = Some ms' /\ m_st ms' = MSetup
            /\ m_occ ms' = Time (s_now x + sd)%Z /\ m_tool ms' = oc_tool oc
            /\ b_store (m_in ms') = b_store (m_in ms) ++ [j] /\ m_out ms' = m_out ms
            /\ b_store (m_pre ms') = remove_nat j (b_store (m_pre ms)) /\ m_post ms' = m_post ms)
      /\ (exists jb', nth_error (s_jobs x') j = Some jb' /\ j_loc jb' = BIn m
            /\ j_ops jb' = upd (j_ops jb) k (mkOp m (Time (s_now x)) (Time (s_now x + sd)%Z) OProc))
      /\ s_now x' = s_now x.
Proof.
  intros sigma i x tr m ms x' Hc Hm Hst H.
  destruct (apply_machine sigma i x tr m ms x' Hc Hm H) as [[_ [_ Hh]]|[[E _]|[[E _]|[E _]]]]; try congruence.
  eapply post_idle_setup; eauto.
Qed.
Print Assumptions C09_setup_exact.

(* the machine is unavailable to every other job meanwhile: a machine in SETUP accepts only SETUP->WORKING
   (transition table), and offers never name a non-idle machine *)
Theorem C09_setup_blocks :
  forall b, is_valid_transition machine_table (NM MSetup) (NM b) = true -> b = MWorking.
Proof. intros b H. destruct b; simpl in H; try discriminate; reflexivity. Qed.

Theorem C09_offers_name_idle_machines :
  forall i x jb j, is_action_possible i x jb = Ok true -> nth_error (s_jobs x) j = Some jb ->
    exists k o ms, first_not_done jb = Some k /\ nth_error (j_ops jb) k = Some o
      /\ nth_error (s_machs x) (o_mach o) = Some ms /\ m_st ms = MIdle /\ j_loc jb = BPre (o_mach o)
      /\ is_job_running jb = false.
Proof. exact machine_offers_spec. Qed.

(* processing begins exactly when the setup time has elapsed, not before: SETUP->WORKING is created by
   the timed-transition generator only when occupied_till <= now *)
Theorem C09_work_not_before_setup_end :
  forall i now m ms tr, timed_machine i now m ms = Ok (Some tr) -> m_st ms = MSetup ->
    exists z, m_occ ms = Time z /\ (z <= now)%Z /\ tr_new tr = NM MWorking.
Proof.
  intros i now m ms tr H Hs. destruct (timed_machine_spec i now m ms tr H) as [[z [j [Ho [Hz [_ [_ [_ Hk]]]]]]]|[c [j [Hi _]]]].
  - exists z. repeat split; auto. destruct Hk as [[_ K]|[[E _]|[E _]]]; congruence.
  - congruence.
Qed.
Print Assumptions C09_work_not_before_setup_end.

(* the mounted tool changes at no other kind of transition *)
Theorem C09_tool_frame_setup_working :
  forall sigma i x tr m ms x', nth_error (s_machs x) m = Some ms -> h_m_setup_working sigma i x tr m ms = Ok x' ->
    exists ms', nth_error (s_machs x') m = Some ms' /\ m_tool ms' = m_tool ms.
Proof.
  intros. destruct (post_setup_working sigma i x tr m ms x' H H0) as [j [jb [k [oc [d [_ [_ [_ [_ [_ [Hm _]]]]]]]]]]].
  eexists; split; eauto.
Qed.
