(* C09 - Sequence-dependent setup times are always paid, using the right matrix entry. *)
From Coq Require Import List ZArith Bool.
From JSL Require Import Base.Res Base.ListX SM.Types SM.Util SM.Handler SM.Step SM.Inv SM.Example
  SMP.Post SMP.PostApply SMP.Offers SMP.ClockStep SMP.Clock SM.Middleware SM.ExampleShift SMP.StepInv SMP.LiftSide
  SMP.OutputDone SMP.Reflect SMP.FeasView SMP.Feasible SMP.LiftProv SMP.ProvBatch SMP.Durations SMP.Setup SM.Events SMP.EventsRun.
Import ListNotations.

(* Every IDLE->SETUP transition that is applied (for any instance, oracle/seed, state): the setup time
   is the matrix entry at (tool mounted BEFORE, tool of the operation) - its current value for a
   stochastic entry -, the machine is blocked until exactly now + that time, the new tool is mounted,
   the job moves from the pre-buffer into the machine and its operation is PROCESSING over
   [now, now + setup]. Direction: setup_lookup (mc_setup mc) FROM TO. *)
Theorem C09_setup_exact :
  forall sigma i x tr m ms x',
    tr_comp tr = CM m -> nth_error (s_machs x) m = Some ms -> m_st ms = MIdle ->
    apply_transition sigma i x tr = Ok x' ->
    exists j jb k oc mc sc sd,
      tr_job tr = Some j /\ nth_error (s_jobs x) j = Some jb /\ first_not_done jb = Some k
      /\ get_opcfg i j k = Ok oc /\ nth_error (i_machs i) m = Some mc
      /\ setup_lookup (mc_setup mc) (m_tool ms) (oc_tool oc) = Some sc
      /\ tc_read (s_sto x) sc = Ok sd
      /\ (exists ms', nth_error (s_machs x') m = Some ms' /\ m_st ms' = MSetup
            /\ m_occ ms' = Time (s_now x + sd)%Z /\ m_tool ms' = oc_tool oc
            /\ b_store (m_in ms') = b_store (m_in ms) ++ [j] /\ m_out ms' = m_out ms
            /\ b_store (m_pre ms') = remove_nat j (b_store (m_pre ms)) /\ m_post ms' = m_post ms)
      /\ (exists jb', nth_error (s_jobs x') j = Some jb' /\ j_loc jb' = BIn m
            /\ j_ops jb' = upd (j_ops jb) k (mkOp m (Time (s_now x)) (Time (s_now x + sd)%Z) OProc))
      /\ s_now x' = s_now x.
Proof.
  intros sigma i x tr m ms x' Hc Hm Hst H.
  destruct (apply_machine sigma i x tr m ms x' Hc Hm H) as [[_ [_ Hh]]|[[E _]|[[E _]|[E _]]]]; try congruence.
  eapply post_idle_setup; eauto.
Qed.
Print Assumptions C09_setup_exact.

(* the machine is unavailable to every other job meanwhile: a machine in SETUP accepts only SETUP->WORKING
   (transition table), and offers never name a non-idle machine *)
Theorem C09_setup_blocks :
  forall b, is_valid_transition machine_table (NM MSetup) (NM b) = true -> b = MWorking.
Proof. intros b H. destruct b; simpl in H; try discriminate; reflexivity. Qed.

Theorem C09_offers_name_idle_machines :
  forall i x jb j, is_action_possible i x jb = Ok true -> nth_error (s_jobs x) j = Some jb ->
    exists k o ms, first_not_done jb = Some k /\ nth_error (j_ops jb) k = Some o
      /\ nth_error (s_machs x) (o_mach o) = Some ms /\ m_st ms = MIdle /\ j_loc jb = BPre (o_mach o)
      /\ is_job_running jb = false.
Proof. exact machine_offers_spec. Qed.

(* processing begins exactly when the setup time has elapsed, not before: SETUP->WORKING is created by
   the timed-transition generator only when occupied_till <= now *)
Theorem C09_work_not_before_setup_end :
  forall i now m ms tr, timed_machine i now m ms = Ok (Some tr) -> m_st ms = MSetup ->
    exists z, m_occ ms = Time z /\ (z <= now)%Z /\ tr_new tr = NM MWorking.
Proof.
  intros i now m ms tr H Hs. destruct (timed_machine_spec i now m ms tr H) as [[z [j [Ho [Hz [_ [_ [_ Hk]]]]]]]|[c [j [Hi _]]]].
  - exists z. repeat split; auto. destruct Hk as [[_ K]|[[E _]|[E _]]]; congruence.
  - congruence.
Qed.
Print Assumptions C09_work_not_before_setup_end.

(* the mounted tool changes at no other kind of transition *)
Theorem C09_tool_frame_setup_working :
  forall sigma i x tr m ms x', nth_error (s_machs x) m = Some ms -> h_m_setup_working sigma i x tr m ms = Ok x' ->
    exists ms', nth_error (s_machs x') m = Some ms' /\ m_tool ms' = m_tool ms.
Proof.
  intros. destruct (post_setup_working sigma i x tr m ms x' H H0) as [j [jb [k [oc [d [_ [_ [_ [_ [_ [Hm _]]]]]]]]]]].
  eexists; split; eauto.
Qed.

(* ---------- whole runs (instances whose machine post-buffers are FLEX or of capacity one) ---------- *)
Definition initial_tool (x0 : state) (m : nat) : nat :=
  match nth_error (s_machs x0) m with Some ms => m_tool ms | None => O end.

(* In every state of every run of the middleware (any instance of the class, oracle/seed, action sequence, loop fuel)
   there is, for every machine, an enumeration (newest first) of exactly the operations that were started on it
   (SEQ: sq_in / sq_mem / sq_nodup) such that
   - the mounted tool is the tool of the newest one, the initial tool if there is none (sq_tool);
   - of two neighbours the older one is DONE and ended before the newer one started (sq_adj), and for a deterministic
     matrix entry sd = matrix[(tool of the older, tool of the newer)] the newer one's PROCESSING started at
     end(older) + sd or later - while it is still being set up the machine is blocked until end(older) + sd or later (GAP);
   - the oldest one is separated in the same way from the start of the episode by matrix[(initial tool, its tool)]
     (sq_first). *)
Theorem C09_setup_sequence_reachable_every_instance :
  forall (sigma : oracle) (i : inst) (fuel : nat) (x0 : state) (joker0 : Z) (ta : bool) (r : result) (m : mw),
    inst_nonneg_b i = true ->
    clock_b x0 = true -> wfs_b i x0 = true -> fresh2_b i x0 = true -> nodep_b x0 = true ->
    reach sigma i fuel x0 joker0 ta r m ->
    exists g, SEQ i (initial_tool x0) (s_now x0) (r_x r) g.
Proof.
  intros sigma i fuel x0 joker0 ta r m Hnn C W Fr Dn H.
  apply (run_setup_sequence sigma i Hnn (initial_tool x0) (s_now x0) fuel x0 joker0 ta r m); auto.
  intros m0 ms Hms. unfold initial_tool. rewrite Hms. reflexivity.
Qed.
Print Assumptions C09_setup_sequence_reachable_every_instance.

(* the same for the instance class of the earlier rounds (corollary) *)
Theorem C09_setup_sequence_reachable_flex :
  forall (sigma : oracle) (i : inst) (fuel : nat) (x0 : state) (joker0 : Z) (ta : bool) (r : result) (m : mw),
    inst_nonneg_b i = true -> flex_post_b i = true ->
    clock_b x0 = true -> wfs_b i x0 = true -> fresh2_b i x0 = true -> nodep_b x0 = true ->
    reach sigma i fuel x0 joker0 ta r m ->
    exists g, SEQ i (initial_tool x0) (s_now x0) (r_x r) g.
Proof. intros. eapply C09_setup_sequence_reachable_every_instance; eauto. Qed.
Print Assumptions C09_setup_sequence_reachable_flex.

Theorem C09_setup_sequence_micro_states_every_instance :
  forall (sigma : oracle) (i : inst) (fuel : nat) (x0 : state) (joker0 : Z) (ta : bool) (r : result) (m : mw)
         (a : Z) (r' : result) (m' : mw) (lg : mlog),
    inst_nonneg_b i = true ->
    clock_b x0 = true -> wfs_b i x0 = true -> fresh2_b i x0 = true -> nodep_b x0 = true ->
    reach sigma i fuel x0 joker0 ta r m -> mw_step sigma i fuel r m a = MOk r' m' lg ->
    forall tr y, In (tr, y) lg -> exists g, SEQ i (initial_tool x0) (s_now x0) y g.
Proof.
  intros sigma i fuel x0 joker0 ta r m a r' m' lg Hnn C W Fr Dn H Hm tr y Hin.
  apply (run_micro_setup_sequence sigma i Hnn (initial_tool x0) (s_now x0) fuel x0 joker0 ta r m a r' m' lg) with (tr := tr); auto.
  intros m0 ms Hms. unfold initial_tool. rewrite Hms. reflexivity.
Qed.
Print Assumptions C09_setup_sequence_micro_states_every_instance.

(* the same for the instance class of the earlier rounds (corollary) *)
Theorem C09_setup_sequence_micro_states_flex :
  forall (sigma : oracle) (i : inst) (fuel : nat) (x0 : state) (joker0 : Z) (ta : bool) (r : result) (m : mw)
         (a : Z) (r' : result) (m' : mw) (lg : mlog),
    inst_nonneg_b i = true -> flex_post_b i = true ->
    clock_b x0 = true -> wfs_b i x0 = true -> fresh2_b i x0 = true -> nodep_b x0 = true ->
    reach sigma i fuel x0 joker0 ta r m -> mw_step sigma i fuel r m a = MOk r' m' lg ->
    forall tr y, In (tr, y) lg -> exists g, SEQ i (initial_tool x0) (s_now x0) y g.
Proof. intros. eapply C09_setup_sequence_micro_states_every_instance; eauto. Qed.
Print Assumptions C09_setup_sequence_micro_states_flex.

(* the same on the records alone (clause setup_gap_b of SM/Inv.v, evaluated on every implementation state by the
   monitors): two DONE operations p, o of one machine, p started strictly before o and no other started operation of
   that machine started in between: start(o) >= end(p) + matrix[(tool p, tool o)] for a deterministic entry *)
Theorem C09_consecutive_operations_separated_every_instance :
  forall (sigma : oracle) (i : inst) (fuel : nat) (x0 : state) (joker0 : Z) (ta : bool) (r : result) (m : mw),
    inst_nonneg_b i = true ->
    clock_b x0 = true -> wfs_b i x0 = true -> fresh2_b i x0 = true -> nodep_b x0 = true ->
    reach sigma i fuel x0 joker0 ta r m -> setup_gap_b i (r_x r) = true.
Proof.
  intros sigma i fuel x0 joker0 ta r m Hnn C W Fr Dn H.
  apply (run_setup_gap sigma i Hnn (initial_tool x0) (s_now x0) fuel x0 joker0 ta r m); auto.
  intros m0 ms Hms. unfold initial_tool. rewrite Hms. reflexivity.
Qed.
Print Assumptions C09_consecutive_operations_separated_every_instance.

(* the same for the instance class of the earlier rounds (corollary) *)
Theorem C09_consecutive_operations_separated_flex :
  forall (sigma : oracle) (i : inst) (fuel : nat) (x0 : state) (joker0 : Z) (ta : bool) (r : result) (m : mw),
    inst_nonneg_b i = true -> flex_post_b i = true ->
    clock_b x0 = true -> wfs_b i x0 = true -> fresh2_b i x0 = true -> nodep_b x0 = true ->
    reach sigma i fuel x0 joker0 ta r m -> setup_gap_b i (r_x r) = true.
Proof. intros. eapply C09_consecutive_operations_separated_every_instance; eauto. Qed.
Print Assumptions C09_consecutive_operations_separated_flex.

Theorem C09_consecutive_operations_separated_micro_states_every_instance :
  forall (sigma : oracle) (i : inst) (fuel : nat) (x0 : state) (joker0 : Z) (ta : bool) (r : result) (m : mw)
         (a : Z) (r' : result) (m' : mw) (lg : mlog),
    inst_nonneg_b i = true ->
    clock_b x0 = true -> wfs_b i x0 = true -> fresh2_b i x0 = true -> nodep_b x0 = true ->
    reach sigma i fuel x0 joker0 ta r m -> mw_step sigma i fuel r m a = MOk r' m' lg ->
    forall tr y, In (tr, y) lg -> setup_gap_b i y = true.
Proof.
  intros sigma i fuel x0 joker0 ta r m a r' m' lg Hnn C W Fr Dn H Hm tr y Hin.
  apply (run_micro_setup_gap sigma i Hnn (initial_tool x0) (s_now x0) fuel x0 joker0 ta r m a r' m' lg) with (tr := tr); auto.
  intros m0 ms Hms. unfold initial_tool. rewrite Hms. reflexivity.
Qed.
Print Assumptions C09_consecutive_operations_separated_micro_states_every_instance.

(* the same for the instance class of the earlier rounds (corollary) *)
Theorem C09_consecutive_operations_separated_micro_states_flex :
  forall (sigma : oracle) (i : inst) (fuel : nat) (x0 : state) (joker0 : Z) (ta : bool) (r : result) (m : mw)
         (a : Z) (r' : result) (m' : mw) (lg : mlog),
    inst_nonneg_b i = true -> flex_post_b i = true ->
    clock_b x0 = true -> wfs_b i x0 = true -> fresh2_b i x0 = true -> nodep_b x0 = true ->
    reach sigma i fuel x0 joker0 ta r m -> mw_step sigma i fuel r m a = MOk r' m' lg ->
    forall tr y, In (tr, y) lg -> setup_gap_b i y = true.
Proof. intros. eapply C09_consecutive_operations_separated_micro_states_every_instance; eauto. Qed.
Print Assumptions C09_consecutive_operations_separated_micro_states_flex.

(* the unfolded reading of one neighbouring pair, both DONE *)
Theorem C09_neighbours_gap :
  forall i tool0 t0 x g m n c2 c1 o2 oc1 oc2 mc sd,
    SEQ i tool0 t0 x g -> nth_error (g m) n = Some c2 -> nth_error (g m) (S n) = Some c1 ->
    crec x c2 o2 -> o_st o2 = ODone ->
    get_opcfg i (fst c1) (snd c1) = Ok oc1 -> get_opcfg i (fst c2) (snd c2) = Ok oc2 -> nth_error (i_machs i) m = Some mc ->
    setup_lookup (mc_setup mc) (oc_tool oc1) (oc_tool oc2) = Some (Det sd) ->
    exists o1 e s, crec x c1 o1 /\ o_st o1 = ODone /\ o_end o1 = Time e /\ o_start o2 = Time s /\ (e + sd <= s)%Z.
Proof.
  intros i tool0 t0 x g m n c2 c1 o2 oc1 oc2 mc sd Sq H2 H1 Ho2 D2 Hoc1 Hoc2 Hmc Hs.
  destruct (sq_adj _ _ _ _ _ Sq m n c2 c1 H2 H1) as [o1 [e [A1 [A2 [A3 [_ A5]]]]]].
  destruct (A5 (oc_tool oc1) ltac:(exists oc1; auto) o2 oc2 mc sd Ho2 Hoc2 Hmc Hs) as [G1 _]. destruct (G1 D2) as [s [Es Ls]].
  exists o1, e, s. auto.
Qed.
Print Assumptions C09_neighbours_gap.

(* non-vacuity: a run of a compiled instance with asymmetric setup matrices (machine 0: 0->1 costs 3, 1->0 costs 1)
   ends (no offers left) with two DONE operations on machine 0 - (0,1) over [3,3] with tool 0, then (1,1) over [9,13] with
   tool 1: 9 >= 3 + 3 - and the clause holds there *)
Example C09_setup_gap_nontrivial :
  exists r m, reach sh_sigma sh_inst 400 sh_init0 3%Z true r m
              /\ r_offers r = [] /\ setup_gap_b sh_inst (r_x r) = true
              /\ 2 <= length (filter (fun q => started_on 0 q && is_ostate ODone (snd q)) (all_recs (r_x r))).
Proof.
  destruct (runG sh_sigma sh_inst side2 400 sh_init0 3%Z true (repeat 1%Z 5)) as [[r m]|] eqn:E; [|vm_compute in E; discriminate].
  exists r, m. split; [eapply reachG_reach; eapply runG_reach; exact E|]. vm_compute in E. inversion E; subst. vm_compute. repeat split; auto.
Qed.

(* over whole runs of every instance: every IDLE -> SETUP of every micro-log pays matrix[(mounted tool, tool of the operation)]
   read in the state it was applied in, mounts that tool and blocks the machine until now + that time (ev_setup), and no
   other event changes any mounted tool (ev_tool_frame) *)
Theorem C09_setup_events_hold_along_every_run :
  forall (sigma : oracle) (i : inst) (fuel : nat) (x0 : state) (joker0 : Z) (ta : bool) (r : result) (m : mw)
         (a : Z) (r' : result) (m' : mw) (lg : mlog),
    inst_nonneg_b i = true ->
    clock_b x0 = true -> wfs_b i x0 = true -> fresh2_b i x0 = true -> nodep_b x0 = true -> pre_ok_b x0 = true ->
    reach sigma i fuel x0 joker0 ta r m -> mw_step sigma i fuel r m a = MOk r' m' lg -> chain_events i (r_x r) lg.
Proof. intros sigma i fuel x0 joker0 ta r m a r' m' lg Hnn. apply run_events_ok; auto. Qed.
Print Assumptions C09_setup_events_hold_along_every_run.
