(* C12 - Simulated time is monotone and event-exact; no component is ever overdue.
   (Translation invariance: see C12_shift_* below / DESIGN.md.) *)
From Coq Require Import List ZArith Bool.
From JSL Require Import Base.Res SM.Types SM.Util SM.Handler SM.Step SM.Middleware SM.Inv SM.Example
  SMP.StepInv SMP.Clock SMP.ClockStep SMP.ClockMain SM.ExampleShift SM.Events SMP.Reflect SMP.LiftProv SMP.Due SMP.Shift SM.ExampleDeadlock.
Import ListNotations.

(* clock_b = nothing pending lies in the past (every PROCESSING operation ends >= now, every non-idle
   AGV's occupied_till >= now) + idle/delivered AGVs claim nothing + sampled times are non-negative. *)

(* no transition moves the clock: time advances only in a time-machine call *)
Theorem C12_transitions_keep_clock :
  forall sigma i x tr x', apply_transition sigma i x tr = Ok x' -> s_now x' = s_now x.
Proof. exact apply_now. Qed.
Print Assumptions C12_transitions_keep_clock.

(* the time machines never go backwards and never jump past anything pending *)
Theorem C12_time_machine :
  forall i tm x t, tm <> TMJumpByOne -> clock_b x = true -> run_time_machine i tm x = Ok t ->
    (s_now x <= t)%Z /\ clock_b (set_now x t) = true.
Proof.
  intros i tm x t Htm H Hr. apply NO_iff_clock_b in H.
  destruct (run_tm_ok i tm x t Htm H Hr) as [A B]. split; auto. apply NO_iff_clock_b; auto.
Qed.
Print Assumptions C12_time_machine.

(* from every live state the environment can reach (any instance with non-negative configured
   durations, any oracle/seed, any accept/decline sequence, any truncation setting, any fuel):
   after one more agent decision, every intermediate micro-state satisfies the clock invariant, the
   clock values along the micro-log form a non-decreasing chain starting at the previous clock, and
   the new state (before the clock adjustment of a terminal result) satisfies the invariant too *)
Theorem C12_monotone_no_overdue :
  forall sigma i, inst_nonneg_b i = true ->
  forall fuel x0 joker0 ta r m a r' m' lg,
    clock_b x0 = true -> reach sigma i fuel x0 joker0 ta r m -> mw_step sigma i fuel r m a = MOk r' m' lg ->
    (forall tr y, In (tr, y) lg -> clock_b y = true)
    /\ exists xq, chain (s_now (r_x r)) lg (s_now xq) /\ clock_b xq = true
         /\ (r_x r' = xq \/ (r_offers r' = [] /\ all_in_output i xq = true /\ exists z, r_x r' = set_now xq z)).
Proof.
  intros sigma i Hnn fuel x0 joker0 ta r m a r' m' lg H0. apply NO_iff_clock_b in H0.
  exact (reach_step_clock sigma i Hnn fuel x0 joker0 ta r m a r' m' lg H0).
Qed.
Print Assumptions C12_monotone_no_overdue.

Theorem C12_reachable_live_states :
  forall sigma i, inst_nonneg_b i = true ->
  forall fuel x0 joker0 ta r m, clock_b x0 = true -> reach sigma i fuel x0 joker0 ta r m ->
    r_offers r <> [] -> clock_b (r_x r) = true.
Proof.
  intros sigma i Hnn fuel x0 joker0 ta r m H0 Hr Hne. apply NO_iff_clock_b in H0. apply NO_iff_clock_b.
  eapply reach_NO; eauto.
Qed.
Print Assumptions C12_reachable_live_states.

Example C12_hypotheses_satisfiable : inst_nonneg_b ex_inst = true /\ clock_b ex_state = true.
Proof. vm_compute. split; reflexivity. Qed.

(* C12_shift_refuted: translation invariance ("starting later shifts every time stamp by the same offset") is
   FALSE of the faithful model as soon as an outage is configured. SM/ExampleShift.v holds one compiled
   instance (2 jobs, 2 machines, a recharge outage on m-1 every 4 for 2) with its initial state for
   start_time 0 and for start_time 7 - the same state with the clock moved. After the same single accepted
   offer the clocks are 3 and 8, i.e. 3 and 1 after the start. The implementation gives the same two clocks
   (known finding F-C12-shift-outages; the C12 check replays the witness on every run). *)
Definition sh_run (x0 : state) (acts : list Z) : option (result * mw) :=
  match mw_reset sh_sigma sh_inst 200 x0 5%Z false (mkMw 5%Z 0 0 false) with
  | MOk r m _ =>
      fold_left (fun acc a => match acc with
                              | Some (r, m) => match mw_step sh_sigma sh_inst 200 r m a with
                                               | MOk r' m' _ => Some (r', m') | _ => None end
                              | None => None end) acts (Some (r, m))
  | _ => None
  end.

Theorem C12_shift_refuted :
  sh_initK = set_now sh_init0 (s_now sh_init0 + sh_K) /\
  exists r0 m0 rK mK,
    sh_run sh_init0 [1]%Z = Some (r0, m0) /\ sh_run sh_initK [1]%Z = Some (rK, mK)
    /\ s_now (r_x r0) = sh_clock0 /\ s_now (r_x rK) = sh_clockK
    /\ (s_now (r_x rK) - sh_K <> s_now (r_x r0))%Z.
Proof.
  split; [vm_compute; reflexivity|]. do 4 eexists.
  split; [vm_compute; reflexivity|]. split; [vm_compute; reflexivity|].
  split; [reflexivity|]. split; [reflexivity|]. vm_compute. discriminate.
Qed.
Print Assumptions C12_shift_refuted.

(* event-exactness over whole runs of every instance: every timed transition of every micro-log is applied with the clock equal to its
   component's occupied_till (ev_due, SMP/Due.v): time advances exactly to the earliest pending completion or arrival, never past one *)
Theorem C12_events_fire_exactly_when_due_along_every_run :
  forall (sigma : oracle) (i : inst) (fuel : nat) (x0 : state) (joker0 : Z) (ta : bool) (r : result) (m : mw)
         (a : Z) (r' : result) (m' : mw) (lg : mlog),
    inst_nonneg_b i = true ->
    clock_b x0 = true -> wfs_b i x0 = true -> fresh2_b i x0 = true -> nodep_b x0 = true -> pre_ok_b x0 = true ->
    reach sigma i fuel x0 joker0 ta r m -> mw_step sigma i fuel r m a = MOk r' m' lg -> chain_due (r_x r) lg.
Proof. intros sigma i fuel x0 joker0 ta r m a r' m' lg Hnn. apply (run_due_ok sigma i Hnn); auto. Qed.
Print Assumptions C12_events_fire_exactly_when_due_along_every_run.

(* "it advances only when nothing is left to decide or the agent has declined everything, and then exactly to the earliest pending completion or
   arrival (or by one unit if nothing is pending)": the two time machines the middleware uses, read off their definitions *)
Theorem C12_time_advances_only_when_nothing_is_left_to_decide :
  forall i x t, jump_to_event i x = Ok t -> t <> s_now x -> get_num_possible_events i x = Ok 0%nat.
Proof.
  intros i x t H Hne. unfold jump_to_event in H. destruct (get_num_possible_events i x) as [n|]; simpl in H; [|discriminate].
  destruct n as [|n]; [reflexivity|]. simpl in H. inversion H. congruence.
Qed.
Print Assumptions C12_time_advances_only_when_nothing_is_left_to_decide.

Theorem C12_forced_jump_goes_exactly_to_the_earliest_pending_event :
  forall x t, force_jump_to_event x = Ok t ->
    exists p, pending_times x = Ok p /\
      ((p = [] /\ t = (s_now x + 1)%Z) \/ (In t p /\ forall z, In z p -> (t <= z)%Z)).
Proof.
  intros x t H. unfold force_jump_to_event in H. destruct (pending_times x) as [p|]; simpl in H; [|discriminate].
  exists p. split; [reflexivity|]. destruct p as [|h r]; inversion H; [left; auto|right].
  unfold zmin_list. destruct (fold_min_le r h) as [A B]. split.
  - destruct (fold_min_in r h) as [E|E]; [rewrite E; left; reflexivity|right; exact E].
  - intros z [<-|Hz]; [exact A|apply B; exact Hz].
Qed.
Print Assumptions C12_forced_jump_goes_exactly_to_the_earliest_pending_event.

(* ---------- translation invariance, the positive half ---------- *)
(* For instances WITHOUT outage definitions (with them it is false: C12_shift_refuted) the whole stack commutes with shifting every time
   stamp by K - for every oracle (stochastic times included: draws do not depend on the clock), every fuel, every state, every action.
   sh K shifts the clock, every operation's start/end, every occupied_till, every outage record; it leaves everything else alone
   (SMP/Shift.v: every handler, the creation of timed transitions, validity, the offers, the time machines, the event loop). *)
Definition no_outages (i : inst) : Prop :=
  (forall m mc, nth_error (i_machs i) m = Some mc -> mc_out mc = []) /\ (forall t ac, nth_error (i_trans i) t = Some ac -> ac_out ac = []).

Theorem C12_every_transition_commutes_with_the_shift_without_outages :
  forall K sigma i x tr, no_outages i -> apply_transition sigma i (sh K x) tr = rmap (sh K) (apply_transition sigma i x tr).
Proof. intros K sigma i x tr [A B]. apply apply_transition_sh; auto. Qed.
Print Assumptions C12_every_transition_commutes_with_the_shift_without_outages.

Theorem C12_timed_transitions_and_offers_do_not_depend_on_the_start_time :
  forall K i x, create_timed_transitions i (sh K x) = create_timed_transitions i x
                /\ get_possible_transitions i (sh K x) = get_possible_transitions i x.
Proof. intros K i x. split; [apply create_timed_transitions_sh|apply get_possible_transitions_sh]. Qed.
Print Assumptions C12_timed_transitions_and_offers_do_not_depend_on_the_start_time.

Theorem C12_step_is_translation_invariant_without_outages :
  forall K sigma i fuel x0 trs tm, no_outages i -> step sigma i fuel (sh K x0) trs tm = shout K (step sigma i fuel x0 trs tm).
Proof. intros K sigma i fuel x0 trs tm [A B]. apply step_sh; auto. Qed.
Print Assumptions C12_step_is_translation_invariant_without_outages.

(* whole episodes through middleware and environment flags: the same actions from the shifted start give the shifted episode - same offers,
   same flags, same counters, every time stamp (hence the makespan) moved by K - or fail in the same way *)
Theorem C12_episodes_are_translation_invariant_without_outages :
  forall K sigma i fuel acts e, no_outages i ->
    env_run sigma i fuel (shenv K e) acts = option_map (shenv K) (env_run sigma i fuel e acts)
    /\ env_makespan (shenv K e) = option_map (fun z => (z + K)%Z) (env_makespan e).
Proof. intros K sigma i fuel acts e [A B]. split; [apply env_run_sh; auto|apply env_makespan_sh]. Qed.
Print Assumptions C12_episodes_are_translation_invariant_without_outages.

(* a compiled initial state carries no time stamp: shifting it is moving its clock, which is what a different start_time compiles to *)
Theorem C12_shifting_an_initial_state_moves_the_clock_only :
  forall K x, timeless_b x = true -> sh K x = set_now x (s_now x + K)%Z.
Proof. exact timeless_sh. Qed.
Print Assumptions C12_shifting_an_initial_state_moves_the_clock_only.

(* non-vacuity: a compiled instance without outages (3 jobs, 2 machines, 1 AGV) and its initial state meet the hypotheses, and a run of
   four accepted offers from start 0 and from start 1000 ends with clocks that differ by exactly 1000 *)
Example C12_translation_invariance_nontrivial :
  no_outages dl_inst /\ timeless_b dl_init = true
  /\ exists r0 m0 rK mK,
       mw_reset dl_sigma dl_inst 200 dl_init 5%Z false (mkMw 5%Z 0 0 false) = MOk r0 m0 []
       /\ mw_reset dl_sigma dl_inst 200 (sh 1000 dl_init) 5%Z false (mkMw 5%Z 0 0 false) = MOk rK mK []
       /\ rK = shres 1000 r0 /\ r_offers r0 <> [].
Proof.
  split.
  { split; intros k c H; (do 4 (destruct k as [|k]; [vm_compute in H; inversion H; reflexivity|])); vm_compute in H; destruct k; discriminate. }
  split; [vm_compute; reflexivity|]. do 4 eexists. split; [vm_compute; reflexivity|]. split; [vm_compute; reflexivity|].
  split; [vm_compute; reflexivity|]. vm_compute. discriminate.
Qed.

