(* C12 - Simulated time is monotone and event-exact; no component is ever overdue.
   (Translation invariance: see C12_shift_* below / DESIGN.md.) *)
From Coq Require Import List ZArith Bool.
From JSL Require Import Base.Res SM.Types SM.Util SM.Handler SM.Step SM.Middleware SM.Inv SM.Example
  SMP.StepInv SMP.Clock SMP.ClockStep SMP.ClockMain.
Import ListNotations.

(* clock_b = nothing pending lies in the past (every PROCESSING operation ends >= now, every non-idle
   AGV's occupied_till >= now) + idle/delivered AGVs claim nothing + sampled times are non-negative. *)

(* no transition moves the clock: time advances only in a time-machine call *)
Theorem C12_transitions_keep_clock :
  forall sigma i x tr x', apply_transition sigma i x tr = Ok x' -> s_now x' = s_now x.
Proof. exact apply_now. Qed.
Print Assumptions C12_transitions_keep_clock.

(* the time machines never go backwards and never jump past anything pending *)
Theorem C12_time_machine :
  forall i tm x t, tm <> TMJumpByOne -> clock_b x = true -> run_time_machine i tm x = Ok t ->
    (s_now x <= t)%Z /\ clock_b (set_now x t) = true.
Proof.
  intros i tm x t Htm H Hr. apply NO_iff_clock_b in H.
  destruct (run_tm_ok i tm x t Htm H Hr) as [A B]. split; auto. apply NO_iff_clock_b; auto.
Qed.
Print Assumptions C12_time_machine.

(* from every live state the environment can reach (any instance with non-negative configured
   durations, any oracle/seed, any accept/decline sequence, any truncation setting, any fuel):
   after one more agent decision, every intermediate micro-state satisfies the clock invariant, the
   clock values along the micro-log form a non-decreasing chain starting at the previous clock, and
   the new state (before the clock adjustment of a terminal result) satisfies the invariant too *)
Theorem C12_monotone_no_overdue :
  forall sigma i, inst_nonneg_b i = true ->
  forall fuel x0 joker0 ta r m a r' m' lg,
    clock_b x0 = true -> reach sigma i fuel x0 joker0 ta r m -> mw_step sigma i fuel r m a = MOk r' m' lg ->
    (forall tr y, In (tr, y) lg -> clock_b y = true)
    /\ exists xq, chain (s_now (r_x r)) lg (s_now xq) /\ clock_b xq = true
         /\ (r_x r' = xq \/ (r_offers r' = [] /\ all_in_output i xq = true /\ exists z, r_x r' = set_now xq z)).
Proof.
  intros sigma i Hnn fuel x0 joker0 ta r m a r' m' lg H0. apply NO_iff_clock_b in H0.
  exact (reach_step_clock sigma i Hnn fuel x0 joker0 ta r m a r' m' lg H0).
Qed.
Print Assumptions C12_monotone_no_overdue.

Theorem C12_reachable_live_states :
  forall sigma i, inst_nonneg_b i = true ->
  forall fuel x0 joker0 ta r m, clock_b x0 = true -> reach sigma i fuel x0 joker0 ta r m ->
    r_offers r <> [] -> clock_b (r_x r) = true.
Proof.
  intros sigma i Hnn fuel x0 joker0 ta r m H0 Hr Hne. apply NO_iff_clock_b in H0. apply NO_iff_clock_b.
  eapply reach_NO; eauto.
Qed.
Print Assumptions C12_reachable_live_states.

Example C12_hypotheses_satisfiable : inst_nonneg_b ex_inst = true /\ clock_b ex_state = true.
Proof. vm_compute. split; reflexivity. Qed.
