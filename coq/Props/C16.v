(* C16 - The compiled instance is the instance the specification describes (compiler back end on
   tokenised documents; the text layer is tied by the correspondence runs only). *)
From Coq Require Import List ZArith Bool.
From JSL Require Import Base.Res SM.Types SM.Util Dsl.Doc Dsl.DocP.
Import ListNotations.

(* directed travel times: the entry the state machine looks up for (from, to) is the cell written in
   the row named `from` under the column named `to`; for every matrix size, every naming of the
   places (machines, custom buffers, input/output aliases), rows in any order *)
Theorem C16_direction :
  forall d L nmach nbuf lg from to row v,
    d_log d = Some lg -> In row (dl_rows lg) -> place_of_name L (fst row) = Some from ->
    (forall r', In r' (dl_rows lg) -> place_of_name L (fst r') = Some from -> r' = row) ->
    cell_of (map (place_of_name L) (dl_names lg)) to row = Some (to, v) ->
    travel_lookup (travel_of d L nmach nbuf) from to = Some (Det v).
Proof. exact travel_direction. Qed.
Print Assumptions C16_direction.

(* non-vacuity and orientation on a concrete asymmetric matrix: m-0 -> m-1 costs 2, m-1 -> m-0 costs 7 *)
Definition ex_doc : ddoc :=
  mkDDoc [[(0%nat, 3%Z); (1%nat, 2%Z)]; [(1%nat, 2%Z); (0%nat, 4%Z)]] None None
    (Some (mkDLog (Some 1%nat) [NMach 0; NMach 1; NIn; NOut]
       [(NMach 0, [0; 2; 5; 1]%Z); (NMach 1, [7; 0; 3; 4]%Z); (NIn, [1; 1; 0; 9]%Z); (NOut, [2; 2; 9; 0]%Z)]))
    [] DMNone [] (mkDInit None [] [] []).
Example C16_direction_example :
  match compile ex_doc true with
  | Ok (i, _, _) => travel_lookup (i_travel i) (PM 0) (PM 1) = Some (Det 2)
                    /\ travel_lookup (i_travel i) (PM 1) (PM 0) = Some (Det 7)
                    /\ travel_lookup (i_travel i) (PB 0) (PB 1) = Some (Det 9)
                    /\ length (i_trans i) = 1%nat
  | Err _ => False
  end.
Proof. vm_compute. repeat split. Qed.

(* Jobs, operation order, machines and durations of the compiled instance are exactly those of the document's
   job table - for every document the compiler model accepts. *)
Theorem C16_jobs_as_written :
  forall (d : ddoc) (early : bool) (i : inst) (L : labels),
    compile_inst d early = Ok (i, L) ->
    map (map (fun oc => (oc_mach oc, oc_dur oc))) (i_jobs i) = map (map (fun md => (fst md, Det (snd md)))) (d_jobs d).
Proof. exact compile_jobs_as_written. Qed.
Print Assumptions C16_jobs_as_written.

(* Numbers of machines and AGVs, the standalone buffers (type, capacity, role through custom_buf) and the
   early-transport switch are the document's, with the documented defaults for what is omitted. *)
Theorem C16_shape_as_written :
  forall (d : ddoc) (early : bool) (i : inst) (L : labels),
    compile_inst d early = Ok (i, L) ->
    nm d = Ok (length (i_machs i))
    /\ length (i_trans i) = (match match d_log d with Some lg => dl_amount lg | None => None end with
                              | Some n => n | None => nj d end)
    /\ i_bufs i = (match d_bufs d with
                    | [] => [default_buf RInput; default_buf ROutput]
                    | l => map (fun e => custom_buf (snd e)) l end)
    /\ i_early i = early.
Proof. exact compile_shape_as_written. Qed.
Print Assumptions C16_shape_as_written.
