(* C16 - The compiled instance is the instance the specification describes (compiler back end on
   tokenised documents; the text layer is tied by the correspondence runs only). *)
From Coq Require Import List ZArith Bool.
From JSL Require Import Base.Res SM.Types SM.Util Dsl.Doc Dsl.DocP.
Import ListNotations.

(* directed travel times: the entry the state machine looks up for (from, to) is the cell written in
   the row named `from` under the column named `to`; for every matrix size, every naming of the
   places (machines, custom buffers, input/output aliases), rows in any order *)
Theorem C16_direction :
  forall d L nmach nbuf lg from to row v,
    d_log d = Some lg -> In row (dl_rows lg) -> place_of_name L (fst row) = Some from ->
    (forall r', In r' (dl_rows lg) -> place_of_name L (fst r') = Some from -> r' = row) ->
    cell_of (map (place_of_name L) (dl_names lg)) to row = Some (to, v) ->
    travel_lookup (travel_of d L nmach nbuf) from to = Some (Det v).
Proof. exact travel_direction. Qed.
Print Assumptions C16_direction.

(* non-vacuity and orientation on a concrete asymmetric matrix: m-0 -> m-1 costs 2, m-1 -> m-0 costs 7 *)
Definition ex_doc : ddoc :=
  mkDDoc [[(0%nat, 3%Z); (1%nat, 2%Z)]; [(1%nat, 2%Z); (0%nat, 4%Z)]] None None
    (Some (mkDLog (Some 1%nat) [NMach 0; NMach 1; NIn; NOut]
       [(NMach 0, [0; 2; 5; 1]%Z); (NMach 1, [7; 0; 3; 4]%Z); (NIn, [1; 1; 0; 9]%Z); (NOut, [2; 2; 9; 0]%Z)]))
    [] DMNone [] (mkDInit None [] [] []).
Example C16_direction_example :
  match compile ex_doc true with
  | Ok (i, _, _) => travel_lookup (i_travel i) (PM 0) (PM 1) = Some (Det 2)
                    /\ travel_lookup (i_travel i) (PM 1) (PM 0) = Some (Det 7)
                    /\ travel_lookup (i_travel i) (PB 0) (PB 1) = Some (Det 9)
                    /\ length (i_trans i) = 1%nat
  | Err _ => False
  end.
Proof. vm_compute. repeat split. Qed.

(* Jobs, operation order, machines and durations of the compiled instance are exactly those of the document's
   job table - for every document the compiler model accepts. *)
Theorem C16_jobs_as_written :
  forall (d : ddoc) (early : bool) (i : inst) (L : labels),
    compile_inst d early = Ok (i, L) ->
    map (map (fun oc => (oc_mach oc, oc_dur oc))) (i_jobs i) = map (map (fun md => (fst md, Det (snd md)))) (d_jobs d).
Proof. exact compile_jobs_as_written. Qed.
Print Assumptions C16_jobs_as_written.

(* Numbers of machines and AGVs, the standalone buffers (type, capacity, role through custom_buf) and the
   early-transport switch are the document's, with the documented defaults for what is omitted. *)
Theorem C16_shape_as_written :
  forall (d : ddoc) (early : bool) (i : inst) (L : labels),
    compile_inst d early = Ok (i, L) ->
    nm d = Ok (length (i_machs i))
    /\ length (i_trans i) = (match match d_log d with Some lg => dl_amount lg | None => None end with
                              | Some n => n | None => nj d end)
    /\ i_bufs i = (match d_bufs d with
                    | [] => [default_buf RInput; default_buf ROutput]
                    | l => map (fun e => custom_buf (snd e)) l end)
    /\ i_early i = early.
Proof. exact compile_shape_as_written. Qed.
Print Assumptions C16_shape_as_written.

(* machines, AGVs, tools and outages of the compiled instance are those written in the document, with the documented defaults: every machine gets the
   pre- and post-buffer specification given for it (global or per machine; otherwise the unbounded flex default), a one-slot internal buffer, the
   setup matrix written for it and exactly the outage definitions that name it or all machines; every AGV a one-slot buffer and the transport
   outages (none for the default one-AGV-per-job logistics); every operation the tool tool_usage lists at its position (tool 0 without tool_usage) *)
Theorem C16_machines_as_written :
  forall (d : ddoc) (early : bool) (i : inst) (L : labels) (m : nat) (mc : mcfg),
    compile_inst d early = Ok (i, L) -> nth_error (i_machs i) m = Some mc ->
    exists nmach st, nm d = Ok nmach /\ setup_of d m nmach = Ok st
      /\ mc = mkMCfg (apply_spec (default_buf RComponent) (fst (mach_specs d m))) inner_buf
                     (apply_spec (default_buf RComponent) (snd (mach_specs d m))) st (outages_for d true m).
Proof. exact compile_machines_as_written. Qed.
Print Assumptions C16_machines_as_written.

Theorem C16_agvs_as_written :
  forall (d : ddoc) (early : bool) (i : inst) (L : labels) (ac : acfg),
    compile_inst d early = Ok (i, L) -> In ac (i_trans i) ->
    ac = mkACfg inner_buf (match match d_log d with Some lg => dl_amount lg | None => None end with
                           | Some _ => outages_for d false 0%nat | None => [] end).
Proof. exact compile_agvs_as_written. Qed.
Print Assumptions C16_agvs_as_written.

Theorem C16_tools_as_written :
  forall (d : ddoc) (early : bool) (i : inst) (L : labels) (j : nat) (ops : list opcfg) (k : nat) (oc : opcfg),
    compile_inst d early = Ok (i, L) -> nth_error (i_jobs i) j = Some ops -> nth_error ops k = Some oc ->
    match d_tools d with
    | None => oc_tool oc = 0%nat
    | Some tu => exists ts, nth_error tu j = Some ts /\ nth_error ts k = Some (oc_tool oc)
    end.
Proof. exact compile_tools_as_written. Qed.
Print Assumptions C16_tools_as_written.

(* the setup matrix is compiled row = from-tool, column = to-tool: the entry the state machine looks up for (mounted tool a, tool of the next operation b)
   on machine m is the cell written in the row of tool a under the column of tool b of the matrix the document gives for m - for every matrix size,
   rows in any order (with C09: the handler reads matrix[(mounted, new)]) *)
Theorem C16_setup_direction :
  forall d m nmach l hdr rows st a b row v,
    d_setup d = Some l -> find (fun e => Nat.eqb (fst e) m) l = Some (m, (hdr, rows)) -> setup_of d m nmach = Ok st ->
    In row rows -> fst row = a -> (forall r', In r' rows -> fst r' = a -> r' = row) ->
    scell_of hdr b row = Some (b, v) ->
    setup_lookup st a b = Some (Det v).
Proof. exact setup_direction. Qed.
Print Assumptions C16_setup_direction.

