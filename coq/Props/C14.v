(* C14 - The environment honours the Gymnasium contract (observation part + action rejection). *)
From Coq Require Import List ZArith QArith Bool.
From JSL Require Import Base.Res SM.Types SM.Util SM.Handler SM.Step SM.Middleware SM.Inv SM.Example
  Obs.ObsModel Obs.ObsP SMP.Decline.
Import ListNotations.

(* integer-valued fields of SimpleJssp/BinaryAction observations (job_running, job_executed_on_machine,
   job_progression, machine_running, machine_progression, available_jobs): shapes and bounds of the
   declared Boxes (after the repair of the progression bounds), for every instance and every state whose
   operation records sit on their configured machines *)
Theorem C14_int_fields_in_space :
  forall i tmax x o, shape_b i x = true -> make_simple i tmax x = Ok o -> simple_int_fields_in_space i o = true.
Proof. exact simple_int_fields_ok. Qed.
Print Assumptions C14_int_fields_in_space.

(* the encoding of the pending offer lies in [0,1]^3 *)
Theorem C14_offer_in_space :
  forall i nj tr t, (match tr_job tr with Some j => (j <= nj)%nat | None => True end) ->
    encode_offer i nj tr = Ok t -> triple_in_space t = true.
Proof. exact encode_in_space. Qed.
Print Assumptions C14_offer_in_space.

(* current_time in Box(0,1) is FALSE of the faithful model: the compiled example instance (start time
   1000, sum of durations 12) violates it already in its initial state *)
Theorem C14_current_time_refuted :
  exists o, make_simple ex_inst 12 ex_state = Ok o /\ time_in_space o = false.
Proof. eexists. split; [vm_compute; reflexivity|vm_compute; reflexivity]. Qed.
Print Assumptions C14_current_time_refuted.

(* actions outside the action space are rejected (the state is not even looked at) *)
Theorem C14_bad_action :
  forall sigma i fuel r m a o rest, r_offers r = o :: rest -> (a <> 0)%Z -> (a <> 1)%Z ->
    mw_step sigma i fuel r m a = MRaise EActionSpace.
Proof. exact bad_action_rejected. Qed.
Print Assumptions C14_bad_action.

(* stepping a finished episode raises the dedicated error *)
Theorem C14_done_raises :
  forall sigma i fuel e a, env_done e = true -> env_step sigma i fuel e a = ERaise EEnvDone.
Proof. exact env_done_raises. Qed.

Example C14_shape_satisfiable : shape_b ex_inst ex_state = true.
Proof. vm_compute. reflexivity. Qed.
