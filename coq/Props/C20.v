(* C20 - Stepping is functional: rejected actions have no effect. (Object non-mutation and
   repeatability are not expressible over immutable Gallina values; they are decided by the harness.) *)
From Coq Require Import List ZArith Bool.
From JSL Require Import Base.Res SM.Types SM.Util SM.Handler SM.Step SM.Middleware SMP.Atomic Gen.Kernels Gen.KernelsEq.
Import ListNotations.

(* a step that reports failure returns exactly the state it was given (jobs, clock, machines,
   transports, buffers) - for every instance, state, action, time machine and fuel *)
Theorem C20_atomic :
  forall sigma i fuel x0 trs tm xf lg, step sigma i fuel x0 trs tm = SFail xf lg -> same_shop xf x0.
Proof. exact step_fail_returns_input. Qed.
Print Assumptions C20_atomic.

(* if some transition of the action is rejected when its turn comes (transports first, stable order),
   the step never succeeds: it fails with the input state, or an exception escapes *)
Theorem C20_rejects :
  forall sigma i fuel x0 trs tm, trs <> [] -> rejected_in sigma i (sorted_by_transport trs) x0 ->
    (exists xf lg, step sigma i fuel x0 trs tm = SFail xf lg /\ same_shop xf x0)
    \/ (exists e, step sigma i fuel x0 trs tm = SRaise e).
Proof. exact step_rejects. Qed.
Print Assumptions C20_rejects.

(* transitions that are not allowed in the component's current phase are always rejected *)
Theorem C20_machine_phase_invalid :
  forall x m ms tr, nth_error (s_machs x) m = Some ms -> tr_comp tr = CM m ->
    is_valid_transition machine_table (NM (m_st ms)) (tr_new tr) = false -> is_transition_valid x tr = Ok false.
Proof. exact machine_phase_invalid. Qed.
Theorem C20_transport_phase_invalid :
  forall x t ts tr, nth_error (s_trans x) t = Some ts -> tr_comp tr = CT t ->
    is_valid_transition transport_table (NT (t_st ts)) (tr_new tr) = false -> is_transition_valid x tr = Ok false.
Proof. exact transport_phase_invalid. Qed.
Theorem C20_machine_table :
  forall a b, is_valid_transition machine_table (NM a) (NM b) = true <->
    (a = MIdle /\ b = MSetup) \/ (a = MSetup /\ b = MWorking) \/ (a = MWorking /\ b = MOutage) \/ (a = MOutage /\ b = MIdle).
Proof. exact machine_table_spec. Qed.
Print Assumptions C20_machine_phase_invalid.

(* the environment ends the episode as truncated (not terminated) and keeps its state *)
Theorem C20_env_truncates :
  forall sigma i fuel (e : env) a sto m,
    env_done e = false -> mw_step sigma i fuel (e_res e) (e_mw e) a = MFail sto m ->
    exists e', env_step sigma i fuel e a = EOk e' [] /\ e_trunc e' = true /\ e_term e' = false
               /\ same_shop (r_x (e_res e')) (r_x (e_res e)) /\ r_offers (e_res e') = r_offers (e_res e)
               /\ e_hist e' = e_hist e.
Proof. exact env_failed_step_truncates. Qed.
Print Assumptions C20_env_truncates.

(* The validation tables of the model ARE the implementation's: Gen/Kernels.v is regenerated from
   jobshoplab/state_machine/core/transitions.py on every run and proved equal to the model's definitions. *)
Theorem C20_tables_are_the_code's :
  (forall s, gen_match_state s = match_state s) /\ (forall c, gen_machine_table c = machine_table c)
  /\ (forall c, gen_transport_table c = transport_table c)
  /\ (forall table cur new, gen_is_valid_transition table cur new = is_valid_transition table cur new).
Proof.
  split; [exact gen_match_state_eq|]. split; [exact gen_machine_table_eq|]. split; [exact gen_transport_table_eq|].
  exact gen_is_valid_transition_eq.
Qed.
Print Assumptions C20_tables_are_the_code's.
