(* C19 - Reward is aligned with the objective: shorter makespan, higher terminal reward. *)
From Coq Require Import List ZArith QArith Bool.
From JSL Require Import Base.Res Obs.Reward Obs.RewardP Classic.Jssp Classic.LowerBound Classic.Sequential.
Import ListNotations.
Open Scope Q_scope.

Theorem C19_nonfinal :
  forall c streak time noop q streak', reward c streak time false false noop = Ok (q, streak') ->
    (rc_nops c <> 0)%Z /\
    ((q == 0 * rc_dense c /\ (streak' < rc_njobs c)%nat) \/
     (q == - (1 / qz (rc_nops c)) * rc_dense c /\ (rc_njobs c <= streak')%nat)) /\
    streak' = (if noop then S streak else O).
Proof. exact reward_nonfinal. Qed.
Print Assumptions C19_nonfinal.

Theorem C19_truncated :
  forall c streak time term noop q streak', reward c streak time term true noop = Ok (q, streak') ->
    ~ rc_sparse c == 0 /\ exists d, q == rc_trunc c + d * rc_dense c /\ (d == 0 \/ d == - (1 / qz (rc_nops c))).
Proof. exact reward_truncated. Qed.
Print Assumptions C19_truncated.

Theorem C19_terminal :
  forall c streak time noop q streak', reward c streak time true false noop = Ok (q, streak') ->
    (rc_tmax c - rc_lb c <> 0)%Z /\
    exists d, q == terminal_term c time * rc_sparse c + d * rc_dense c /\ (d == 0 \/ d == - (1 / qz (rc_nops c))).
Proof. exact reward_terminal. Qed.
Print Assumptions C19_terminal.

Theorem C19_strictly_decreasing :
  forall c mk1 mk2, (rc_lb c < rc_tmax c)%Z -> (mk1 < mk2)%Z -> terminal_term c mk2 < terminal_term c mk1.
Proof. exact terminal_term_decreasing. Qed.
Theorem C19_at_lower_bound : forall c, (rc_lb c < rc_tmax c)%Z -> terminal_term c (rc_lb c) == 1.
Proof. exact terminal_term_at_lb. Qed.
Theorem C19_le_one : forall c mk, (rc_lb c < rc_tmax c)%Z -> (rc_lb c <= mk)%Z -> terminal_term c mk <= 1.
Proof. exact terminal_term_le_one. Qed.
Print Assumptions C19_strictly_decreasing.

(* the denominator is never negative: LB <= Tmax for every classic instance *)
Theorem C19_lb_le_tmax :
  forall I lb, classic I -> (0 < nmach I)%nat -> lower_bound I = Some lb -> (lb <= total_work I)%Z.
Proof. intros. eapply lower_bound_le_total; eauto. Qed.
Print Assumptions C19_lb_le_tmax.

(* "finite for every instance the environment accepts" is FALSE: when the lower bound equals the
   sum of all durations the terminal reward divides by zero *)
Theorem C19_finite_refuted :
  exists c, rc_lb c = rc_tmax c /\ forall streak time noop, reward c streak time true false noop = Err EPyZeroDiv.
Proof.
  exists (mkRCfg 1 (1#1000) (-1) 5 5 2 1). split; [reflexivity|].
  intros. apply reward_terminal_zero_division. reflexivity.
Qed.
(* such instances are accepted: one job carrying all the work, lower bound = total work *)
Example C19_refuted_instance :
  lower_bound [[(0%nat, 3%Z); (1%nat, 2%Z)]; [(1%nat, 0%Z); (0%nat, 0%Z)]] = Some (total_work [[(0%nat, 3%Z); (1%nat, 2%Z)]; [(1%nat, 0%Z); (0%nat, 0%Z)]]).
Proof. vm_compute. reflexivity. Qed.
Print Assumptions C19_finite_refuted.

(* "shorter makespan, higher main term" is FALSE outside classic instances: for a re-entrant routing (a job visits
   a machine twice) the implementation's lower bound exceeds the sum of all durations, the normalisation
   T_max - LB is negative and the main term GROWS with the makespan (known finding F-C19-lb-above-tmax; the
   environment accepts the instance, the C19 check compares finished episodes of one instance). *)
Example C19_reentrant_lb_above_total :
  let I := [[(0%nat, 0%Z); (0%nat, 1%Z); (2%nat, 0%Z)]; [(0%nat, 1%Z); (0%nat, 5%Z); (0%nat, 1%Z)]] in
  lower_bound I = Some 9%Z /\ total_work I = 8%Z.
Proof. vm_compute. split; reflexivity. Qed.
Theorem C19_decreasing_refuted_reentrant :
  exists c, (rc_tmax c < rc_lb c)%Z /\ terminal_term c 13 < terminal_term c 15.
Proof. exists (mkRCfg 1 (1#1000) (-1) 8 9 6 2). split; [reflexivity|]. vm_compute. reflexivity. Qed.
Print Assumptions C19_decreasing_refuted_reentrant.
