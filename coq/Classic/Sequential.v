(* The sequential schedule (one job after the other) is feasible with makespan = sum of all durations;
   hence lower bound <= max_allowed_time for every classic instance (used by C19). *)
From Coq Require Import List ZArith Bool Arith Lia.
From JSL Require Import Base.ListX SMP.ListLemmas Classic.Jssp Classic.Packing Classic.LowerBound.
Import ListNotations.
Open Scope Z_scope.

Definition offset (I : cinst) (j : nat) : Z := zsum (map job_work (firstn j I)).
Definition seq_sched (I : cinst) : sched :=
  fun j k => offset I j + zsum (durs (firstn k (nth j I []))).

Lemma zsum_nonneg l : (forall x, In x l -> 0 <= x) -> 0 <= zsum l.
Proof. induction l; simpl; intros H; [lia|]. pose proof (H a (or_introl eq_refl)). assert (0 <= zsum l) by (apply IHl; intros; apply H; right; auto). unfold zsum in *. simpl. lia. Qed.

Lemma In_firstn_incl {A} (l : list A) n x : In x (firstn n l) -> In x l.
Proof. intros H. rewrite <- (firstn_skipn n l). apply in_app_iff. left; auto. Qed.

Lemma zsum_single a : zsum [a] = a.
Proof. unfold zsum. simpl. lia. Qed.

Lemma firstn_snoc {A} (l : list A) k a : nth_error l k = Some a -> firstn (S k) l = firstn k l ++ [a].
Proof.
  revert l; induction k; intros [|h t] E; simpl in *; try discriminate.
  - inversion E; auto. - f_equal. apply IHk; auto.
Qed.

Lemma prefix_mono (l : list Z) k k' : (forall x, In x l -> 0 <= x) -> (k <= k')%nat ->
  zsum (firstn k l) <= zsum (firstn k' l).
Proof.
  intros Hnn Hle. induction Hle; [lia|].
  destruct (nth_error l m) as [a|] eqn:E.
  - rewrite (firstn_snoc _ _ _ E), zsum_app, zsum_single. pose proof (Hnn a (nth_error_In _ _ E)). lia.
  - apply nth_error_None in E. rewrite (@firstn_all2 _ (S m) l) by lia. rewrite (@firstn_all2 _ m l) in IHHle by lia. lia.
Qed.

Lemma prefix_le_total (l : list Z) k : (forall x, In x l -> 0 <= x) -> zsum (firstn k l) <= zsum l.
Proof.
  intros Hnn. destruct (Nat.le_gt_cases k (length l)).
  - rewrite <- (firstn_all l) at 2. apply prefix_mono; auto.
  - rewrite firstn_all2 by lia. lia.
Qed.

Section Seq.
Variable I : cinst.
Hypothesis Hc : classic I.

Lemma durs_nonneg ops : In ops I -> forall x, In x (durs ops) -> 0 <= x.
Proof.
  intros Hin x Hx. unfold durs in Hx. apply in_map_iff in Hx. destruct Hx as [o [<- Ho]].
  destruct Hc as [_ H]. destruct (H ops Hin) as [_ [_ Hr]]. apply Hr; auto.
Qed.

Lemma job_work_nonneg ops : In ops I -> 0 <= job_work ops.
Proof. intros Hin. unfold job_work. apply zsum_nonneg. apply durs_nonneg; auto. Qed.

Lemma works_nonneg x : In x (map job_work I) -> 0 <= x.
Proof. intros Hx. apply in_map_iff in Hx. destruct Hx as [ops [<- Hin]]. apply job_work_nonneg; auto. Qed.

Lemma offset_mono j j' : (j <= j')%nat -> offset I j <= offset I j'.
Proof. intros H. unfold offset. rewrite <- !firstn_map. apply prefix_mono; auto. apply works_nonneg. Qed.

Lemma offset_succ j ops : nth_error I j = Some ops -> offset I (S j) = offset I j + job_work ops.
Proof. intros H. unfold offset. rewrite (firstn_snoc _ _ _ H), map_app, zsum_app. simpl map. rewrite zsum_single. lia. Qed.

Lemma offset_le_total j : offset I j <= total_work I.
Proof. unfold offset, total_work. rewrite <- firstn_map. apply prefix_le_total. apply works_nonneg. Qed.

Lemma nth_job j ops : nth_error I j = Some ops -> nth j I [] = ops.
Proof. intros H. apply nth_error_nth with (d := []) in H. auto. Qed.

Lemma op_at_inv j k md : op_at I j k = Some md -> exists ops, nth_error I j = Some ops /\ nth_error ops k = Some md.
Proof. unfold op_at. destruct (nth_error I j) as [ops|]; [|discriminate]. eauto. Qed.

(* completion of operation k of job j = offset + prefix through k *)
Lemma seq_end j k ops md : nth_error I j = Some ops -> nth_error ops k = Some md ->
  seq_sched I j k + snd md = offset I j + zsum (durs (firstn (S k) ops)).
Proof.
  intros Hj Hk. unfold seq_sched. rewrite (nth_job _ _ Hj), (firstn_snoc _ _ _ Hk).
  unfold durs. rewrite map_app, zsum_app. simpl map. rewrite zsum_single. lia.
Qed.

Lemma seq_end_le_next j k ops md : nth_error I j = Some ops -> nth_error ops k = Some md ->
  seq_sched I j k + snd md <= offset I (S j).
Proof.
  intros Hj Hk. rewrite (seq_end _ _ _ _ Hj Hk), (offset_succ _ _ Hj). unfold job_work.
  pose proof (prefix_le_total (durs ops) (S k) (durs_nonneg ops (nth_error_In _ _ Hj))) as H.
  unfold durs in *. rewrite <- firstn_map. lia.
Qed.

Theorem seq_sched_feasible : feasible I (seq_sched I).
Proof.
  split; [|split].
  - intros j k md H. destruct (op_at_inv _ _ _ H) as [ops [Hj Hk]]. unfold seq_sched. rewrite (nth_job _ _ Hj).
    assert (0 <= offset I j) by (unfold offset; apply zsum_nonneg; intros x Hx; rewrite <- firstn_map in Hx;
      apply works_nonneg; eapply In_firstn_incl; eauto).
    assert (0 <= zsum (durs (firstn k ops))).
    { apply zsum_nonneg. intros x Hx. unfold durs in Hx. rewrite <- firstn_map in Hx.
      apply (durs_nonneg ops (nth_error_In _ _ Hj)). unfold durs. eapply In_firstn_incl; eauto. }
    lia.
  - intros j k md md' H H'. destruct (op_at_inv _ _ _ H) as [ops [Hj Hk]].
    rewrite (seq_end _ _ _ _ Hj Hk). unfold seq_sched. rewrite (nth_job _ _ Hj). lia.
  - intros j k j' k' md md' H H' _ Hne.
    destruct (op_at_inv _ _ _ H) as [ops [Hj Hk]]. destruct (op_at_inv _ _ _ H') as [ops' [Hj' Hk']].
    destruct (Nat.lt_trichotomy j j') as [Hlt|[Heq|Hgt]].
    + left. pose proof (seq_end_le_next _ _ _ _ Hj Hk). pose proof (offset_mono (S j) j' ltac:(lia)).
      unfold seq_sched at 2. rewrite (nth_job _ _ Hj').
      assert (0 <= zsum (durs (firstn k' ops'))).
      { apply zsum_nonneg. intros x Hx. unfold durs in Hx. rewrite <- firstn_map in Hx.
        apply (durs_nonneg ops' (nth_error_In _ _ Hj')). unfold durs. eapply In_firstn_incl; eauto. }
      lia.
    + subst j'. rewrite Hj in Hj'. inversion Hj'; subst ops'.
      assert (Hkk : k <> k') by (intros ->; apply Hne; reflexivity).
      destruct (Nat.lt_trichotomy k k') as [Hl|[He|Hg]]; [left|congruence|right].
      * rewrite (seq_end _ _ _ _ Hj Hk). unfold seq_sched. rewrite (nth_job _ _ Hj).
        pose proof (prefix_mono (durs ops) (S k) k' (durs_nonneg ops (nth_error_In _ _ Hj)) ltac:(lia)).
        unfold durs in *. rewrite <- !firstn_map. lia.
      * rewrite (seq_end _ _ _ _ Hj Hk'). unfold seq_sched. rewrite (nth_job _ _ Hj).
        pose proof (prefix_mono (durs ops) (S k') k (durs_nonneg ops (nth_error_In _ _ Hj)) ltac:(lia)).
        unfold durs in *. rewrite <- !firstn_map. lia.
    + right. pose proof (seq_end_le_next _ _ _ _ Hj' Hk'). pose proof (offset_mono (S j') j ltac:(lia)).
      unfold seq_sched at 2. rewrite (nth_job _ _ Hj).
      assert (0 <= zsum (durs (firstn k ops))).
      { apply zsum_nonneg. intros x Hx. unfold durs in Hx. rewrite <- firstn_map in Hx.
        apply (durs_nonneg ops (nth_error_In _ _ Hj)). unfold durs. eapply In_firstn_incl; eauto. }
      lia.
Qed.

Theorem seq_sched_makespan : makespan_le I (seq_sched I) (total_work I).
Proof.
  intros j k md H. destruct (op_at_inv _ _ _ H) as [ops [Hj Hk]].
  pose proof (seq_end_le_next _ _ _ _ Hj Hk). pose proof (offset_le_total (S j)). lia.
Qed.

(* C19_lb_le_tmax: the denominator of the terminal reward is never negative *)
Theorem lower_bound_le_total lb : (0 < nmach I)%nat -> lower_bound I = Some lb -> lb <= total_work I.
Proof.
  intros Hn H. eapply lower_bound_sound; eauto using seq_sched_feasible, seq_sched_makespan.
Qed.

End Seq.
