(* C06: the lower bound the environment computes never exceeds the makespan of any feasible schedule
   of a classic instance - for all sizes, routings and durations. *)
From Coq Require Import List ZArith Bool Arith Lia.
From JSL Require Import Base.ListX SMP.ListLemmas Classic.Jssp Classic.Packing.
Import ListNotations.
Open Scope Z_scope.

Lemma zsum_app l1 l2 : zsum (l1 ++ l2) = zsum l1 + zsum l2.
Proof. unfold zsum. induction l1; simpl; lia. Qed.

Lemma fold_min_le_all l : forall h x, In x (h :: l) -> fold_left Z.min l h <= x.
Proof.
  induction l as [|a l IH]; intros h x Hx; simpl in *.
  - destruct Hx as [->|[]]. lia.
  - destruct Hx as [->|[->|Hx]].
    + specialize (IH (Z.min x a) (Z.min x a) (or_introl eq_refl)). lia.
    + specialize (IH (Z.min h x) (Z.min h x) (or_introl eq_refl)). lia.
    + apply IH. right; auto.
Qed.

Lemma zmin_l_le l v x : zmin_l l = Some v -> In x l -> v <= x.
Proof. destruct l as [|h t]; simpl; intros H Hx; [destruct Hx|]. inversion H; subst. apply fold_min_le_all; auto. Qed.

Lemma fold_max_bound l : forall h C, h <= C -> (forall x, In x l -> x <= C) -> fold_left Z.max l h <= C.
Proof.
  induction l as [|a l IH]; intros h C Hh Hl; simpl; auto.
  apply IH; [|intros x Hx; apply Hl; right; auto]. specialize (Hl a (or_introl eq_refl)). lia.
Qed.

Lemma zmax_l_bound l v C : zmax_l l = Some v -> (forall x, In x l -> x <= C) -> v <= C.
Proof.
  destruct l as [|h t]; simpl; intros H Hl; [discriminate|]. inversion H; subst.
  apply fold_max_bound; [apply Hl; left; auto|intros x Hx; apply Hl; right; auto].
Qed.

Lemma zsum_durs_cons a l : zsum (durs (a :: l)) = snd a + zsum (durs l).
Proof. reflexivity. Qed.
Lemma zsum_durs_nil : zsum (durs []) = 0.
Proof. reflexivity. Qed.

Section Sound.
Variable I : cinst.
Variable s : sched.
Variable C : Z.
Hypothesis Hclassic : classic I.
Hypothesis Hnm : (0 < nmach I)%nat.
Hypothesis Hfeas : feasible I s.
Hypothesis Hmk : makespan_le I s C.

Lemma op_at_nth j ops k md : nth_error I j = Some ops -> nth_error ops k = Some md -> op_at I j k = Some md.
Proof. intros H1 H2. unfold op_at. rewrite H1. auto. Qed.

(* the work of the job before operation k has been done when k starts *)
Lemma chain_up j ops : nth_error I j = Some ops ->
  forall k, (k < length ops)%nat -> zsum (durs (firstn k ops)) <= s j k.
Proof.
  intros Hj. destruct Hfeas as [F1 [F2 _]].
  induction k as [|k IH]; intros Hk.
  - simpl. destruct (nth_error ops 0) as [md|] eqn:E; [|apply nth_error_None in E; lia].
    eapply F1. eapply op_at_nth; eauto.
  - assert (Hk' : (k < length ops)%nat) by lia. specialize (IH Hk').
    destruct (nth_error ops k) as [md|] eqn:E; [|apply nth_error_None in E; lia].
    destruct (nth_error ops (S k)) as [md'|] eqn:E'; [|apply nth_error_None in E'; lia].
    pose proof (F2 j k md md' (op_at_nth _ _ _ _ Hj E) (op_at_nth _ _ _ _ Hj E')) as Hp.
    assert (Efn : firstn (S k) ops = firstn k ops ++ [md]).
    { clear -E. revert ops E; induction k; intros [|h t] E; simpl in *; try discriminate.
      - inversion E; auto. - f_equal. apply IHk; auto. }
    rewrite Efn. unfold durs. rewrite map_app, zsum_app. simpl. fold (durs (firstn k ops)). lia.
Qed.

(* ... and everything from operation k on still has to fit before C *)
Lemma chain_down j ops : nth_error I j = Some ops ->
  forall n k, (k + n = length ops)%nat -> (0 < n)%nat -> s j k + zsum (durs (skipn k ops)) <= C.
Proof.
  intros Hj. destruct Hfeas as [F1 [F2 _]].
  induction n as [|n IH]; intros k Hlen Hn; [lia|].
  destruct (nth_error ops k) as [md|] eqn:E; [|apply nth_error_None in E; lia].
  assert (Esk : skipn k ops = md :: skipn (S k) ops).
  { clear -E. revert ops E; induction k; intros [|h t] E; simpl in *; try discriminate.
    - inversion E; auto. - apply IHk; auto. }
  rewrite Esk, zsum_durs_cons.
  destruct n as [|n'].
  - assert (Hs : skipn (S k) ops = []) by (apply skipn_all2; lia). rewrite Hs, zsum_durs_nil.
    pose proof (Hmk j k md (op_at_nth _ _ _ _ Hj E)). lia.
  - destruct (nth_error ops (S k)) as [md'|] eqn:E'; [|apply nth_error_None in E'; lia].
    pose proof (F2 j k md md' (op_at_nth _ _ _ _ Hj E) (op_at_nth _ _ _ _ Hj E')) as Hp.
    specialize (IH (S k)). assert (H1 : (S k + S n' = length ops)%nat) by lia. specialize (IH H1 ltac:(lia)).
    lia.
Qed.

Lemma ops_nonempty j ops : nth_error I j = Some ops -> (0 < length ops)%nat.
Proof.
  intros Hj. destruct Hclassic as [_ Hc]. destruct (Hc ops (nth_error_In _ _ Hj)) as [Hl _]. lia.
Qed.

(* job argument *)
Lemma job_bound j ops : nth_error I j = Some ops -> job_work ops <= C.
Proof.
  intros Hj. pose proof (ops_nonempty _ _ Hj) as Hl.
  pose proof (chain_down j ops Hj (length ops) 0%nat ltac:(lia) Hl) as H. simpl in H.
  pose proof (chain_up j ops Hj 0%nat Hl) as H0. simpl in H0. unfold job_work. lia.
Qed.

(* every job visits machine m exactly once *)
Lemma visits_once m ops : In ops I -> (m < nmach I)%nat ->
  exists k d, nth_error ops k = Some (m, d) /\ first_on m ops = Some k /\ 0 <= d.
Proof.
  intros Hin Hm. destruct Hclassic as [_ Hc]. destruct (Hc ops Hin) as [Hl [Hnd Hr]].
  assert (Hincl : incl (seq 0 (nmach I)) (map fst ops)).
  { apply NoDup_length_incl; auto.
    - rewrite seq_length, map_length. lia.
    - intros a Ha. apply in_map_iff in Ha. destruct Ha as [o [<- Ho]]. apply in_seq. destruct (Hr o Ho). lia. }
  assert (Hmem : In m (map fst ops)) by (apply Hincl; apply in_seq; lia).
  unfold first_on. destruct (find_idx (fun o => Nat.eqb (fst o) m) ops) as [k|] eqn:Ef.
  - destruct (find_idx_some _ _ _ Ef) as [[m' d] [Hk [Hp _]]]. simpl in Hp. apply Nat.eqb_eq in Hp. subst m'.
    exists k, d. repeat split; auto. apply (Hr (m, d)). eapply nth_error_In; eauto.
  - exfalso. apply find_idx_none in Ef. rewrite forallb_forall in Ef.
    apply in_map_iff in Hmem. destruct Hmem as [o [Ho Hi]]. specialize (Ef o Hi).
    rewrite Ho, Nat.eqb_refl in Ef. discriminate.
Qed.

(* the work of one job on machine m is the duration of its unique operation there *)
Lemma unique_work m : forall ops k d, NoDup (map fst ops) -> nth_error ops k = Some (m, d) ->
  zsum (map (fun o => if Nat.eqb (fst o) m then snd o else 0) ops) = d.
Proof.
  induction ops as [|[m' d'] t IH]; intros k d Hnd Hk; [destruct k; discriminate|].
  simpl in Hnd. inversion Hnd; subst. simpl.
  destruct k as [|k]; simpl in Hk.
  - inversion Hk; subst. rewrite Nat.eqb_refl.
    assert (Hz : zsum (map (fun o => if Nat.eqb (fst o) m then snd o else 0) t) = 0).
    { clear -H1. induction t as [|[a b] t IH]; simpl; auto. simpl in H1.
      destruct (Nat.eqb_spec a m); [subst; exfalso; apply H1; left; auto|].
      rewrite IH; auto. }
    unfold zsum in *. simpl. fold zsum. unfold zsum in Hz. rewrite Hz. lia.
  - destruct (Nat.eqb_spec m' m).
    + subst. exfalso. apply H1. apply in_map_iff. exists (m, d). split; auto. eapply nth_error_In; eauto.
    + specialize (IH k d H2 Hk). unfold zsum in *. simpl. rewrite IH. lia.
Qed.

(* the interval of the job's operation on machine m *)
Definition itv_of (m : nat) (j : nat) (ops : list (nat * Z)) : itv :=
  match first_on m ops with
  | Some k => match nth_error ops k with Some md => (s j k, snd md) | None => (0, 0) end
  | None => (0, 0)
  end.

Fixpoint enum {A} (n : nat) (l : list A) : list (nat * A) :=
  match l with [] => [] | a :: r => (n, a) :: enum (S n) r end.

Lemma in_enum {A} (l : list A) n j a : In (j, a) (enum n l) -> (n <= j)%nat /\ nth_error l (j - n) = Some a.
Proof.
  revert n; induction l as [|h t IH]; intros n H; simpl in H; [destruct H|].
  destruct H as [E|H].
  - inversion E; subst. rewrite Nat.sub_diag. split; auto.
  - destruct (IH _ H) as [H1 H2]. split; [lia|]. replace (j - n)%nat with (S (j - S n)) by lia. auto.
Qed.

Lemma total_intervals m : (m < nmach I)%nat ->
  forall l n, (forall ops, In ops l -> In ops I) ->
  total (map (fun p => itv_of m (fst p) (snd p)) (enum n l))
  = zsum (map (fun ops => zsum (map (fun o => if Nat.eqb (fst o) m then snd o else 0) ops)) l).
Proof.
  intros Hm. induction l as [|ops t IH]; intros n Hin; simpl; auto.
  rewrite IH by (intros; apply Hin; right; auto).
  destruct (visits_once m ops (Hin ops (or_introl eq_refl)) Hm) as [k [d [Hk [Hf Hd]]]].
  destruct Hclassic as [_ Hc]. destruct (Hc ops (Hin ops (or_introl eq_refl))) as [_ [Hnd _]].
  rewrite (unique_work m ops k d Hnd Hk). unfold itv_of. simpl. rewrite Hf, Hk. simpl. unfold zsum. simpl. lia.
Qed.

Lemma PW_intervals m : (m < nmach I)%nat ->
  forall l n, (forall j ops, In (j, ops) (enum n l) -> nth_error I j = Some ops) ->
  PW (map (fun p => itv_of m (fst p) (snd p)) (enum n l)).
Proof.
  intros Hm. induction l as [|ops t IH]; intros n Hin; simpl; [constructor|].
  constructor.
  - intros y Hy. apply in_map_iff in Hy. destruct Hy as [[j' ops'] [<- Hy]]. simpl.
    assert (Hj : nth_error I n = Some ops) by (apply Hin; left; auto).
    assert (Hj' : nth_error I j' = Some ops') by (apply Hin; right; auto).
    destruct (in_enum _ _ _ _ Hy) as [Hlt _].
    destruct (visits_once m ops (nth_error_In _ _ Hj) Hm) as [k [d [Hk [Hf Hd]]]].
    destruct (visits_once m ops' (nth_error_In _ _ Hj') Hm) as [k' [d' [Hk' [Hf' Hd']]]].
    unfold itv_of. rewrite Hf, Hk, Hf', Hk'. simpl.
    destruct Hfeas as [_ [_ F3]].
    specialize (F3 n k j' k' (m, d) (m, d') (op_at_nth _ _ _ _ Hj Hk) (op_at_nth _ _ _ _ Hj' Hk') eq_refl).
    unfold disj. simpl. apply F3. intros E. inversion E. lia.
  - apply IH. intros j ops' H. apply Hin. right; auto.
Qed.

Lemma enum_nth {A} (l : list A) : forall n j a, In (j, a) (enum n l) -> nth_error l (j - n) = Some a.
Proof. intros. eapply in_enum; eauto. Qed.

(* machine argument: head + total work + tail of machine m fits before C *)
Lemma machine_bound_le m v : (m < nmach I)%nat -> machine_bound I m = Some v -> v <= C.
Proof.
  intros Hm Hv. unfold machine_bound in Hv.
  destruct (zmin_l (map (head_work m) I)) as [b|] eqn:Eb; [|discriminate].
  destruct (zmin_l (map (tail_work m) I)) as [a|] eqn:Ea; [|discriminate].
  inversion Hv; subst; clear Hv.
  set (L := map (fun p => itv_of m (fst p) (snd p)) (enum 0 I)).
  assert (HenumI : forall j ops, In (j, ops) (enum 0 I) -> nth_error I j = Some ops).
  { intros j ops H. apply enum_nth in H. rewrite Nat.sub_0_r in H. auto. }
  assert (HT : total L = machine_work m I) by (apply total_intervals; auto).
  assert (HP : PW L) by (apply PW_intervals; auto).
  assert (Hwin : forall x, In x L -> 0 <= snd x /\ b <= fst x /\ fst x + snd x <= C - a).
  { intros x Hx. apply in_map_iff in Hx. destruct Hx as [[j ops] [<- Hin]]. simpl.
    pose proof (HenumI _ _ Hin) as Hj.
    destruct (visits_once m ops (nth_error_In _ _ Hj) Hm) as [k [d [Hk [Hf Hd]]]].
    unfold itv_of. rewrite Hf, Hk. simpl.
    assert (Hklt : (k < length ops)%nat) by (eapply nth_error_lt; eauto).
    pose proof (chain_up j ops Hj k Hklt) as Hup.
    assert (Hb : b <= head_work m ops).
    { eapply zmin_l_le; eauto. apply in_map. eapply nth_error_In; eauto. }
    assert (Ha : a <= tail_work m ops).
    { eapply zmin_l_le; eauto. apply in_map. eapply nth_error_In; eauto. }
    unfold head_work in Hb. rewrite Hf in Hb. unfold tail_work in Ha. rewrite Hf in Ha.
    pose proof (chain_down j ops Hj (length ops - k) k ltac:(lia) ltac:(lia)) as Hdown.
    assert (Esk : skipn k ops = (m, d) :: skipn (S k) ops).
    { clear -Hk. revert ops Hk; induction k; intros [|h t] E; simpl in *; try discriminate.
      - inversion E; auto. - apply IHk; auto. }
    rewrite Esk, zsum_durs_cons in Hdown. change (snd (m, d)) with d in Hdown.
    repeat split; lia. }
  destruct Hclassic as [Hne _]. destruct I as [|ops0 rest] eqn:EI; [congruence|].
  assert (Hin0 : In (itv_of m 0%nat ops0) L) by (unfold L; simpl; left; auto).
  destruct (Hwin _ Hin0) as [H1 [H2 H3]].
  pose proof (pack L b (C - a) HP Hwin ltac:(lia)) as Hpack. rewrite HT in Hpack. lia.
Qed.

(* C06_lb_sound *)
Theorem lower_bound_sound lb : lower_bound I = Some lb -> lb <= C.
Proof.
  intros H. unfold lower_bound in H.
  destruct (zmax_l (map job_work I)) as [mj|] eqn:Ej; [|discriminate].
  destruct (zmax_l _) as [mm|] eqn:Em in H; [|discriminate]. inversion H; subst.
  apply Z.max_lub.
  - eapply zmax_l_bound; eauto. intros x Hx. apply in_flat_map in Hx. destruct Hx as [m [Hm Hx]].
    apply in_seq in Hm. destruct (machine_bound I m) as [v|] eqn:Ev; [|destruct Hx].
    destruct Hx as [<-|[]]. apply (machine_bound_le m v); [lia|exact Ev].
  - eapply zmax_l_bound; eauto. intros x Hx. apply in_map_iff in Hx. destruct Hx as [ops [<- Hin]].
    apply In_nth_error in Hin. destruct Hin as [j Hj]. eapply job_bound; eauto.
Qed.

End Sound.
