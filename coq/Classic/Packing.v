(* Pairwise disjoint intervals inside a window [b, E] have total length at most E - b. *)
From Coq Require Import List ZArith Bool Arith Lia.
Import ListNotations.
Open Scope Z_scope.

Definition itv := (Z * Z)%type.   (* start, length *)
Definition disj (x y : itv) : Prop := fst x + snd x <= fst y \/ fst y + snd y <= fst x.

Lemma disj_sym x y : disj x y -> disj y x.
Proof. unfold disj; tauto. Qed.

Inductive PW : list itv -> Prop :=
| PW_nil : PW []
| PW_cons x l : (forall y, In y l -> disj x y) -> PW l -> PW (x :: l).

Definition total (l : list itv) : Z := fold_right (fun x acc => snd x + acc) 0 l.

Lemma total_app l1 l2 : total (l1 ++ l2) = total l1 + total l2.
Proof. induction l1; simpl; lia. Qed.

Lemma PW_app_inv l1 x l2 : PW (l1 ++ x :: l2) -> PW (l1 ++ l2) /\ forall y, In y (l1 ++ l2) -> disj x y.
Proof.
  induction l1 as [|h t IH]; simpl; intros H.
  - inversion H; subst. split; auto.
  - inversion H; subst. destruct (IH H3) as [P D]. split.
    + constructor; auto. intros y Hy. apply H2. apply in_app_iff in Hy. apply in_app_iff.
      destruct Hy; [left|right; right]; auto.
    + intros y [->|Hy]; auto. apply disj_sym. apply H2. apply in_app_iff. right; left; auto.
Qed.

Lemma exists_min_start (l : list itv) : l <> [] -> exists x, In x l /\ forall y, In y l -> fst x <= fst y.
Proof.
  induction l as [|h t IH]; [congruence|]. intros _.
  destruct t as [|h' t'].
  - exists h. split; [left; auto|]. intros y [->|[]]. lia.
  - destruct IH as [x [Hx Hm]]; [congruence|].
    destruct (Z_le_gt_dec (fst h) (fst x)).
    + exists h. split; [left; auto|]. intros y [->|Hy]; [lia|]. specialize (Hm _ Hy). lia.
    + exists x. split; [right; auto|]. intros y [->|Hy]; [lia|auto].
Qed.

(* positive-length intervals *)
Lemma pack_pos : forall n (l : list itv) b E,
  length l = n -> PW l -> (forall x, In x l -> 0 < snd x /\ b <= fst x /\ fst x + snd x <= E) ->
  l <> [] -> b + total l <= E.
Proof.
  induction n as [|n IH]; intros l b E Hn HP Hall Hne.
  - destruct l; [congruence|discriminate].
  - destruct (exists_min_start l Hne) as [x [Hx Hmin]].
    destruct (in_split _ _ Hx) as [l1 [l2 El]]. subst l.
    destruct (PW_app_inv _ _ _ HP) as [HP' HD].
    rewrite total_app. simpl.
    destruct (Hall x Hx) as [Hpos [Hb He]].
    assert (Hcase : l1 ++ l2 = [] \/ l1 ++ l2 <> []) by (destruct (l1 ++ l2); [left|right]; congruence).
    destruct Hcase as [E0|Hne2].
    + apply app_eq_nil in E0. destruct E0; subst. simpl. lia.
    + assert (Hlen : length (l1 ++ l2) = n).
      { rewrite app_length in *. simpl in Hn. lia. }
      assert (Hrest : (fst x + snd x) + total (l1 ++ l2) <= E).
      { apply (IH (l1 ++ l2) (fst x + snd x) E); auto.
        intros y Hy. assert (Hy' : In y (l1 ++ x :: l2)).
        { apply in_app_iff in Hy. apply in_app_iff. destruct Hy; [left|right; right]; auto. }
        destruct (Hall y Hy') as [Hp [Hb' He']]. repeat split; auto.
        specialize (HD y Hy). specialize (Hmin y Hy'). destruct HD as [D|D]; simpl in *; lia. }
      rewrite total_app in Hrest. lia.
Qed.

Lemma PW_filter f l : PW l -> PW (filter f l).
Proof.
  induction 1; simpl; [constructor|]. destruct (f x); auto.
  constructor; auto. intros y Hy. apply filter_In in Hy. apply H. tauto.
Qed.

Lemma total_filter_pos l : (forall x, In x l -> 0 <= snd x) -> total (filter (fun x => 0 <? snd x) l) = total l.
Proof.
  induction l as [|h t IH]; simpl; intros H; auto.
  assert (Ht : forall x, In x t -> 0 <= snd x) by (intros; apply H; right; auto).
  specialize (H h (or_introl eq_refl)).
  destruct (0 <? snd h) eqn:E; simpl; rewrite IH; auto.
  apply Z.ltb_ge in E. lia.
Qed.

(* the packing lemma with zero-length intervals allowed *)
Theorem pack : forall (l : list itv) b E,
  PW l -> (forall x, In x l -> 0 <= snd x /\ b <= fst x /\ fst x + snd x <= E) -> b <= E -> b + total l <= E.
Proof.
  intros l b E HP Hall HbE.
  rewrite <- total_filter_pos by (intros x Hx; apply Hall; auto).
  destruct (filter (fun x => 0 <? snd x) l) as [|h t] eqn:Ef.
  - simpl. lia.
  - rewrite <- Ef. apply (pack_pos (length (filter (fun x => 0 <? snd x) l))); auto.
    + apply PW_filter; auto.
    + intros x Hx. apply filter_In in Hx. destruct Hx as [Hx Hp]. apply Z.ltb_lt in Hp.
      destruct (Hall x Hx) as [_ [A B]]. auto.
    + rewrite Ef. congruence.
Qed.
