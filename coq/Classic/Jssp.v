(* Classic job-shop instances, schedules, feasibility, makespan; utils.calculate_lower_bound
   (Taillard bound) transcribed from the numpy loops. No proofs here. *)
From Coq Require Import List ZArith Bool Arith.
From JSL Require Import Base.ListX.
Import ListNotations.
Open Scope Z_scope.

(* an instance: per job the list of (machine, duration) *)
Definition cinst := list (list (nat * Z)).

Definition zsum (l : list Z) : Z := fold_right Z.add 0 l.
Definition durs (ops : list (nat * Z)) : list Z := map snd ops.

(* index of the first operation of the job on machine m, None if it never visits m *)
Definition first_on (m : nat) (ops : list (nat * Z)) : option nat := find_idx (fun o => Nat.eqb (fst o) m) ops.

(* calculate_bi: work of the job before it first reaches machine m (the whole job if it never does) *)
Definition head_work (m : nat) (ops : list (nat * Z)) : Z :=
  match first_on m ops with
  | Some k => zsum (durs (firstn k ops))
  | None => zsum (durs ops)
  end.

(* calculate_ai: work after the first operation on m; the loop leaves op_id at the last index if the
   machine is never met, so the tail is empty *)
Definition tail_work (m : nat) (ops : list (nat * Z)) : Z :=
  match first_on m ops with
  | Some k => zsum (durs (skipn (S k) ops))
  | None => 0
  end.

Definition machine_work (m : nat) (I : cinst) : Z :=
  zsum (map (fun ops => zsum (map (fun o => if Nat.eqb (fst o) m then snd o else 0) ops)) I).

Definition zmin_l (l : list Z) : option Z :=
  match l with [] => None | h :: t => Some (fold_left Z.min t h) end.
Definition zmax_l (l : list Z) : option Z :=
  match l with [] => None | h :: t => Some (fold_left Z.max t h) end.

(* number of machines as the implementation sees it: schedule.shape[1] = operations per job *)
Definition nmach (I : cinst) : nat := match I with [] => O | ops :: _ => length ops end.

Definition machine_bound (I : cinst) (m : nat) : option Z :=
  match zmin_l (map (head_work m) I), zmin_l (map (tail_work m) I) with
  | Some b, Some a => Some (b + machine_work m I + a)
  | _, _ => None
  end.

Definition job_work (ops : list (nat * Z)) : Z := zsum (durs ops).

(* calculate_lower_bound *)
Definition lower_bound (I : cinst) : option Z :=
  match zmax_l (map job_work I) with
  | None => None
  | Some mj =>
      match zmax_l (flat_map (fun m => match machine_bound I m with Some v => [v] | None => [] end)
                             (seq 0 (nmach I))) with
      | Some mm => Some (Z.max mm mj)
      | None => None
      end
  end.

(* get_max_allowed_time *)
Definition total_work (I : cinst) : Z := zsum (map job_work I).

(* ---------- schedules ---------- *)
(* start time of operation k of job j *)
Definition sched := nat -> nat -> Z.

Definition op_at (I : cinst) (j k : nat) : option (nat * Z) :=
  match nth_error I j with Some ops => nth_error ops k | None => None end.

(* feasibility: non-negative starts, job precedence, no overlap on a machine *)
Definition feasible (I : cinst) (s : sched) : Prop :=
  (forall j k md, op_at I j k = Some md -> 0 <= s j k) /\
  (forall j k md md', op_at I j k = Some md -> op_at I j (S k) = Some md' -> s j k + snd md <= s j (S k)) /\
  (forall j k j' k' md md', op_at I j k = Some md -> op_at I j' k' = Some md' -> fst md = fst md' ->
      (j, k) <> (j', k') -> s j k + snd md <= s j' k' \/ s j' k' + snd md' <= s j k).

(* C is an upper bound of all completion times *)
Definition makespan_le (I : cinst) (s : sched) (C : Z) : Prop :=
  forall j k md, op_at I j k = Some md -> s j k + snd md <= C.

(* classic: durations non-negative, every job visits every machine of 0..nm-1 exactly once *)
Definition classic (I : cinst) : Prop :=
  I <> [] /\
  (forall ops, In ops I -> length ops = nmach I /\ NoDup (map fst ops)
                           /\ (forall o, In o ops -> (fst o < nmach I)%nat /\ 0 <= snd o)).
