(* C13: the seed plumbing of JobShopLabEnv.reset / DependencyBuilder.seed / StochasticTimeConfig.
   The global generators are an abstract state G; `seeded s` is random.seed/np.random.seed/
   torch.manual_seed, `draw` is one np.random.randint call made by a StochasticTimeConfig constructor
   without start_seed. Stepping never touches G (every StochasticTimeConfig owns its generator). *)
From Coq Require Import List ZArith Bool.
Import ListNotations.
Open Scope Z_scope.

Section Seed.
Variable G : Type.
Variable seeded : Z -> G.
Variable draw : G -> Z * G.

Fixpoint draws (n : nat) (g : G) : list Z * G :=
  match n with
  | O => ([], g)
  | S k => let (v, g1) := draw g in let (vs, g2) := draws k g1 in (v :: vs, g2)
  end.

(* env object: episode_counter and the stored self.seed *)
Record envobj := mkEnvObj { e_episode : Z; e_seed : option Z }.

(* reset(seed_arg): episode_counter += 1; seed = seed_arg if given else the stored one;
   self.seed = builder.seed(seed + episode_counter) re-seeds the global generators; compile() then
   constructs `nsto` stochastic objects, each drawing its start seed from the global generator *)
Definition reset (nsto : nat) (e : envobj) (arg : option Z) (g : G) : envobj * list Z * G :=
  let ep := e_episode e + 1 in
  let seed := match arg with Some s => Some s | None => e_seed e end in
  match seed with
  | Some s =>
      let (starts, g2) := draws nsto (seeded (s + ep)) in
      (mkEnvObj ep (Some (s + ep)), starts, g2)
  | None =>
      let (starts, g2) := draws nsto g in
      (mkEnvObj ep None, starts, g2)
  end.

(* constructor: episode_counter = -1, then reset(seed) *)
Definition create (nsto : nat) (seed : option Z) (g : G) := reset nsto (mkEnvObj (-1) None) seed g.

(* a whole history of resets of one env object (each with an optional seed argument); between two
   resets ANY other activity may replace the global state (other environments, user code): modelled
   by an arbitrary function applied to G before each reset *)
Fixpoint run_resets (nsto : nat) (e : envobj) (args : list (option Z)) (noise : list (G -> G)) (g : G)
  : list (list Z) * envobj * G :=
  match args with
  | [] => ([], e, g)
  | a :: rest =>
      let g0 := match noise with f :: _ => f g | [] => g end in
      let '(e1, starts, g1) := reset nsto e a g0 in
      let '(r, e2, g2) := run_resets nsto e1 rest (tl noise) g1 in
      (starts :: r, e2, g2)
  end.

Definition seeded_env (e : envobj) (a : option Z) : bool :=
  match a, e_seed e with None, None => false | _, _ => true end.

(* one reset with a seed: start seeds and the env object do not depend on the global state *)
Theorem reset_independent_of_global nsto e a g1 g2 :
  seeded_env e a = true ->
  fst (reset nsto e a g1) = fst (reset nsto e a g2).
Proof.
  unfold reset, seeded_env. destruct a as [s|]; [|destruct (e_seed e) as [s|]; [|discriminate]]; intros _;
    destruct (draws nsto (seeded (s + (e_episode e + 1)))); reflexivity.
Qed.

Lemma reset_keeps_seeded nsto e a g : seeded_env e a = true ->
  forall a', seeded_env (fst (fst (reset nsto e a g))) a' = true.
Proof.
  unfold reset, seeded_env. intros H a'.
  destruct a as [s|]; [|destruct (e_seed e) as [s|]; [|discriminate]];
    destruct (draws nsto (seeded (s + (e_episode e + 1)))); simpl; destruct a'; reflexivity.
Qed.

(* C13_fun / C13_noninterference: the start seeds of every episode are a function of (initial env
   object, seed arguments) only: independent of the initial global state and of whatever happens to
   the global generators in between *)
Theorem resets_independent nsto : forall args e noise1 noise2 g1 g2,
  (match args with a :: _ => seeded_env e a = true | [] => True end) ->
  fst (fst (run_resets nsto e args noise1 g1)) = fst (fst (run_resets nsto e args noise2 g2))
  /\ snd (fst (run_resets nsto e args noise1 g1)) = snd (fst (run_resets nsto e args noise2 g2)).
Proof.
  induction args as [|a rest IH]; intros e noise1 noise2 g1 g2 Hs; simpl; auto.
  set (h1 := match noise1 with f :: _ => f g1 | [] => g1 end).
  set (h2 := match noise2 with f :: _ => f g2 | [] => g2 end).
  pose proof (reset_independent_of_global nsto e a h1 h2 Hs) as E.
  destruct (reset nsto e a h1) as [[e1 s1] k1] eqn:R1. destruct (reset nsto e a h2) as [[e2 s2] k2] eqn:R2.
  simpl in E. inversion E; subst e2 s2.
  assert (Hn : match rest with a' :: _ => seeded_env e1 a' = true | [] => True end).
  { destruct rest; auto. pose proof (reset_keeps_seeded nsto e a h1 Hs o) as K. rewrite R1 in K. exact K. }
  specialize (IH e1 (tl noise1) (tl noise2) k1 k2 Hn).
  destruct (run_resets nsto e1 rest (tl noise1) k1) as [[r1 f1] q1].
  destruct (run_resets nsto e1 rest (tl noise2) k2) as [[r2 f2] q2]. simpl in *.
  destruct IH as [A B]. subst. auto.
Qed.

End Seed.
