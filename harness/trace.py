"""Recording of every state.step call the environment makes (pre-state, action, outcome,
micro-log) and replay of the recorded calls on the extracted model."""
import jsl
from jsl import Codec, Unsupported, sx, sxl


class StepRecord:
    __slots__ = ("codec", "pre", "trs", "tm", "out", "result", "pre_obj", "action", "micro", "final", "exc")

    def __init__(self, codec, pre, trs, tm, out, result, pre_obj, action, micro=None, final=None):
        self.codec, self.pre, self.trs, self.tm, self.out = codec, pre, trs, tm, out
        self.micro, self.final = micro, final
        self.result, self.pre_obj, self.action = result, pre_obj, action


class Tracer:
    """Factory of a recording middleware class; holds the records."""

    def __init__(self, keep_objects=False):
        self.records = []
        self.codecs = {}
        self.keep_objects = keep_objects
        self.unsupported = 0
        self.early_of = {}
        self.want_pre = False
        self.record_mw = False
        self.mw_records = []
        self.record_env = False
        self.env_records = []
        self.check_input_purity = False     # C20: deep copy of every state.step input, compared after the call
        self.input_mutations = []

    def codec_for(self, instance, cfg):
        c = self.codecs.get(id(instance))
        if c is None or c.instance is not instance:
            c = Codec(instance, cfg.state_machine.allow_early_transport)
            self.codecs[id(instance)] = c
        return c

    def recording_step(self, loglevel, instance, config, state, action):
        codec = self.codec_for(instance, config)
        pre = codec.state(state)
        trs = codec.transitions(action.transitions)
        tm = codec.tm(action.time_machine)
        rec = jsl.recorder()
        rec.want_pre = self.want_pre
        snap = None
        if self.check_input_purity:
            import copy
            snap = copy.deepcopy(state)
        out, r = jsl.impl_step(codec, config, state, action, rec)
        if snap is not None and (state != snap or codec.state(state) != pre):
            diff = [f.name for f in __import__("dataclasses").fields(state) if getattr(state, f.name) != getattr(snap, f.name)]
            self.input_mutations.append({"record": len(self.records), "pre": pre, "trs": trs, "fields": diff,
                                         "before": repr([getattr(snap, f) for f in diff])[:600],
                                         "after": repr([getattr(state, f) for f in diff])[:600]})
        final = codec.state(r.state) if (r is not None and r.success) else None
        self.records.append(StepRecord(codec, pre, trs, tm, out, r if self.keep_objects else None,
                                       state if self.keep_objects else None,
                                       action if self.keep_objects else None, list(rec.micro), final))
        self.records[-1].exc = (type(rec.last_exc).__name__, [str(x) for x in getattr(rec.last_exc, "args", ())] + [str(getattr(rec.last_exc, "message", ""))]) \
            if (r is None and rec.last_exc is not None) else None
        if r is None:
            if out == "(fuel)":
                raise jsl.StepBudgetExceeded()
            # re-raise the same exception class for the caller: replay the call un-instrumented is not
            # possible (stochastic draws), so raise a carrier that names the class
            raise ImplRaised(out[len("(raise "):-1])
        return r

    def middleware_class(self):
        from jobshoplab.state_machine.middleware.middleware import EventBasedBinaryActionMiddleware
        tracer = self

        class RecMiddleware(EventBasedBinaryActionMiddleware):
            def __init__(self, *a, **kw):
                kw["state_machine_step"] = tracer.recording_step
                super().__init__(*a, **kw)

            def step(self, state, action):
                if not tracer.record_mw:
                    return super().step(state, action)
                codec = tracer.codec_for(self.instance, self.config)
                pre_r = result_sx(codec, state)
                pre_m = mw_sx(self)
                n0 = len(tracer.records)
                try:
                    a_sx = str(int(action))
                except Exception:
                    a_sx = None
                try:
                    r, obs = super().step(state, action)
                except jsl.StepBudgetExceeded:
                    tracer.mw_records.append((codec, pre_r, pre_m, a_sx, "(fuel)", n0))
                    raise
                except ImplRaised as e:
                    tracer.mw_records.append((codec, pre_r, pre_m, a_sx, "(raise %s)" % e.cls, n0))
                    raise
                except Exception as e:
                    tracer.mw_records.append((codec, pre_r, pre_m, a_sx, "(raise %s)" % type(e).__name__, n0))
                    raise
                if r.success:
                    lg = sxl(sx(m[1], m[2]) for rec in tracer.records[n0:] for m in (rec.micro or []))
                    out = sx("ok", result_sx(codec, r), mw_sx(self), lg)
                else:
                    out = sx("fail", codec.sto(), mw_sx(self))
                tracer.mw_records.append((codec, pre_r, pre_m, a_sx, out, n0))
                return r, obs

        return RecMiddleware


def result_sx(codec, r):
    return sx(codec.state(r.state), codec.transitions(r.possible_transitions), codec.transitions(r.action.transitions))


def mw_sx(mw):
    st = mw.stepper
    return "(%d %d %d %d)" % (mw.truncation_joker, st.no_op_counter, st.action_counter, 1 if st.trunction_active else 0)


def replay_mw(mw_records, driver):
    bad = []
    for k, (codec, pre_r, pre_m, a, out, n0) in enumerate(mw_records):
        if a is None:
            continue
        driver.set_codec(codec)
        m = driver.ask("W %d %s %s %s" % (jsl.MODEL_FUEL, pre_r, pre_m, a))
        if m != out:
            bad.append((k, mw_records[k], m))
    return bad


def replay_env(env_records, driver):
    bad = []
    for k, (codec, pre, a, out) in enumerate(env_records):
        driver.set_codec(codec)
        try:
            a_sx = str(int(a))
        except Exception:
            continue
        m = driver.ask("E %d %s %s" % (jsl.MODEL_FUEL, pre, a_sx))
        if m != out:
            bad.append((k, env_records[k], m))
    return bad


class ImplRaised(Exception):
    def __init__(self, cls):
        super().__init__(cls)
        self.cls = cls


def make_env(d, cfg, tracer=None, seed=None):
    """JobShopLabEnv on a DSL dictionary, with the recording middleware if a tracer is given."""
    from jobshoplab.env.env import JobShopLabEnv
    kw = {}
    if tracer is not None:
        kw["middleware"] = tracer.middleware_class()
    comp = jsl.make_compiler(d, cfg)
    orig = comp.compile

    def compile_and_note(*a, **k):
        # the normalisation constants of the reward are functions of the instance AS COMPILED (before any
        # stochastic time is re-sampled): noted here for the C19 oracle
        res = orig(*a, **k)
        try:
            from jobshoplab.utils.utils import calculate_lower_bound, get_max_allowed_time
            inst = res[0]
            comp._verif_last = {"lb": calculate_lower_bound(inst), "tmax": get_max_allowed_time(inst),
                                "nops": sum(len(j.operations) for j in inst.instance.specification),
                                "njobs": len(inst.instance.specification)}
        except Exception:  # noqa
            comp._verif_last = None
        return res
    comp.compile = compile_and_note
    return JobShopLabEnv(config=cfg, compiler=comp, seed=seed, **kw)


def replay(records, driver, stats=None):
    """Run every recorded step on the model from the implementation's pre-state. Returns the list of
    (index, record, model_out) that differ."""
    bad = []
    for k, r in enumerate(records):
        m = driver.step(r.codec, r.pre, r.trs, r.tm)
        if stats is not None:
            stats["steps"] = stats.get("steps", 0) + 1
            stats["micro"] = stats.get("micro", 0) + r.out.count("((")  # rough
        if m != r.out:
            bad.append((k, r, m))
    return bad


CLAUSES = ["placement", "loc", "mach_hold", "agv_hold", "claims", "capacity", "flags", "feasible", "no_overdue",
           "past", "busy_op", "proc_inner", "output_done", "outages", "outage_nonneg", "agv_phase", "idle_unclaimed", "sto_ok", "fresh", "agv_load", "fresh2", "nodep", "durations", "travel_gap", "setup_gap", "depi", "pre_ok"]


def monitor_states(records, driver, which=None, stats=None):
    """Evaluate the extracted clause vector on every implementation state of the records (pre-state,
    every micro-state, final state). Returns list of (record index, position, clause name, state sx)."""
    viol = []
    seen = set()
    for k, r in enumerate(records):
        driver.set_codec(r.codec)
        states = [("pre", r.pre)] + [("micro%d" % n, m[2]) for n, m in enumerate(r.micro or [])]
        if r.final is not None:
            states.append(("final", r.final))
        for pos, s in states:
            h = hash(s)
            if (id(r.codec), h) in seen:
                continue
            seen.add((id(r.codec), h))
            v = driver.ask("M " + s)
            if stats is not None:
                stats["states"] = stats.get("states", 0) + 1
            bits = v.strip("()").split()
            if len(bits) != len(CLAUSES):
                raise RuntimeError("monitor output: " + v)
            for name, b in zip(CLAUSES, bits):
                if b != "1" and (which is None or name in which):
                    viol.append((k, pos, name, s))
    return viol


EVENTS = ["pre_release", "setup", "tool_frame", "due", "work", "machine_outage", "machine_release", "dispatch",
          "transit", "deliver", "transport_release", "stores", "clock", "transit_release", "transit_side", "transit_claim"]


def monitor_events(records, driver, which=None, stats=None):
    """Evaluate the extracted event vector on every micro-event (needs tracer.want_pre)."""
    viol = []
    for k, r in enumerate(records):
        driver.set_codec(r.codec)
        for n, (pre, tr, post) in enumerate(r.micro or []):
            if pre is None:
                continue
            v = driver.ask("EV %s %s %s" % (pre, tr, post))
            if stats is not None:
                stats["events"] = stats.get("events", 0) + 1
            bits = v.strip("()").split()
            if len(bits) != len(EVENTS):
                raise RuntimeError("event monitor output: " + v)
            for name, b in zip(EVENTS, bits):
                if b != "1" and (which is None or name in which):
                    viol.append((k, n, name, pre, tr, post))
    return viol
