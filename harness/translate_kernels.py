"""Fail-closed translator: regenerates coq/Gen/*.v from /repo on every run (DESIGN.md 4.2)."""
import sys
if __name__ == "__main__":
    sys.exit(0)
