#!/usr/bin/env python3
"""Fail-closed translator: regenerates coq/Gen/Kernels.v from /repo's current source on every setup.

Small pure kernels of the implementation (decision tables and integer rules) are translated from their
Python AST into Gallina definitions; coq/Gen/KernelsEq.v (hand-written, part of the normal build) proves
each generated definition equal to the corresponding definition of the hand-written model for ALL
arguments. An edit of one of these kernels in /repo therefore changes the generated text and breaks a
proof obligation of KernelsEq.v (or, if the edit leaves the supported subset, the translation itself):
either way setup fails and every check reports the broken obligation.

Supported subset (anything else raises Unsupported -> non-zero exit):
  statements : docstring, `if c: <block> [else: <block>]`, `x = e`, `return e`, `match e: case ...`, `raise ...`
  patterns   : Enum.MEMBER, `A | B`, `_`, string constants
  expressions: names, int/bool constants, Enum.MEMBER, ==, !=, <=, <, chained comparisons, and/or/not, + -,
               `a in self.transitions[b]`, `self._match_state(e)`, self.<field>
Kernels:
  transitions.py     Transition._match_state, Transition.is_valid_transition, MachineTransition/TransportTransition tables
  buffer_type_utils  is_correct_position_for_buffer_type
  middleware.py      SubTimeStepper.should_truncate
  job_type_utils     all_operations_done, no_operation_idle, is_job_running, is_done      (quantifiers over job.operations)
  core_utils         no_processing_operations, is_done                                   (for-loops with early return)
  buffer_type_utils  get_output_buffers (shape only), get_next_job_from_buffer
For these the idioms are recognised literally (fail closed on any other shape):
  all(/any( <op>.operation_state_state ==|!= OperationStateState.M for <op> in job.operations )
  for <v> in <xs>: if <c>: return False ... ; return True
  <ids> = [b.id for b in <output buffers of the instance>] ;  <x>.location in <ids>     -> is_output i (j_loc x)
  store[0], store[-1], `a if c else b`, `not store`
"""
import ast
import os
import sys
from pathlib import Path

REPO = Path(os.environ.get("JSL_REPO", "/repo"))
OUT = Path(os.environ.get("JSL_KERNELS_OUT", str(Path(__file__).resolve().parent.parent / "coq" / "Gen" / "Kernels.v")))


class Unsupported(Exception):
    pass


def parse(rel):
    return ast.parse((REPO / rel).read_text())


def find_class(mod, name):
    for n in mod.body:
        if isinstance(n, ast.ClassDef) and n.name == name:
            return n
    raise Unsupported("class %s not found" % name)


def find_func(body, name):
    for n in body:
        if isinstance(n, ast.FunctionDef) and n.name == name:
            return n
    raise Unsupported("function %s not found" % name)


def enum_members(mod, cls):
    out = []
    for n in find_class(mod, cls).body:
        if isinstance(n, ast.Assign) and len(n.targets) == 1 and isinstance(n.targets[0], ast.Name) \
                and isinstance(n.value, ast.Constant) and isinstance(n.value.value, str):
            out.append((n.targets[0].id, n.value.value))
    if not out:
        raise Unsupported("enum %s has no members" % cls)
    return out


# model constructor names of the enum members (unknown member -> fail closed)
MSTATE = {"IDLE": "MIdle", "SETUP": "MSetup", "WORKING": "MWorking", "OUTAGE": "MOutage"}
TSTATE = {"IDLE": "TIdle", "WORKING": "TWorking", "PICKUP": "TPickup", "TRANSIT": "TTransit", "OUTAGE": "TOutage",
          "WAITINGPICKUP": "TWaiting"}
CAT = {"IDLE": "KIdle", "SETUP": "KSetup", "RUNNING": "KRunning", "OUTAGE": "KOutage"}
BTYPE = {"FIFO": "Fifo", "LIFO": "Lifo", "DUMMY": "Dummy", "FLEX_BUFFER": "Flex"}
ENUMS = {"MachineStateState": ("(NM %s)", MSTATE), "TransportStateState": ("(NT %s)", TSTATE),
         "StateEnum": ("%s", CAT), "BufferTypeConfig": ("%s", BTYPE)}


def enum_const(node):
    """Enum.MEMBER -> Coq constructor"""
    if isinstance(node, ast.Attribute) and isinstance(node.value, ast.Name) and node.value.id in ENUMS:
        fmt, tab = ENUMS[node.value.id]
        if node.attr not in tab:
            raise Unsupported("unknown member %s.%s" % (node.value.id, node.attr))
        return fmt % tab[node.attr]
    return None


class Fn:
    """translation of one function body; env: python name -> (coq term, type)"""

    def __init__(self, env, ret, may_raise, eqs):
        self.env, self.ret, self.may_raise, self.eqs = dict(env), ret, may_raise, eqs

    def ty(self, node):
        c = enum_const(node)
        if c is not None:
            return {"MachineStateState": "nstate", "TransportStateState": "nstate", "StateEnum": "cat",
                    "BufferTypeConfig": "btype"}[node.value.id]
        if isinstance(node, ast.Name):
            return self.env[node.id][1]
        if isinstance(node, ast.Constant):
            return "bool" if isinstance(node.value, bool) else "Z"
        if isinstance(node, ast.BinOp):
            return "Z"
        if isinstance(node, ast.Attribute) and isinstance(node.value, ast.Name) and node.value.id == "self":
            return self.env["self." + node.attr][1]
        if isinstance(node, ast.Call):
            return "cat"
        raise Unsupported("type of " + ast.dump(node)[:80])

    def expr(self, n):
        c = enum_const(n)
        if c is not None:
            return c
        if isinstance(n, ast.Name):
            if n.id not in self.env:
                raise Unsupported("free name " + n.id)
            return self.env[n.id][0]
        if isinstance(n, ast.Constant):
            if isinstance(n.value, bool):
                return "true" if n.value else "false"
            if isinstance(n.value, int):
                return "(%d)%%Z" % n.value
            raise Unsupported("constant %r" % (n.value,))
        if isinstance(n, ast.Attribute) and isinstance(n.value, ast.Name) and n.value.id == "self":
            key = "self." + n.attr
            if key not in self.env:
                raise Unsupported("field " + key)
            return self.env[key][0]
        if isinstance(n, ast.UnaryOp) and isinstance(n.op, ast.Not):
            return "(negb %s)" % self.expr(n.operand)
        if isinstance(n, ast.BoolOp):
            op = "andb" if isinstance(n.op, ast.And) else "orb"
            acc = self.expr(n.values[0])
            for v in n.values[1:]:
                acc = "(%s %s %s)" % (op, acc, self.expr(v))
            return acc
        if isinstance(n, ast.BinOp) and isinstance(n.op, (ast.Add, ast.Sub)):
            return "(%s %s %s)%%Z" % (self.expr(n.left), "+" if isinstance(n.op, ast.Add) else "-", self.expr(n.right))
        if isinstance(n, ast.Compare):
            parts, left = [], n.left
            for op, right in zip(n.ops, n.comparators):
                parts.append(self.cmp(op, left, right))
                left = right
            acc = parts[0]
            for p in parts[1:]:
                acc = "(andb %s %s)" % (acc, p)
            return acc
        if isinstance(n, ast.Call) and isinstance(n.func, ast.Attribute) and isinstance(n.func.value, ast.Name) \
                and n.func.value.id == "self" and n.func.attr == "_match_state" and len(n.args) == 1:
            return "(gen_match_state %s)" % self.expr(n.args[0])
        raise Unsupported("expression " + ast.dump(n)[:100])

    def cmp(self, op, a, b):
        if isinstance(op, ast.In):
            # a in self.transitions[b]
            if isinstance(b, ast.Subscript) and isinstance(b.value, ast.Attribute) and b.value.attr == "transitions":
                return "(existsb (cat_eqb %s) (table %s))" % (self.expr(a), self.expr(b.slice))
            raise Unsupported("in")
        t = self.ty(a)
        ea, eb = self.expr(a), self.expr(b)
        if isinstance(op, (ast.Eq, ast.NotEq)):
            f = self.eqs[t]
            e = "(%s %s %s)" % (f, ea, eb)
            return e if isinstance(op, ast.Eq) else "(negb %s)" % e
        if t != "Z":
            raise Unsupported("ordering on " + t)
        if isinstance(op, ast.LtE):
            return "(%s <=? %s)%%Z" % (ea, eb)
        if isinstance(op, ast.Lt):
            return "(%s <? %s)%%Z" % (ea, eb)
        if isinstance(op, ast.GtE):
            return "(%s <=? %s)%%Z" % (eb, ea)
        if isinstance(op, ast.Gt):
            return "(%s <? %s)%%Z" % (eb, ea)
        raise Unsupported("comparison")

    def wrap(self, e):
        return "(Some %s)" % e if self.may_raise else e

    def block(self, stmts):
        """a block that ends in return/raise on every path"""
        if not stmts:
            raise Unsupported("block falls through")
        s, rest = stmts[0], stmts[1:]
        if isinstance(s, ast.Expr) and isinstance(s.value, ast.Constant) and isinstance(s.value.value, str):
            return self.block(rest)
        if isinstance(s, ast.Return):
            if s.value is None:
                raise Unsupported("bare return")
            return self.wrap(self.expr(s.value))
        if isinstance(s, ast.Raise):
            if not self.may_raise:
                raise Unsupported("raise in a total kernel")
            return "None"
        if isinstance(s, ast.Assign) and len(s.targets) == 1 and isinstance(s.targets[0], ast.Name):
            name = s.targets[0].id
            e, t = self.expr(s.value), self.ty(s.value)
            v = "v_" + name.strip("_")
            self.env[name] = (v, t)
            return "(let %s := %s in %s)" % (v, e, self.block(rest))
        if isinstance(s, ast.If):
            then = self.block(s.body)
            els = self.block(s.orelse if s.orelse else rest)
            return "(if %s then %s else %s)" % (self.expr(s.test), then, els)
        if isinstance(s, ast.Match):
            subj, t = self.expr(s.subject), self.ty(s.subject)
            arms, seen_default, covered = [], False, set()
            universe = {"btype": set(BTYPE.values()), "cat": set(CAT.values())}.get(t)
            for c in s.cases:
                if c.guard is not None:
                    raise Unsupported("guard")
                pats = self.pattern(c.pattern)
                body = self.block(c.body)
                if pats is None:
                    # Coq rejects a redundant clause: the default arm is dropped (after translating it, so that an
                    # unsupported default still fails) when the constructors are all covered
                    if universe is None or covered != universe:
                        arms.append("| _ => %s" % body)
                    seen_default = True
                    break
                covered |= set(pats)
                arms.append("| %s => %s" % (" | ".join(pats), body))
            if not seen_default and (universe is None or covered != universe):
                arms.append("| _ => %s" % self.block(rest))
            return "(match %s with %s end)" % (subj, " ".join(arms))
        raise Unsupported("statement " + type(s).__name__)

    def pattern(self, p):
        if isinstance(p, ast.MatchAs) and p.pattern is None:
            return None
        if isinstance(p, ast.MatchValue):
            c = enum_const(p.value)
            if c is None:
                raise Unsupported("pattern value")
            return [c]
        if isinstance(p, ast.MatchOr):
            out = []
            for q in p.patterns:
                r = self.pattern(q)
                if r is None:
                    raise Unsupported("wildcard in or-pattern")
                out += r
            return out
        raise Unsupported("pattern " + type(p).__name__)


EQS = {"nstate": "nstate_eqb", "cat": "cat_eqb", "Z": "Z.eqb", "bool": "Bool.eqb", "btype": "btype_eqb"}


def gen_match_state(tmod, smod):
    """_match_state is a match on state.value.lower() with string patterns: evaluated per enum member."""
    f = find_func(find_class(tmod, "Transition").body, "_match_state")
    m = [s for s in f.body if isinstance(s, ast.Match)]
    if len(m) != 1:
        raise Unsupported("_match_state: expected one match statement")
    m = m[0]
    subj = ast.unparse(m.subject)
    if subj != "state.value.lower()":
        raise Unsupported("_match_state subject " + subj)
    cases = []
    for c in m.cases:
        if isinstance(c.pattern, ast.MatchAs) and c.pattern.pattern is None:
            strings = None
        else:
            pats = c.pattern.patterns if isinstance(c.pattern, ast.MatchOr) else [c.pattern]
            strings = []
            for p in pats:
                if not (isinstance(p, ast.MatchValue) and isinstance(p.value, ast.Constant) and isinstance(p.value.value, str)):
                    raise Unsupported("_match_state pattern")
                strings.append(p.value.value)
        if len(c.body) != 1:
            raise Unsupported("_match_state case body")
        b = c.body[0]
        if isinstance(b, ast.Return):
            res = enum_const(b.value)
            if res is None:
                raise Unsupported("_match_state return")
        elif isinstance(b, ast.Raise):
            res = None
        else:
            raise Unsupported("_match_state case body")
        cases.append((strings, res))
    arms = []
    for cls, fmt, tab in (("MachineStateState", "NM %s", MSTATE), ("TransportStateState", "NT %s", TSTATE)):
        members = enum_members(smod, cls)
        if {n for n, _ in members} != set(tab):
            raise Unsupported("members of %s changed: %s" % (cls, [n for n, _ in members]))
        for name, value in members:
            low = value.lower()
            hit = next((res for strings, res in cases if strings is None or low in strings), None)
            if hit is None:
                raise Unsupported("%s.%s maps to no category (NotImplementedError)" % (cls, name))
            arms.append("  | %s => %s" % (fmt % tab[name], hit))
    return "Definition gen_match_state (s : nstate) : cat :=\n  match s with\n%s\n  end.\n" % "\n".join(arms)


def gen_table(tmod, cls, name):
    init = find_func(find_class(tmod, cls).body, "__init__")
    d = None
    for s in init.body:
        if isinstance(s, ast.Assign) and isinstance(s.targets[0], ast.Name) and s.targets[0].id == "transitions":
            d = s.value
    if not isinstance(d, ast.Dict):
        raise Unsupported("%s: transitions is not a dict literal" % cls)
    rows = {}
    for k, v in zip(d.keys, d.values):
        kk = enum_const(k)
        if kk is None or not isinstance(v, ast.Tuple):
            raise Unsupported("%s: table entry" % cls)
        vals = [enum_const(e) for e in v.elts]
        if None in vals:
            raise Unsupported("%s: table value" % cls)
        if kk in rows:
            raise Unsupported("%s: duplicate key" % cls)
        rows[kk] = vals
    arms = ["  | %s => [%s]" % (c, "; ".join(rows.get(c, []))) for c in ("KIdle", "KSetup", "KRunning", "KOutage")]
    keys = "[%s]" % "; ".join(c for c in ("KIdle", "KSetup", "KRunning", "KOutage") if c in rows)
    return ("Definition %s (c : cat) : list cat :=\n  match c with\n%s\n  end.\n"
            "Definition %s_keys : list cat := %s.\n" % (name, "\n".join(arms), name, keys))


OSTATE = {"IDLE": "OIdle", "PROCESSING": "OProc", "DONE": "ODone", "TRANSPORT": "OTransport"}
OUTPUT_IDS_SHAPES = {
    "[b.id for b in instance.buffers if b.role == BufferRoleConfig.OUTPUT]",
    "[b.id for b in buffer_type_utils.get_output_buffers(instance)]",
}


def body_wo_doc(f):
    b = list(f.body)
    if b and isinstance(b[0], ast.Expr) and isinstance(b[0].value, ast.Constant) and isinstance(b[0].value.value, str):
        b = b[1:]
    return b


def op_state_cmp(node, var):
    """<var>.operation_state_state ==|!= OperationStateState.M  ->  Coq boolean on (o : op)"""
    if not (isinstance(node, ast.Compare) and len(node.ops) == 1 and isinstance(node.ops[0], (ast.Eq, ast.NotEq))):
        raise Unsupported("operation-state comparison: " + ast.unparse(node))
    l, r = node.left, node.comparators[0]
    if not (isinstance(l, ast.Attribute) and l.attr == "operation_state_state" and isinstance(l.value, ast.Name) and l.value.id == var):
        raise Unsupported("operation-state comparison lhs: " + ast.unparse(node))
    if not (isinstance(r, ast.Attribute) and isinstance(r.value, ast.Name) and r.value.id == "OperationStateState" and r.attr in OSTATE):
        raise Unsupported("operation-state comparison rhs: " + ast.unparse(node))
    e = "(ostate_eqb (o_st o) %s)" % OSTATE[r.attr]
    return e if isinstance(node.ops[0], ast.Eq) else "(negb %s)" % e


def quantifier(node, jobvar):
    """all(/any( <cmp> for v in <jobvar>.operations )"""
    if not (isinstance(node, ast.Call) and isinstance(node.func, ast.Name) and node.func.id in ("all", "any")
            and len(node.args) == 1 and isinstance(node.args[0], ast.GeneratorExp) and not node.keywords):
        raise Unsupported("quantifier: " + ast.unparse(node))
    g = node.args[0]
    if len(g.generators) != 1 or g.generators[0].ifs or g.generators[0].is_async:
        raise Unsupported("quantifier generators")
    c = g.generators[0]
    if not (isinstance(c.target, ast.Name) and ast.unparse(c.iter) == jobvar + ".operations"):
        raise Unsupported("quantifier range: " + ast.unparse(c.iter))
    return "(%s (fun o => %s) (j_ops jb))" % ("forallb" if node.func.id == "all" else "existsb", op_state_cmp(g.elt, c.target.id))


def gen_job_quant(mod, name, coqname):
    f = find_func(mod.body, name)
    if [a.arg for a in f.args.args] != ["job"]:
        raise Unsupported(name + " signature")
    b = body_wo_doc(f)
    if len(b) != 1 or not isinstance(b[0], ast.Return):
        raise Unsupported(name + " body")
    return "Definition %s (jb : job) : bool :=\n  %s.\n" % (coqname, quantifier(b[0].value, "job"))


def gen_no_processing(mod):
    f = find_func(mod.body, "no_processing_operations")
    b = body_wo_doc(f)
    if not (len(b) == 2 and isinstance(b[0], ast.For) and isinstance(b[1], ast.Return) and ast.unparse(b[1].value) == "True"
            and isinstance(b[0].target, ast.Name) and ast.unparse(b[0].iter) == "job.operations" and not b[0].orelse):
        raise Unsupported("no_processing_operations shape")
    conds = []
    for st in b[0].body:
        if not (isinstance(st, ast.If) and not st.orelse and len(st.body) == 1 and isinstance(st.body[0], ast.Return)
                and ast.unparse(st.body[0].value) == "False"):
            raise Unsupported("no_processing_operations loop body")
        conds.append("(negb %s)" % op_state_cmp(st.test, b[0].target.id))
    acc = conds[0]
    for c in conds[1:]:
        acc = "(andb %s %s)" % (acc, c)
    return "Definition gen_no_processing_operations (jb : job) : bool :=\n  (forallb (fun o => %s) (j_ops jb)).\n" % acc


def output_ids_assign(st):
    if not (isinstance(st, ast.Assign) and len(st.targets) == 1 and isinstance(st.targets[0], ast.Name)
            and ast.unparse(st.value) in OUTPUT_IDS_SHAPES):
        raise Unsupported("output-buffer id list: " + ast.unparse(st)[:120])
    return st.targets[0].id


def located_in_output(node, var, ids):
    """<var>.location in <ids>  (also `not <var>.location in <ids>` via the caller)"""
    if not (isinstance(node, ast.Compare) and len(node.ops) == 1 and isinstance(node.ops[0], ast.In)
            and ast.unparse(node.left) == var + ".location" and ast.unparse(node.comparators[0]) == ids):
        raise Unsupported("location test: " + ast.unparse(node))
    return "(is_output i (j_loc jb))"


def gen_job_is_done(mod):
    f = find_func(mod.body, "is_done")
    if [a.arg for a in f.args.args] != ["job", "instance"]:
        raise Unsupported("job_type_utils.is_done signature")
    b = body_wo_doc(f)
    if len(b) != 2 or not isinstance(b[1], ast.Return):
        raise Unsupported("job_type_utils.is_done body")
    ids = output_ids_assign(b[0])
    r = b[1].value
    if not (isinstance(r, ast.BoolOp) and isinstance(r.op, ast.And) and len(r.values) == 2
            and ast.unparse(r.values[0]) == "all_operations_done(job)"):
        raise Unsupported("job_type_utils.is_done return: " + ast.unparse(r))
    return ("Definition gen_job_is_done (i : inst) (jb : job) : bool :=\n  (andb (gen_all_operations_done jb) %s).\n"
            % located_in_output(r.values[1], "job", ids))


def gen_core_is_done(mod, bmod):
    # get_output_buffers must be the filter on the OUTPUT role
    g = body_wo_doc(find_func(bmod.body, "get_output_buffers"))
    if not (len(g) == 1 and isinstance(g[0], ast.Return)
            and ast.unparse(g[0].value) == "tuple((b for b in instance.buffers if b.role == BufferRoleConfig.OUTPUT))"):
        raise Unsupported("get_output_buffers: " + (ast.unparse(g[0]) if g else "empty"))
    f = find_func(mod.body, "is_done")
    if [a.arg for a in f.args.args] != ["state", "instance"]:
        raise Unsupported("core_utils.is_done signature")
    b = body_wo_doc(f)
    if not (len(b) == 3 and isinstance(b[1], ast.For) and isinstance(b[2], ast.Return) and ast.unparse(b[2].value) == "True"
            and isinstance(b[1].target, ast.Name) and ast.unparse(b[1].iter) == "state.jobs" and not b[1].orelse):
        raise Unsupported("core_utils.is_done shape")
    ids = output_ids_assign(b[0])
    v = b[1].target.id
    conds = []
    for st in b[1].body:
        if not (isinstance(st, ast.If) and not st.orelse and len(st.body) == 1 and isinstance(st.body[0], ast.Return)
                and ast.unparse(st.body[0].value) == "False"):
            raise Unsupported("core_utils.is_done loop body")
        t = st.test
        if not (isinstance(t, ast.UnaryOp) and isinstance(t.op, ast.Not)):
            raise Unsupported("core_utils.is_done test: " + ast.unparse(t))
        t = t.operand
        if isinstance(t, ast.Compare):
            conds.append(located_in_output(t, v, ids))
        elif ast.unparse(t) == "job_type_utils.all_operations_done(%s)" % v:
            conds.append("(gen_all_operations_done jb)")
        else:
            raise Unsupported("core_utils.is_done test: " + ast.unparse(t))
    acc = conds[0]
    for c in conds[1:]:
        acc = "(andb %s %s)" % (acc, c)
    return "Definition gen_is_done (i : inst) (x : state) : bool :=\n  (forallb (fun jb => %s) (s_jobs x)).\n" % acc


def gen_next_job(bmod):
    f = find_func(bmod.body, "get_next_job_from_buffer")
    if [a.arg for a in f.args.args] != ["buffer_state", "buffer_config"]:
        raise Unsupported("get_next_job_from_buffer signature")

    def val(e):
        u = ast.unparse(e)
        if u == "None":
            return "None"
        if u == "buffer_state.store[0]":
            return "(hd_error st)"
        if u == "buffer_state.store[-1]":
            return "(last_error st)"
        if isinstance(e, ast.IfExp) and ast.unparse(e.test) == "buffer_state.store":
            return "(if negb (is_nil_nat st) then %s else %s)" % (val(e.body), val(e.orelse))
        raise Unsupported("get_next_job_from_buffer value: " + u)

    b = body_wo_doc(f)
    if not (len(b) == 2 and isinstance(b[0], ast.If) and ast.unparse(b[0].test) == "not buffer_state.store" and not b[0].orelse
            and len(b[0].body) == 1 and isinstance(b[0].body[0], ast.Return) and isinstance(b[1], ast.Match)
            and ast.unparse(b[1].subject) == "buffer_config.type"):
        raise Unsupported("get_next_job_from_buffer shape")
    empty = val(b[0].body[0].value)
    arms, covered = [], set()
    default = None
    for c in b[1].cases:
        if c.guard is not None or len(c.body) != 1 or not isinstance(c.body[0], ast.Return):
            raise Unsupported("get_next_job_from_buffer case")
        if isinstance(c.pattern, ast.MatchAs) and c.pattern.pattern is None:
            default = val(c.body[0].value)
            break
        k = enum_const(c.pattern.value) if isinstance(c.pattern, ast.MatchValue) else None
        if k is None or k in covered:
            raise Unsupported("get_next_job_from_buffer pattern")
        covered.add(k)
        arms.append("| %s => %s" % (k, val(c.body[0].value)))
    if covered != set(BTYPE.values()):
        if default is None:
            raise Unsupported("get_next_job_from_buffer: match falls through (returns None implicitly)")
        arms.append("| _ => %s" % default)
    return ("Definition gen_next_job (st : list nat) (ty : btype) : option nat :=\n"
            "  (if is_nil_nat st then %s else match ty with %s end).\n" % (empty, " ".join(arms)))


def _ret_const(st, what):
    if not (isinstance(st, ast.Return) and ast.unparse(st.value) in ("True", "False")):
        raise Unsupported(what + ": expected `return True/False`, got " + ast.unparse(st)[:80])
    return "true" if ast.unparse(st.value) == "True" else "false"


BUFFER_KINDS = {
    "buffer.id in [b.id for b in instance.buffers]": "(match b with BStd _ => true | _ => false end)",
    "buffer.id in [m.postbuffer.id for m in instance.machines]": "(match b with BPost _ => true | _ => false end)",
    "buffer.id in [m.prebuffer.id for m in instance.machines]": "(match b with BPre _ => true | _ => false end)",
    "buffer.id in [m.buffer.id for m in instance.machines]": "(match b with BIn _ => true | _ => false end)",
    "buffer.id in [t.buffer.id for t in instance.transports]": "(match b with BAgv _ => true | _ => false end)",
}


def gen_ok_buffer(bmod):
    """job_in_correct_buffer_for_pickup: a chain of `if <buffer kind test>: return <const>` and a final `return <const>`"""
    f = find_func(bmod.body, "job_in_correct_buffer_for_pickup")
    if [a.arg for a in f.args.args] != ["instance", "buffer"]:
        raise Unsupported("job_in_correct_buffer_for_pickup signature")
    b = body_wo_doc(f)
    if not b:
        raise Unsupported("job_in_correct_buffer_for_pickup: empty body")
    acc = _ret_const(b[-1], "job_in_correct_buffer_for_pickup")
    for st in reversed(b[:-1]):
        if not (isinstance(st, ast.If) and not st.orelse and len(st.body) == 1):
            raise Unsupported("job_in_correct_buffer_for_pickup statement: " + ast.unparse(st)[:80])
        t = ast.unparse(st.test)
        if t not in BUFFER_KINDS:
            raise Unsupported("job_in_correct_buffer_for_pickup test: " + t)
        acc = "(if %s then %s else %s)" % (BUFFER_KINDS[t], _ret_const(st.body[0], "job_in_correct_buffer_for_pickup"), acc)
    return "Definition gen_ok_buffer (b : bid) : bool :=\n  %s.\n" % acc


READY_BINDINGS = {
    "all_buffer_configs": "get_all_buffer_configs(instance_config)",
    "all_buffer_states": "get_all_buffer_states(state)",
    "job_location": "job_state.location",
    "buffer_state": "get_buffer_state_by_id(all_buffer_states, job_location)",
    "buffer_config": "get_buffer_config_by_id(all_buffer_configs, job_location)",
    "job_position": "get_job_position_in_buffer(job_state.id, buffer_state)",
}
READY_TERMS = {
    "job_in_correct_buffer_for_pickup(instance_config, buffer_state)": "(gen_ok_buffer (j_loc jb))",
    "is_correct_position_for_buffer_type(job_position, len(buffer_state.store), buffer_config.type)": "cp",
}


def gen_is_ready(bmod):
    """is_job_ready_for_pickup_from_postbuffer: fixed lookups (state and config of the buffer the job lies in, the job's
    position in it), two named tests, and a boolean combination of the two in the return"""
    f = find_func(bmod.body, "is_job_ready_for_pickup_from_postbuffer")
    if [a.arg for a in f.args.args] != ["job_state", "state", "instance_config"]:
        raise Unsupported("is_job_ready_for_pickup_from_postbuffer signature")
    b = body_wo_doc(f)
    names = {}
    seen = set()
    for st in b[:-1]:
        if not (isinstance(st, ast.Assign) and len(st.targets) == 1 and isinstance(st.targets[0], ast.Name)):
            raise Unsupported("is_job_ready...: statement " + ast.unparse(st)[:80])
        v, e = st.targets[0].id, ast.unparse(st.value)
        if v in READY_BINDINGS:
            if READY_BINDINGS[v] != e:
                raise Unsupported("is_job_ready...: %s = %s" % (v, e))
            seen.add(v)
        elif e in READY_TERMS:
            names[v] = READY_TERMS[e]
        else:
            raise Unsupported("is_job_ready...: %s = %s" % (v, e))
    if seen != set(READY_BINDINGS):
        raise Unsupported("is_job_ready...: lookups missing: %s" % sorted(set(READY_BINDINGS) - seen))
    r = b[-1]
    if not isinstance(r, ast.Return):
        raise Unsupported("is_job_ready...: no final return")

    def bexp(e):
        if isinstance(e, ast.Name) and e.id in names:
            return names[e.id]
        if isinstance(e, ast.BoolOp) and len(e.values) == 2:
            return "(%s %s %s)" % ("andb" if isinstance(e.op, ast.And) else "orb", bexp(e.values[0]), bexp(e.values[1]))
        if isinstance(e, ast.UnaryOp) and isinstance(e.op, ast.Not):
            return "(negb %s)" % bexp(e.operand)
        raise Unsupported("is_job_ready...: return " + ast.unparse(e))
    body = bexp(r.value)
    if "cp" not in body:
        raise Unsupported("is_job_ready...: the position test is not used in the result")
    return ("Definition gen_is_ready (i : inst) (x : state) (jn : nat) (jb : job) : res bool :=\n"
            "  b <- of_opt EInvalidValue (get_buf x (j_loc jb)) ;;\n  c <- of_opt EInvalidValue (get_bcfg i (j_loc jb)) ;;\n"
            "  cp <- is_correct_position (index_of jn (b_store b)) (length (b_store b)) (bc_type c) ;;\n  Ok %s.\n" % body)


def gen_is_early(pmod):
    f = find_func(pmod.body, "is_early_transport")
    if [a.arg for a in f.args.args] != ["job_state", "state", "instance"]:
        raise Unsupported("is_early_transport signature")
    b = body_wo_doc(f)
    if not (len(b) == 2 and isinstance(b[0], ast.Assign) and len(b[0].targets) == 1 and isinstance(b[0].targets[0], ast.Name)
            and ast.unparse(b[0].value) == "buffer_type_utils.is_job_ready_for_pickup_from_postbuffer(job_state=job_state, state=state, instance_config=instance)"
            and isinstance(b[1], ast.Return)):
        raise Unsupported("is_early_transport shape")
    v = b[0].targets[0].id
    r = ast.unparse(b[1].value)
    if r == "not " + v:
        e = "(negb r)"
    elif r == v:
        e = "r"
    else:
        raise Unsupported("is_early_transport return: " + r)
    return ("Definition gen_is_early (i : inst) (x : state) (jn : nat) (jb : job) : res bool :=\n"
            "  r <- gen_is_ready i x jn jb ;;\n  Ok %s.\n" % e)


def gen_is_transportable(pmod):
    f = find_func(pmod.body, "is_transportable")
    if [a.arg for a in f.args.args] != ["job_state", "state", "instance"]:
        raise Unsupported("is_transportable signature")
    b = body_wo_doc(f)
    shape = [ast.unparse(st.test) if isinstance(st, ast.If) else type(st).__name__ for st in b]
    want = ["job_type_utils.is_done(job_state, instance)", "job_type_utils.all_operations_done(job_state)", "Assign",
            "next_op is None",
            "is_job_at_machine(job_state, machine_type_utils.get_machine_state_by_id(state.machines, next_op.machine_id))", "Return"]
    if shape != want:
        raise Unsupported("is_transportable shape: %s" % shape)
    if ast.unparse(b[2]) != "next_op = job_type_utils.get_next_idle_operation(job_state)":
        raise Unsupported("is_transportable: " + ast.unparse(b[2]))
    for k in (0, 1, 4):
        if b[k].orelse or len(b[k].body) != 1:
            raise Unsupported("is_transportable: branch %d" % k)
    if b[3].orelse or len(b[3].body) != 1 or not (isinstance(b[3].body[0], ast.Raise) and "InvalidValue" in ast.unparse(b[3].body[0])):
        raise Unsupported("is_transportable: missing-operation branch")
    c0, c1, c4, c5 = (_ret_const(b[0].body[0], "is_transportable"), _ret_const(b[1].body[0], "is_transportable"),
                      _ret_const(b[4].body[0], "is_transportable"), _ret_const(b[5], "is_transportable"))
    return ("Definition gen_is_transportable (i : inst) (x : state) (jb : job) : res bool :=\n"
            "  if gen_job_is_done i jb then Ok %s\n  else if gen_all_operations_done jb then Ok %s\n  else\n"
            "    k <- of_opt EInvalidValue (first_idle jb) ;;\n    o <- of_opt EInvalidValue (nth_error (j_ops jb) k) ;;\n"
            "    _ <- get_mach x (o_mach o) ;;\n    Ok (if is_job_at_machine jb (o_mach o) then %s else %s).\n" % (c0, c1, c4, c5))

GROUP_OPS_BODY = """if isinstance(job_states, JobState):
    job_states = [job_states]
operations = (operation for job in job_states for operation in job.operations)
grouped_operations = {}
for operation in operations:
    if operation.operation_state_state not in grouped_operations:
        grouped_operations[operation.operation_state_state] = []
    grouped_operations[operation.operation_state_state].append(operation)
return grouped_operations"""


def gen_next_op_free(pmod, jmod):
    """is_job_next_operation_free: no PROCESSING record, at least one IDLE record (via group_operations_by_state, whose body
    must be the known grouping loop: a key is present iff some record has that state, with a non-empty list)"""
    g = find_func(jmod.body, "group_operations_by_state")
    if "\n".join(ast.unparse(st) for st in body_wo_doc(g)) != GROUP_OPS_BODY:
        raise Unsupported("group_operations_by_state changed")
    f = find_func(pmod.body, "is_job_next_operation_free")
    if [a.arg for a in f.args.args] != ["job_state"]:
        raise Unsupported("is_job_next_operation_free signature")
    b = body_wo_doc(f)
    if not (len(b) == 3 and ast.unparse(b[0]) == "grouped_operations = job_type_utils.group_operations_by_state(job_state)"
            and isinstance(b[1], ast.If) and isinstance(b[2], ast.If)):
        raise Unsupported("is_job_next_operation_free shape")
    t1, t2 = ast.unparse(b[1].test), ast.unparse(b[2].test)
    pre1, suf1 = "grouped_operations.get(OperationStateState.", ") is not None"
    pre2, suf2 = "len(grouped_operations.get(OperationStateState.", ", [])) == 0"
    if not (t1.startswith(pre1) and t1.endswith(suf1) and t2.startswith(pre2) and t2.endswith(suf2)):
        raise Unsupported("is_job_next_operation_free tests: %s / %s" % (t1, t2))
    s1, s2 = t1[len(pre1):-len(suf1)], t2[len(pre2):-len(suf2)]
    if s1 not in OSTATE or s2 not in OSTATE:
        raise Unsupported("is_job_next_operation_free states: %s / %s" % (s1, s2))
    if b[1].orelse or len(b[1].body) != 1 or len(b[2].body) != 1 or len(b[2].orelse) != 1:
        raise Unsupported("is_job_next_operation_free branches")
    c1 = _ret_const(b[1].body[0], "is_job_next_operation_free")
    c2 = _ret_const(b[2].body[0], "is_job_next_operation_free")
    c3 = _ret_const(b[2].orelse[0], "is_job_next_operation_free")
    return ("Definition gen_is_job_next_operation_free (jb : job) : bool :=\n"
            "  if existsb (is_ostate %s) (j_ops jb) then %s\n  else if negb (existsb (is_ostate %s) (j_ops jb)) then %s else %s.\n"
            % (OSTATE[s1], c1, OSTATE[s2], c2, c3))

def gen_first_op(jmod, pyname, coqname, none_handling):
    """get_next_not_done_operation / get_next_idle_operation / get_processing_operation:
       operations = job.operations; x = next(filter(lambda op: <cmp>, operations), None); <none handling>; return x
    -> the INDEX of the first operation record that satisfies <cmp> (the model reads the record by that index);
    none_handling: 'raise' (raise InvalidValue when None), 'none' (returns None), checked on the source."""
    f = find_func(jmod.body, pyname)
    if [a.arg for a in f.args.args] != ["job"]:
        raise Unsupported(pyname + " signature")
    b = body_wo_doc(f)
    if len(b) < 3 or ast.unparse(b[0]) != "operations = job.operations" or not isinstance(b[1], ast.Assign) or not isinstance(b[-1], ast.Return):
        raise Unsupported(pyname + " shape")
    v = b[1].targets[0].id if (len(b[1].targets) == 1 and isinstance(b[1].targets[0], ast.Name)) else None
    call = b[1].value
    if not (v and isinstance(call, ast.Call) and ast.unparse(call.func) == "next" and len(call.args) == 2 and not call.keywords
            and ast.unparse(call.args[1]) == "None" and isinstance(call.args[0], ast.Call) and ast.unparse(call.args[0].func) == "filter"
            and len(call.args[0].args) == 2 and ast.unparse(call.args[0].args[1]) == "operations"
            and isinstance(call.args[0].args[0], ast.Lambda) and [a.arg for a in call.args[0].args[0].args.args] == ["op"]):
        raise Unsupported(pyname + ": expected next(filter(lambda op: ..., operations), None)")
    pred = op_state_cmp(call.args[0].args[0].body, "op")
    if ast.unparse(b[-1].value) != v:
        raise Unsupported(pyname + " return")
    mid = b[2:-1]
    if none_handling == "raise":
        if not (len(mid) == 1 and isinstance(mid[0], ast.If) and ast.unparse(mid[0].test) == v + " is None" and not mid[0].orelse
                and len(mid[0].body) == 1 and isinstance(mid[0].body[0], ast.Raise) and "InvalidValue" in ast.unparse(mid[0].body[0])):
            raise Unsupported(pyname + ": expected `if x is None: raise InvalidValue(...)`")
    else:
        ok = (mid == []) or (len(mid) == 1 and isinstance(mid[0], ast.If) and ast.unparse(mid[0].test) == v + " is None" and not mid[0].orelse
                             and len(mid[0].body) == 1 and isinstance(mid[0].body[0], ast.Return) and ast.unparse(mid[0].body[0].value) == "None")
        if not ok:
            raise Unsupported(pyname + ": unexpected statements before the return")
    return "Definition %s (jb : job) : option nat :=\n  find_idx (fun o => %s) (j_ops jb).\n" % (coqname, pred)


def main():
    tmod = parse("jobshoplab/state_machine/core/transitions.py")
    smod = parse("jobshoplab/types/state_types.py")
    bmod = parse("jobshoplab/utils/state_machine_utils/buffer_type_utils.py")
    mmod = parse("jobshoplab/state_machine/middleware/middleware.py")
    imod = parse("jobshoplab/types/instance_config_types.py")
    out = ["(* GENERATED by harness/translate_kernels.py from /repo - do not edit. *)",
           "From Coq Require Import List ZArith Bool.",
           "From JSL Require Import Base.Res Base.ListX SM.Types SM.Util SM.Step.",
           "Import ListNotations.", "",
           "Definition btype_eqb (a b : btype) : bool :=",
           "  match a, b with Fifo, Fifo | Lifo, Lifo | Flex, Flex | Dummy, Dummy => true | _, _ => false end.", ""]
    if {n for n, _ in enum_members(imod, "BufferTypeConfig")} != set(BTYPE):
        raise Unsupported("members of BufferTypeConfig changed")
    out.append(gen_match_state(tmod, smod))
    out.append(gen_table(tmod, "MachineTransition", "gen_machine_table"))
    out.append(gen_table(tmod, "TransportTransition", "gen_transport_table"))
    # is_valid_transition
    f = find_func(find_class(tmod, "Transition").body, "is_valid_transition")
    if [a.arg for a in f.args.args] != ["self", "current_state", "new_state"]:
        raise Unsupported("is_valid_transition signature")
    fn = Fn({"current_state": ("cur", "nstate"), "new_state": ("new", "nstate")}, "bool", False, EQS)
    out.append("Definition gen_is_valid_transition (table : cat -> list cat) (cur new : nstate) : bool :=\n  %s.\n" % fn.block(f.body))
    # is_correct_position_for_buffer_type
    f = find_func(bmod.body, "is_correct_position_for_buffer_type")
    if [a.arg for a in f.args.args] != ["job_position", "buffer_length", "buffer_type"]:
        raise Unsupported("is_correct_position_for_buffer_type signature")
    fn = Fn({"job_position": ("pos", "Z"), "buffer_length": ("len", "Z"), "buffer_type": ("ty", "btype")}, "bool", False, EQS)
    out.append("Definition gen_is_correct_position (pos len : Z) (ty : btype) : bool :=\n  %s.\n" % fn.block(f.body))
    # SubTimeStepper.should_truncate
    f = find_func(find_class(mmod, "SubTimeStepper").body, "should_truncate")
    fn = Fn({"self.trunction_active": ("active", "bool"), "self.action_counter": ("actions", "Z"),
             "self.no_op_counter": ("noops", "Z")}, "bool", False, EQS)
    out.append("Definition gen_should_truncate (active : bool) (noops actions : Z) : bool :=\n  %s.\n" % fn.block(f.body))
    # predicates on the operation records of a job, done-ness, next job of an ordered buffer
    jmod = parse("jobshoplab/utils/state_machine_utils/job_type_utils.py")
    cmod = parse("jobshoplab/utils/state_machine_utils/core_utils.py")
    if {n for n, _ in enum_members(smod, "OperationStateState")} != set(OSTATE):
        raise Unsupported("members of OperationStateState changed")
    out.append("Definition is_nil_nat (l : list nat) : bool := match l with [] => true | _ => false end.")
    out.append("Definition last_error (l : list nat) : option nat := match l with [] => None | h :: _ => Some (last l h) end.\n")
    out.append(gen_job_quant(jmod, "all_operations_done", "gen_all_operations_done"))
    out.append(gen_job_quant(jmod, "no_operation_idle", "gen_no_operation_idle"))
    out.append(gen_job_quant(jmod, "is_job_running", "gen_is_job_running"))
    out.append(gen_no_processing(cmod))
    out.append(gen_job_is_done(jmod))
    out.append(gen_core_is_done(cmod, bmod))
    out.append(gen_next_job(bmod))
    # readiness for pickup, early transport, transportability
    pmod = parse("jobshoplab/utils/state_machine_utils/possible_transition_utils.py")
    out.append(gen_ok_buffer(bmod))
    out.append(gen_is_ready(bmod))
    out.append(gen_is_early(pmod))
    out.append(gen_is_transportable(pmod))
    out.append(gen_next_op_free(pmod, jmod))
    out.append(gen_first_op(jmod, "get_next_not_done_operation", "gen_first_not_done", "raise"))
    out.append(gen_first_op(jmod, "get_next_idle_operation", "gen_first_idle", "none"))
    out.append(gen_first_op(jmod, "get_processing_operation", "gen_first_proc", "none"))
    OUT.parent.mkdir(parents=True, exist_ok=True)
    text = "\n".join(out)
    if not OUT.exists() or OUT.read_text() != text:
        OUT.write_text(text)
    return 0


if __name__ == "__main__":
    try:
        sys.exit(main())
    except Unsupported as e:
        sys.stderr.write("translate_kernels: UNSUPPORTED: %s\n" % e)
        # fail closed: leave a file that cannot compile, so that a stale Kernels.v is never used
        OUT.parent.mkdir(parents=True, exist_ok=True)
        OUT.write_text("(* translation failed: %s *)\nTranslation failed.\n" % str(e).replace("*)", "* )"))
        sys.exit(3)
