"""Instance (DSL dictionary) and policy generators. Every choice comes from the random.Random
passed in, so a case is reproduced from (seed, index)."""
import random


def job_spec_text(routes):
    m = len(routes[0])
    head = "|".join("(m%d,t)" % k for k in range(m))
    lines = [head]
    for j, ops in enumerate(routes):
        lines.append("j%d|" % j + " ".join("(%d,%d)" % (mm, d) for mm, d in ops))
    return "\n".join(lines) + "\n"


def matrix_text(names, mat):
    lines = ["|".join(names)]
    for n, row in zip(names, mat):
        lines.append(n + "|" + " ".join(str(v) for v in row))
    return "\n".join(lines) + "\n"


def gen_routes(rng, nj, nm, maxd=9, repeats=False, zero_p=0.1):
    routes = []
    for _ in range(nj):
        if repeats and rng.random() < 0.5:
            ms = [rng.randrange(nm) for _ in range(nm)]
        else:
            ms = list(range(nm))
            rng.shuffle(ms)
        ops = []
        for mm in ms:
            r = rng.random()
            if r < zero_p:
                d = 0
            elif r < 0.6:
                d = rng.randint(1, 3)
            else:
                d = rng.randint(1, maxd)
            ops.append((mm, d))
        routes.append(ops)
    return routes


def gen_travel(rng, nm, kind):
    names = ["m-%d" % k for k in range(nm)] + ["in-buf", "out-buf"]
    n = len(names)
    if kind == "zero":
        mat = [[0] * n for _ in range(n)]
    elif kind == "sym":
        mat = [[0] * n for _ in range(n)]
        for a in range(n):
            for b in range(a + 1, n):
                mat[a][b] = mat[b][a] = rng.randint(0, 6)
    else:  # asymmetric, with zero entries here and there
        mat = [[(0 if a == b or rng.random() < 0.15 else rng.randint(1, 9)) for b in range(n)] for a in range(n)]
    return names, mat


BTYPES = ["fifo", "lifo", "flex_buffer", "dummy"]


def gen_time_spec(rng, kinds=("det",)):
    k = rng.choice(kinds)
    if k == "det":
        return rng.randint(0, 6)
    if k == "poisson":
        return {"type": "poisson", "base": rng.randint(0, 5)}
    if k == "uni":
        return {"type": "uni", "offset": rng.randint(0, 3), "base": rng.randint(1, 6)}
    if k == "gaussian":
        return {"type": "gaussian", "std": rng.choice([0.5, 1, 2]), "base": rng.randint(1, 6)}
    return {"type": "gamma", "scale": rng.choice([1, 2]), "base": rng.randint(1, 5)}


def gen_instance(rng, profile="mixed", nj=None, nm=None):
    """Returns (dsl_dict, features). Profiles:
      classic   - no logistics section (one teleporting AGV per job, zero travel)
      transport - AGVs + travel matrix, unbounded flex buffers
      buffers   - additionally typed / finite machine buffers
      full      - additionally tools/setup times and outages (deterministic)
      stoch     - full with stochastic time behaviours of the shipped distributions
      mixed     - one of the above at random
    """
    if profile == "mixed":
        profile = rng.choice(["classic", "transport", "transport", "buffers", "buffers", "full", "full"])
    if profile == "race":
        return gen_race(rng)
    if profile == "multibuf":
        return gen_multibuf(rng)
    if profile == "dep":
        return gen_dep(rng)
    if profile == "buried":
        return gen_buried(rng)
    if profile == "stale":
        return gen_stale(rng)
    if profile == "outstart":
        d, feats = gen_multibuf(rng, out_start=True)
        feats["profile"] = "outstart"
        return d, feats
    if profile == "fullstart":
        # the output buffer is filled EXACTLY to its capacity by init_state (the compiler flags it NOT_EMPTY, not FULL):
        # every delivery into it before something is taken out must be refused
        d, feats = gen_multibuf(rng, out_start=True)
        n_out = sum(1 for k_, v_ in d["init_state"].items() if k_.startswith("j-") and v_.get("location") == "b-2")
        for b in d["instance_config"]["buffer"]:
            if b["name"] == "b-2":
                b["capacity"] = max(1, n_out)
        feats["profile"] = "fullstart"
        return d, feats
    if profile == "outs":
        # several outages on the SAME component with different durations and frequencies (they strike together and
        # apart), on machines and on AGVs
        base = rng.choice(["full", "full", "classic"])      # classic: machine outages only, more machines busy at once
        if base == "full":
            d, feats = gen_instance(rng, "full", nj=rng.randint(2, 3), nm=2)
        else:
            d, feats = gen_instance(rng, "classic", nj=rng.randint(3, 4), nm=rng.randint(2, 3))
        outs = []
        for comp in (("m", "t") if base == "full" else ("m",)):
            for _ in range(rng.randint(1, 3)):
                outs.append({"component": rng.choice([comp, comp, "m-%d" % rng.randrange(2)] if comp == "m" else [comp]),
                             "type": rng.choice(["maintenance", "fail", "recharge"]),
                             "duration": rng.randint(0, 7), "frequency": rng.randint(0, 6)})
        d["instance_config"]["outages"] = outs
        feats.update(profile="outs", noutages=len(outs))
        return d, feats
    if profile == "wide":
        # two-digit machine, operation and buffer numbers (string order differs from numeric order): few jobs,
        # 11-12 machines, short durations; classic or with AGVs (zero or unit travel) so that episodes stay short
        kind = rng.choice(["classic", "transport", "full"])    # full: every machine has its OWN setup matrix / buffers
        d, feats = gen_instance(rng, kind, nj=rng.randint(1, 2), nm=rng.randint(11, 12))
        if kind == "transport":
            names = ["m-%d" % k for k in range(feats["nm"])] + ["in-buf", "out-buf"]
            c = rng.choice([0, 1])
            n = len(names)
            d["instance_config"]["logistics"]["specification"] = matrix_text(
                names, [[(0 if a == b else c) for b in range(n)] for a in range(n)])
            d.pop("init_state", None)
            feats.update(travel="const", start_time=0)
        feats["profile"] = "wide"
        return d, feats
    if profile == "zerotravel":
        d, feats = gen_instance(rng, "transport", nj=rng.randint(2, 3), nm=2)
        names = ["m-0", "m-1", "in-buf", "out-buf"]
        nagv = rng.randint(1, 2)
        d["instance_config"]["logistics"] = {"type": "agv", "amount": nagv,
                                              "specification": matrix_text(names, [[0] * 4 for _ in range(4)])}
        d.pop("init_state", None)
        feats.update(profile="zerotravel", travel="zero", nagv=nagv, start_time=0)
        return d, feats
    nj = nj or rng.randint(2, 4)
    nm = nm or rng.randint(2, 3)
    feats = {"profile": profile, "nj": nj, "nm": nm}
    routes = gen_routes(rng, nj, nm, repeats=(profile != "classic" and rng.random() < 0.2))
    inst = {"description": "gen", "specification": job_spec_text(routes)}
    ic = {"description": "generated", "instance": inst}
    d = {"title": "InstanceConfig", "instance_config": ic}
    feats["routes"] = routes
    if profile == "classic":
        return d, feats
    # logistics
    kind = rng.choice(["zero", "sym", "asym", "asym"])
    names, mat = gen_travel(rng, nm, kind)
    nagv = rng.randint(1, nj + 1)
    lg = {"type": "agv", "amount": nagv, "specification": matrix_text(names, mat)}
    feats.update(travel=kind, nagv=nagv)
    ic["logistics"] = lg
    init = {}
    if rng.random() < 0.5:
        for t in range(nagv):
            if rng.random() < 0.7:
                init["t-%d" % t] = {"location": "m-%d" % rng.randrange(nm)}
    if rng.random() < 0.3:
        init["start_time"] = rng.choice([7, 1000, -3, -8])
    feats["start_time"] = init.get("start_time", 0)
    if init:
        d["init_state"] = init
    if profile == "transport":
        return d, feats
    # machine buffers
    mode = rng.choice(["global", "specific", "both"])
    machines = {}
    big = rng.random() < 0.6  # capacities >= nj (roomy) or possibly tight
    feats["roomy"] = big

    def bspec():
        s = {}
        if rng.random() < 0.85:
            s["type"] = rng.choice(BTYPES)
        if rng.random() < 0.7:
            s["capacity"] = rng.randint(nj, nj + 2) if big else rng.randint(1, nj + 1)
        return s or {"type": "flex_buffer"}

    if mode in ("global", "both"):
        ic["machines"] = {"prebuffer": [bspec()], "postbuffer": [bspec()]}
    if mode == "specific":
        ic["machines"] = [{"m-%d" % k: {"prebuffer": [bspec()], "postbuffer": [bspec()]}} for k in range(nm)
                          if rng.random() < 0.8]
        if not ic["machines"]:
            del ic["machines"]
    feats["buffer_mode"] = mode
    if profile == "buffers":
        return d, feats
    # tools + setup
    ntools = rng.randint(2, 3)
    tools = ["tl-%d" % k for k in range(ntools)]
    inst["tool_usage"] = [{"job": "j%d" % j, "operation_tools": [rng.choice(tools) for _ in range(nm)]}
                          for j in range(nj)]
    if rng.random() < 0.5:
        rng.shuffle(inst["tool_usage"])      # the entries name their job: any order of the list means the same
        feats["tool_usage_shuffled"] = True
    st = []
    for k in range(nm):
        mat = [[(0 if a == b else rng.randint(0, 4)) for b in range(ntools)] for a in range(ntools)]
        order = list(range(ntools))
        if rng.random() < 0.4:
            rng.shuffle(order)      # header (and rows) not starting with tl-0: the default mounted tool is still tl-0
        e = {"machine": "m-%d" % k,
             "specification": matrix_text([tools[a] for a in order], [[mat[a][b] for b in order] for a in order])}
        if profile == "stoch" and rng.random() < 0.5:
            e["time_behavior"] = {"type": "uni", "offset": rng.randint(0, 2)}
        st.append(e)
    ic["setup_times"] = st
    feats["ntools"] = ntools
    if rng.random() < 0.2:
        # tools without a setup_times section: the documented default is a zero setup time for EVERY ordered pair
        del ic["setup_times"]
        feats["default_setup"] = True
    kinds = ("det",) if profile != "stoch" else ("det", "poisson", "uni", "gaussian", "gamma")
    outs = []
    # with eleven or more machines half of the single-machine outages name m-1, a prefix of m-10, m-11, ...
    for comp in ("m", "t", "m-%d" % (1 if (nm >= 11 and rng.random() < 0.5) else rng.randrange(nm))):
        if rng.random() < 0.5:
            outs.append({"component": comp, "type": rng.choice(["maintenance", "fail", "recharge"]),
                         "duration": gen_time_spec(rng, kinds), "frequency": gen_time_spec(rng, kinds)})
    if outs:
        ic["outages"] = outs
    feats["noutages"] = len(outs)
    if profile == "stoch" and rng.random() < 0.7:
        # stochastic processing times (the table entry is the base)
        inst["time_behavior"] = rng.choice([{"type": "uni", "offset": rng.randint(1, 9)}, {"type": "poisson"},
                                            {"type": "gaussian", "std": rng.choice([1, 2, 4, 0.5, 2.5])},
                                            {"type": "uni", "offset": rng.choice([1, 2, 3, 0.5, 2.5])},
                                            {"type": "gamma", "scale": rng.choice([1, 2, 0.5])}])
        feats["stoch_durations"] = inst["time_behavior"]["type"]
    if profile == "stoch" and rng.random() < 0.6:
        lg["time_behavior"] = {"type": rng.choice(["poisson", "uni"]), "offset": 1, "mean": 3}
    return d, feats


def gen_race(rng):
    """Small shops built for coincidences: few machines, several AGVs, ordered machine buffers, all
    durations and travel times from a tiny range, so that arrivals, completions and pickups fall into
    the same instant (stale pickups, time dependencies, simultaneous releases)."""
    nj = rng.randint(3, 4)
    nm = 2          # (a one-machine header line is rejected by the validator)
    bottleneck = rng.random() < 0.5      # every job visits m-0 first: its post-buffer fills up
    routes = []
    for _ in range(nj):
        ms = list(range(nm))
        if not bottleneck:
            rng.shuffle(ms)
        if rng.random() < 0.3:
            ms = ms + [rng.randrange(nm)]
        routes.append([(mm, rng.randint(1, 4)) for mm in ms[:nm]])
    names = ["m-%d" % k for k in range(nm)] + ["in-buf", "out-buf"]
    c = rng.randint(1, 3)
    n = len(names)
    mat = [[(0 if a == b else (c if rng.random() < 0.8 else rng.randint(0, 3))) for b in range(n)] for a in range(n)]
    nagv = rng.randint(2, 3)
    ic = {"description": "race", "instance": {"description": "gen", "specification": job_spec_text(routes)},
          "logistics": {"type": "agv", "amount": nagv, "specification": matrix_text(names, mat)},
          "machines": {"prebuffer": [{"type": rng.choice(["fifo", "flex_buffer", "lifo"]), "capacity": nj + 1}],
                       "postbuffer": [{"type": rng.choice(["lifo", "lifo", "fifo"]), "capacity": nj + 1}]}}
    d = {"title": "InstanceConfig", "instance_config": ic}
    feats = {"profile": "race", "nj": nj, "nm": nm, "routes": routes, "travel": "const", "nagv": nagv,
             "start_time": 0, "roomy": True, "buffer_mode": "global"}
    return d, feats


def gen_dep(rng):
    """Built for time dependencies: every job visits m-0 first, whose ORDERED post-buffer fills up; several AGVs with
    a small constant travel time, so that AGVs are sent for jobs that are not at the release position while the
    job in front of them has no AGV yet."""
    nj = rng.randint(3, 5)
    routes = [[(0, rng.randint(1, 3)), (1, rng.randint(1, 3))] for _ in range(nj)]
    names = ["m-0", "m-1", "in-buf", "out-buf"]
    c = rng.choice([0, 1, 1, 2])
    mat = [[(0 if a == b else (c if rng.random() < 0.85 else rng.randint(0, 2))) for b in range(4)] for a in range(4)]
    nagv = rng.randint(2, 4)
    ic = {"description": "dep", "instance": {"description": "gen", "specification": job_spec_text(routes)},
          "logistics": {"type": "agv", "amount": nagv, "specification": matrix_text(names, mat)},
          "machines": {"prebuffer": [{"type": rng.choice(["fifo", "flex_buffer", "lifo"]), "capacity": nj + 1}],
                       "postbuffer": [{"type": rng.choice(["lifo", "fifo"]), "capacity": nj + 1}]}}
    d = {"title": "InstanceConfig", "instance_config": ic}
    feats = {"profile": "dep", "nj": nj, "nm": 2, "routes": routes, "travel": "const", "nagv": nagv,
             "start_time": 0, "roomy": True, "buffer_mode": "global"}
    return d, feats


def gen_stale(rng):
    """Built for stale pickups of EARLY-dispatched AGVs: every job visits m-0 first (LIFO post-buffer), processing
    times of 1-2 units and a constant travel time larger than them, so that an AGV sent for a job that is still being
    processed arrives in the instant in which the machine releases the NEXT job on top of it. The episode is run with
    early transport enabled (feats['force_early'])."""
    nj = rng.randint(3, 5)
    routes = [[(0, rng.randint(1, 2)), (1, rng.randint(1, 2))] for _ in range(nj)]
    names = ["m-0", "m-1", "in-buf", "out-buf"]
    c = rng.choice([2, 3, 3, 4])
    mat = [[(0 if a == b else (c if rng.random() < 0.9 else rng.randint(1, 4))) for b in range(4)] for a in range(4)]
    nagv = rng.randint(2, 4)
    ic = {"description": "stale", "instance": {"description": "gen", "specification": job_spec_text(routes)},
          "logistics": {"type": "agv", "amount": nagv, "specification": matrix_text(names, mat)},
          "machines": {"prebuffer": [{"type": rng.choice(["fifo", "flex_buffer", "lifo"]), "capacity": nj + 1}],
                       "postbuffer": [{"type": "lifo", "capacity": nj + 1}]}}
    d = {"title": "InstanceConfig", "instance_config": ic}
    feats = {"profile": "stale", "nj": nj, "nm": 2, "routes": routes, "travel": "const", "nagv": nagv,
             "start_time": 0, "roomy": True, "buffer_mode": "global", "force_early": True}
    return d, feats


def gen_buried(rng):
    """Built for the release/teleport-dispatch race (finding F-C11-teleport-dispatch-buried): zero travel times (every dispatch
    is applied by the simulator itself after a time jump), LIFO post-buffers that hold all jobs, zero- and one-unit operations,
    a machine outage after every operation; run with early transport DISABLED (feats['force_no_early'])."""
    nj = rng.randint(3, 5)
    routes = []
    for _ in range(nj):
        a = rng.randint(0, 1)
        routes.append([(a, rng.randint(0, 1)), (1 - a, rng.randint(0, 1))])
    names = ["m-0", "m-1", "in-buf", "out-buf"]
    nagv = rng.choice([1, 1, 2])
    ic = {"description": "buried", "instance": {"description": "gen", "specification": job_spec_text(routes)},
          "logistics": {"type": "agv", "amount": nagv, "specification": matrix_text(names, [[0] * 4 for _ in range(4)])},
          "machines": {"prebuffer": [{"type": "flex_buffer", "capacity": nj}],
                       "postbuffer": [{"type": rng.choice(["lifo", "lifo", "fifo"]), "capacity": nj}]},
          "outages": [{"component": rng.choice(["m", "m-0", "m-1"]), "type": "maintenance", "duration": rng.randint(1, 3),
                       "frequency": 1000}]}
    d = {"title": "InstanceConfig", "instance_config": ic}
    feats = {"profile": "buried", "nj": nj, "nm": 2, "routes": routes, "travel": "zero", "nagv": nagv,
             "start_time": 0, "roomy": True, "buffer_mode": "global", "force_no_early": True, "noutages": 1}
    return d, feats


def gen_multibuf(rng, out_start=False):
    """Several standalone buffers named in the travel matrix: two input buffers at different distances, jobs
    spread over them by init_state, one output buffer, AGVs parked at random places. out_start: one or two jobs
    START in the output buffer with all their operations pending (they have to be fetched from there)."""
    nj = rng.randint(2, 4)
    nm = rng.randint(2, 3)
    routes = gen_routes(rng, nj, nm)
    names = ["m-%d" % k for k in range(nm)] + ["b-0", "b-1", "b-2"]
    n = len(names)
    mat = [[(0 if a == b else rng.randint(1, 9)) for b in range(n)] for a in range(n)]
    nagv = rng.randint(1, 3)
    ordered = rng.random() < 0.3     # ordered input buffers (jobs behind the head cannot be fetched: known findings)
    ic = {"description": "multibuf", "instance": {"description": "gen", "specification": job_spec_text(routes)},
          "logistics": {"type": "agv", "amount": nagv, "specification": matrix_text(names, mat)},
          "buffer": [{"name": "b-0", "type": ("fifo" if ordered else "flex_buffer"), "capacity": nj + 1, "role": "input"},
                     {"name": "b-1", "type": ("fifo" if ordered else "flex_buffer"), "capacity": nj + 1, "role": "input"},
                     {"name": "b-2", "type": "flex_buffer", "capacity": nj + 1, "role": "output"}]}
    init = {}
    stores = {"b-0": [], "b-1": []}
    places = ["b-0", "b-1", "b-1"]
    if rng.random() < 0.35:
        # a further standalone buffer without a role (default role), some jobs start there
        names.append("b-3")
        n = len(names)
        mat = [[(0 if a == b else rng.randint(1, 9)) for b in range(n)] for a in range(n)]
        ic["logistics"]["specification"] = matrix_text(names, mat)
        ic["buffer"].append({"name": "b-3", "type": "flex_buffer", "capacity": nj + 1})
        stores["b-3"] = []
        places.append("b-3")
    if rng.random() < 0.4:
        # a SECOND output buffer at other distances: finished jobs go to the first one, and pay the travel time to it
        names.append("b-4")
        n = len(names)
        mat = [[(0 if a == b else rng.randint(1, 9)) for b in range(n)] for a in range(n)]
        ic["logistics"]["specification"] = matrix_text(names, mat)
        ic["buffer"].append({"name": "b-4", "type": "flex_buffer", "capacity": nj + 1, "role": "output"})
    in_out = set(rng.sample(range(nj), rng.randint(1, min(2, nj - 1)))) if out_start else set()
    for j in range(nj):
        b = "b-2" if j in in_out else rng.choice(places)
        stores.setdefault(b, []).append("j-%d" % j)
        init["j-%d" % j] = {"location": b}
    for b, st in stores.items():
        if st:
            lst = list(st)
            rng.shuffle(lst)
            if rng.random() < 0.3:
                lst = lst[: rng.randint(1, len(lst))]     # partial listing: the others follow the listed ones
            if rng.random() < 0.8:
                init[b] = {"store": lst}
    for t in range(nagv):
        if rng.random() < 0.8:
            init["t-%d" % t] = {"location": rng.choice(names)}
    d = {"title": "InstanceConfig", "instance_config": ic, "init_state": init}
    feats = {"profile": "multibuf", "nj": nj, "nm": nm, "routes": routes, "travel": "asym", "nagv": nagv,
             "start_time": 0, "roomy": True}
    return d, feats


def gen_custom_buffers(rng, d, nj):
    """Replace the default input/output buffers by custom ones (possibly ordered / finite)."""
    ic = d["instance_config"]
    ib = {"name": "b-0", "type": rng.choice(BTYPES), "capacity": rng.randint(nj, nj + 2), "role": "input"}
    ob = {"name": "b-1", "type": rng.choice(["flex_buffer", "fifo"]), "capacity": rng.randint(nj, nj + 3), "role": "output"}
    ic["buffer"] = [ib, ob]
    return d


class Policy:
    """accept probability policy over the binary action; seeded."""

    def __init__(self, rng, p, bad_p=0.0):
        self.rng, self.p, self.bad_p = rng, p, bad_p

    def __call__(self, env):
        if self.bad_p and self.rng.random() < self.bad_p:
            import numpy as np
            # anything Discrete(2).contains() refuses: integers out of range, non-integers near 0/1, other types
            return self.rng.choice([2, -1, 7, 3, 0.5, 1.5, -0.4, 0.99, 1.0, 0.0, np.float64(0.7), np.float32(1.0), "1", "0",
                                    None, np.array([1]), [1], (0,), np.int64(5), float("nan")])
        return 1 if self.rng.random() < self.p else 0


class PhasedPolicy:
    """decline n1 times, then accept n2 times, then decline for the rest (episodes that idle first, schedule
    everything and finish by declining) - with a little noise; seeded."""

    def __init__(self, rng):
        self.rng = rng
        self.n1, self.n2 = rng.randint(0, 9), rng.randint(3, 40)
        self.noise = rng.choice([0.0, 0.0, 0.1])
        self.k = 0

    def __call__(self, env):
        self.k += 1
        a = 0 if self.k <= self.n1 else (1 if self.k <= self.n1 + self.n2 else 0)
        if self.noise and self.rng.random() < self.noise:
            a = 1 - a
        return a
