"""Entry point of every registered check:  check.py <ID> --tier quick|thorough [--replay file]

1. rebuild: regenerate coq/Gen from /repo (translator), incremental `make` of the Coq development
   (full .vo build), extraction, OCaml driver.  A failure here is a broken proof obligation.
2. proof audit of the property's theorems (Props/<ID>.v compiled, assumptions, forbidden words).
3. the property's correspondence + monitor run on /repo.
4. verdict lines, evidence/<ID>.json, exit code.
"""
import argparse
import fcntl
import json
import os
import re
import subprocess
import sys
import time
import traceback
from pathlib import Path

HERE = Path(__file__).resolve().parent
VERIF = HERE.parent
sys.path.insert(0, str(HERE))

COQ = VERIF / "coq"
ALLOWED_AXIOMS = set()  # the goal is "Closed under the global context" for every property theorem

FORBIDDEN = re.compile(r"\b(Admitted|admit|Axiom|Parameter|Conjecture|Unset\s+Guard|bypass_check|type-in-type|"
                       r"impredicative-set|Admit\s+Obligations|native_compute)\b")


def sh(cmd, timeout, cwd=None):
    t0 = time.time()
    try:
        p = subprocess.run(cmd, shell=True, cwd=cwd, capture_output=True, text=True, timeout=timeout)
        return p.returncode, p.stdout + p.stderr, time.time() - t0
    except subprocess.TimeoutExpired as e:
        return 124, "TIMEOUT after %ss: %s" % (timeout, cmd), time.time() - t0


def build(log):
    """Returns (ok, broken) where broken names the file whose compilation failed."""
    lock = open(VERIF / ".build.lock", "w")
    fcntl.flock(lock, fcntl.LOCK_EX)
    try:
        # 1. kernels regenerated from /repo
        rc, out, dt = sh("/venv/bin/python %s/translate_kernels.py" % HERE, 120)
        log.append("translate_kernels rc=%d %.1fs" % (rc, dt))
        broken = None
        BROKEN_FILES.clear()
        if rc != 0:
            broken = "translator: " + out.strip().splitlines()[-1][:300] if out.strip() else "translator failed"
            BROKEN_FILES.add("Gen/Kernels.v")
        if not (COQ / "Makefile").exists():
            sh("coq_makefile -f _CoqProject -o Makefile", 60, cwd=COQ)
        rc2, out2, dt2 = sh("timeout 3000 make -k -j%d 2>&1" % (os.cpu_count() or 4), 3100, cwd=COQ)
        log.append("make rc=%d %.1fs" % (rc2, dt2))
        if rc2 != 0:
            m = re.findall(r'File "\./([^"]+)", line (\d+)', out2)
            for f, _ in m:
                BROKEN_FILES.add(f)
            if not m:
                BROKEN_FILES.add("*")
            broken = (broken + "; " if broken else "") + "coq: " + (", ".join("%s:%s" % x for x in m[:4]) if m else out2[-300:])
            log.append(out2[-1500:])
        drv = VERIF / "ocaml" / "driver"
        gen = VERIF / "ocaml" / "gen" / "sm.ml"
        if gen.exists() and (not drv.exists() or drv.stat().st_mtime < gen.stat().st_mtime
                             or any(drv.stat().st_mtime < (VERIF / "ocaml" / f).stat().st_mtime
                                    for f in ("codec.ml", "monitors.ml", "driver.ml"))):
            rc3, out3, dt3 = sh("./build.sh", 300, cwd=VERIF / "ocaml")
            log.append("ocaml rc=%d %.1fs" % (rc3, dt3))
            if rc3 != 0:
                broken = (broken + "; " if broken else "") + "ocaml: " + out3[-300:]
                BROKEN_FILES.add("*")
        return broken is None, broken
    finally:
        fcntl.flock(lock, fcntl.LOCK_UN)
        lock.close()


BROKEN_FILES = set()


def coqdep_closure(vfile):
    """.v files (relative to coq/) the given file transitively depends on, itself included."""
    rc, out, _ = sh("coqdep -Q . JSL $(cat _CoqProject | grep '\\.v$')", 60, cwd=COQ)
    deps = {}
    for line in out.splitlines():
        if ":" not in line:
            continue
        lhs, rhs = line.split(":", 1)
        tgt = [t for t in lhs.split() if t.endswith(".vo")]
        if not tgt:
            continue
        src = tgt[0][:-1]
        deps[src] = [d[:-1] for d in rhs.split() if d.endswith(".vo")]
    seen, todo = set(), [vfile]
    while todo:
        f = todo.pop()
        if f in seen:
            continue
        seen.add(f)
        todo.extend(deps.get(f, []))
    return sorted(seen)


def audit(prop):
    """Proof audit for Props/<prop>.v. Returns dict(ok, problems, obligations, discharged, theorems, axioms)."""
    res = {"ok": True, "problems": [], "obligations": 0, "discharged": 0, "theorems": [], "axioms": []}
    pv = "Props/%s.v" % prop
    if not (COQ / pv).exists():
        res["ok"] = False
        res["problems"].append("no theorem file " + pv)
        return res
    vo = COQ / ("Props/%s.vo" % prop)
    if not vo.exists() or vo.stat().st_mtime < (COQ / pv).stat().st_mtime:
        res["ok"] = False
        res["problems"].append("theorem file %s is not compiled (proof broken)" % pv)
    files = coqdep_closure(pv)
    nlem = nqed = 0
    for f in files:
        p = COQ / f
        if not p.exists():
            continue
        txt = p.read_text()
        code = re.sub(r"\(\*.*?\*\)", "", txt, flags=re.S)
        bad = FORBIDDEN.findall(code)
        if bad:
            res["ok"] = False
            res["problems"].append("%s uses %s" % (f, sorted(set(bad))))
        nlem += len(re.findall(r"^\s*(?:Local\s+)?(?:Lemma|Theorem|Corollary|Fact|Example|Proposition)\s", code, flags=re.M))
        nqed += len(re.findall(r"\b(?:Qed|Defined)\.", code))
        fvo = p.with_suffix(".vo")
        if not fvo.exists() or fvo.stat().st_mtime < p.stat().st_mtime:
            res["ok"] = False
            res["problems"].append("%s not compiled" % f)
    res["obligations"], res["discharged"] = nlem, min(nqed, nlem)
    if nqed < nlem:
        res["ok"] = False
        res["problems"].append("%d statements but only %d Qed" % (nlem, nqed))
    txt = (COQ / pv).read_text()
    res["theorems"] = re.findall(r"^\s*Theorem\s+(\w+)", txt, flags=re.M)
    # Print Assumptions output captured at build time
    asm = COQ / ("Props/%s.assumptions" % prop)
    rc, out, _ = sh("coqc -Q . JSL Props/%s.v 2>&1" % prop, 600, cwd=COQ) if not asm.exists() or \
        asm.stat().st_mtime < (COQ / pv).stat().st_mtime else (0, asm.read_text(), 0)
    if rc == 0:
        asm.write_text(out)
        closed = out.count("Closed under the global context")
        axioms = re.findall(r"^(\w[\w.]*)\s*:", out, flags=re.M)
        axioms = [a for a in axioms if a not in ("Axioms",)]
        res["axioms"] = sorted(set(axioms))
        res["closed"] = closed
        extra = [a for a in res["axioms"] if a not in ALLOWED_AXIOMS]
        if extra:
            res["ok"] = False
            res["problems"].append("theorems depend on axioms: %s" % extra)
    else:
        res["ok"] = False
        res["problems"].append("Print Assumptions run failed")
    return res


def load_findings():
    p = VERIF / "KNOWN_FINDINGS.json"
    if not p.exists():
        return []
    return json.loads(p.read_text())["findings"]


def main():
    ap = argparse.ArgumentParser()
    ap.add_argument("prop")
    ap.add_argument("--tier", default=os.environ.get("VERIF_TIER", "quick"))
    ap.add_argument("--replay")
    ap.add_argument("--no-build", action="store_true")
    a = ap.parse_args()
    prop, tier = a.prop, a.tier
    seed = int(os.environ.get("VERIF_SEED", "20260930"))
    t0 = time.time()
    log = []
    os.chdir(os.environ.get("JSL_REPO", "/repo"))
    (VERIF / "evidence").mkdir(exist_ok=True)
    (VERIF / "work").mkdir(exist_ok=True)

    ok_build, broken = (True, None) if a.no_build else build(log)
    au = audit(prop)
    import props
    ctx = props.Ctx(prop, tier, seed, VERIF, replay=a.replay)
    run_err = None
    try:
        props.run(ctx)
    except Exception:
        run_err = traceback.format_exc()
        log.append(run_err)

    violations = list(ctx.violations)
    obligations_broken = []
    if not ok_build:
        # a broken file concerns this property if its theorems or the extracted model (which every check runs) depend on it
        mine = set(coqdep_closure("Props/%s.v" % prop)) | set(coqdep_closure("Extract/Extract.v"))
        if "*" in BROKEN_FILES or (BROKEN_FILES & mine):
            obligations_broken.append("build: " + str(broken))
        else:
            log.append("build problem outside this property's theorems and the extracted model: " + str(broken))
    if not au["ok"]:
        obligations_broken.extend(au["problems"])
    for d in ctx.broken_correspondence:
        obligations_broken.append("correspondence: " + d)
    if run_err:
        obligations_broken.append("harness error: " + run_err.strip().splitlines()[-1][:300])

    findings = [f for f in load_findings() if f["property"] == prop]
    open_f = [f for f in findings if f.get("status") == "open"]
    lines = []
    new_viol = []
    matched = {}
    import findings as fmod
    for v in violations:
        m = next((f for f in open_f if fmod.matches(f, v)), None)
        if m is not None:
            matched.setdefault(m["id"], []).append(v)
        else:
            new_viol.append(v)
    for f in open_f:
        if f["id"] in matched:
            lines.append("KNOWN-FINDING: property=%s %s (%s; %d occurrence(s) this run)" % (prop, f["what"], f["id"], len(matched[f["id"]])))
    exit_code = 0
    rdir = VERIF / "work" / "replay"
    rdir.mkdir(parents=True, exist_ok=True)
    if new_viol:
        v = new_viol[0]
        rp = rdir / ("%s_%s_%d.json" % (prop, tier, seed))
        rp.write_text(json.dumps({"property": prop, "kind": v.get("kind"), "detail": v.get("detail"),
                                  "replay": v.get("replay"), "n_violations": len(new_viol),
                                  "others": [x.get("kind") for x in new_viol[1:20]]}, indent=1, default=str))
        lines.append("VIOLATION property=%s replay=%s" % (prop, rp))
        exit_code = 1
    elif obligations_broken:
        rp = rdir / ("%s_%s_%d_obligation.json" % (prop, tier, seed))
        rp.write_text(json.dumps({"property": prop, "broken": obligations_broken,
                                  "theorems": au.get("theorems"), "searched": ctx.search_note}, indent=1))
        lines.append("VIOLATION property=%s replay=%s no-failing-input-found" % (prop, rp))
        exit_code = 1

    cov = dict(ctx.coverage)
    cov.update({
        "obligations": au["obligations"], "discharged": au["discharged"],
        "checker_cmd": "cd /verif/coq && coq_makefile -f _CoqProject -o Makefile && make (coqc 8.16.1, full .vo build); "
                       "Print Assumptions under every theorem of Props/%s.v" % prop,
        "trusted_base": props.TRUSTED_BASE,
        "theorems": au["theorems"], "axioms": au["axioms"],
        "closed_under_global_context": au.get("closed", 0),
        "proof_audit_problems": au["problems"], "build_log": log[-6:],
        "known_findings_reproduced": sorted(matched.keys()),
        "known_findings_not_reproduced": [f["id"] for f in open_f if f["id"] not in matched],
    })
    cov.setdefault("evaluations", 0)
    cov.setdefault("distinct_nontrivial", 0)
    cov.setdefault("samples", ctx.samples[:3] or ["(none)"])
    cov.setdefault("traces_validated_against_impl", cov.get("evaluations", 0))
    cov.setdefault("disagreements_checked", len(ctx.broken_correspondence))
    ev = {"property_id": prop, "tier": tier if tier in ("quick", "thorough") else "quick", "seed": seed,
          "level": "proof", "coverage": cov, "assumptions": ctx.assumptions,
          "wall_s": round(time.time() - t0, 2), "violations": len(new_viol) + (1 if (obligations_broken and not new_viol) else 0)}
    (VERIF / "evidence" / (prop + ".json")).write_text(json.dumps(ev, indent=1, default=str))
    for l in lines:
        print(l)
    print("check %s tier=%s seed=%d: %s in %.1fs (%d new violation(s), %d known finding(s), %d broken obligation(s))" % (
        prop, tier, seed, "FAIL" if exit_code else "ok", time.time() - t0, len(new_viol), len(matched), len(obligations_broken)))
    sys.exit(exit_code)


if __name__ == "__main__":
    main()
