"""Harness core: load the implementation, serialize instances/states to the s-expression
format of ocaml/codec.ml, wrap apply_transition, talk to the extracted-model driver.

Run with /venv/bin/python, cwd anywhere; the repo root is taken from JSL_REPO (default /repo).
"""
import copy
import dataclasses
import os
import subprocess
import sys
import tempfile
from pathlib import Path

REPO = os.environ.get("JSL_REPO", "/repo")
VERIF = str(Path(__file__).resolve().parent.parent)
if REPO not in sys.path:
    sys.path.insert(0, REPO)
os.environ.setdefault("PYTHONHASHSEED", "0")
import logging
logging.disable(logging.CRITICAL)

CAP_MAX = 1000000000  # sys.maxsize capacities are sent as 10^9 (OCaml ints are 63 bit)
IMPL_BUDGET = 4000   # micro-transitions per state.step on the implementation
MODEL_FUEL = 400     # loop iterations per step in the model


class Unsupported(Exception):
    """The implementation object is outside what the model represents (harness error, not a violation)."""


class StepBudgetExceeded(BaseException):
    pass


_cfg_cache = {}


def load_config(name="test_config0.yaml"):
    """heracless config object of the repo's test configuration (cwd-independent)."""
    if name in _cfg_cache:
        return _cfg_cache[name]
    import heracless
    p = Path(REPO) / "tests" / "data" / "config" / name
    with tempfile.TemporaryDirectory() as d:
        cfg = heracless.load_config(p, Path(d) / "types.py", False)
    _cfg_cache[name] = cfg
    return cfg


def with_cfg(cfg, early=None, joker=None, trunc_active=None, obs=None):
    sm = cfg.state_machine
    if early is not None:
        sm = dataclasses.replace(sm, allow_early_transport=early)
    cfg = dataclasses.replace(cfg, state_machine=sm)
    if joker is not None or trunc_active is not None:
        mwc = cfg.middleware.event_based_binary_action_middleware
        if joker is not None:
            mwc = dataclasses.replace(mwc, truncation_joker=joker)
        if trunc_active is not None:
            mwc = dataclasses.replace(mwc, truncation_active=trunc_active)
        cfg = dataclasses.replace(cfg, middleware=dataclasses.replace(cfg.middleware, event_based_binary_action_middleware=mwc))
    if obs is not None:
        cfg = dataclasses.replace(cfg, env=dataclasses.replace(cfg.env, observation_factory=obs))
    return cfg


class DictRepo:
    """Repository returning a prepared post-YAML dictionary."""

    def __init__(self, d):
        self.d = d

    def load_as_dict(self):
        return copy.deepcopy(self.d)


def _repo(d, cfg):
    """The library's own DslStrRepository on the YAML text of the document (so that the shipped loading path,
    including anything keyed on the document text, is what runs); DictRepo only if the text cannot be produced."""
    try:
        import yaml
        from jobshoplab.compiler.repos import DslStrRepository
        text = yaml.safe_dump(d, sort_keys=False, default_flow_style=False, allow_unicode=True)
        if yaml.safe_load(text) != d:
            return DictRepo(d)
        return DslStrRepository(text, "error", cfg)
    except Exception:  # noqa
        return DictRepo(d)


def compile_dict(d, cfg):
    from jobshoplab.compiler import Compiler
    c = Compiler(cfg, loglevel="error", repo=_repo(d, cfg))
    return c.compile()


def make_compiler(d, cfg):
    from jobshoplab.compiler import Compiler
    return Compiler(cfg, loglevel="error", repo=_repo(d, cfg))


# ----------------------------------------------------------------------------------------
# scripted stochastic times


def scripted_class():
    from jobshoplab.types.stochasticy_models import StochasticTimeConfig

    class Scripted(StochasticTimeConfig):
        """StochasticTimeConfig whose k-th draw is script[k] (0 beyond the script)."""

        def __init__(self, script):
            self.script = list(script)
            self.base_time = self.script[0] if self.script else 0
            self._current_seed = 0
            self.time = max((0, self._get_time()))

        def _update_random_generator(self):
            self._current_seed += 1

        def _get_time(self):
            k = self._current_seed
            return self.script[k] if k < len(self.script) else 0

        def __str__(self):
            return "Scripted(%r)" % (self.script,)

        def __repr__(self):
            return self.__str__()

        def __eq__(self, other):
            return self is other

        __hash__ = object.__hash__

    return Scripted


# ----------------------------------------------------------------------------------------
# serializer


def sx(*parts):
    return "(" + " ".join(parts) + ")"


def sxl(items):
    return "(" + " ".join(items) + ")"


class Codec:
    """Id tables of one InstanceConfig and the serializers built on them."""

    NDRAWS = 400

    def __init__(self, instance, early):
        from jobshoplab.types.instance_config_types import (BufferRoleConfig, BufferTypeConfig,
                                                            DeterministicTimeConfig, TransportTypeConfig)
        from jobshoplab.types.stochasticy_models import StochasticTimeConfig
        self.instance = instance
        self.early = bool(early)
        self.DT = DeterministicTimeConfig
        self.ST = StochasticTimeConfig
        self.mpos = {m.id: k for k, m in enumerate(instance.machines)}
        self.tpos = {t.id: k for k, t in enumerate(instance.transports)}
        self.bpos = {b.id: k for k, b in enumerate(instance.buffers)}
        self.jpos = {j.id: k for k, j in enumerate(instance.instance.specification)}
        if len(self.mpos) != len(instance.machines) or len(self.tpos) != len(instance.transports) \
                or len(self.bpos) != len(instance.buffers) or len(self.jpos) != len(instance.instance.specification):
            raise Unsupported("duplicate component ids")
        for t in instance.transports:
            if t.type != TransportTypeConfig.AGV:
                raise Unsupported("non-AGV transport")
        self.bid = {}
        for k, b in enumerate(instance.buffers):
            self._addbid(b.id, ("std", k))
            if b.parent is not None:
                raise Unsupported("standalone buffer with parent")
        for k, m in enumerate(instance.machines):
            self._addbid(m.prebuffer.id, ("pre", k))
            self._addbid(m.buffer.id, ("in", k))
            self._addbid(m.postbuffer.id, ("post", k))
            for bb in (m.prebuffer, m.buffer, m.postbuffer):
                if bb.parent != m.id:
                    raise Unsupported("machine buffer parent")
        for k, t in enumerate(instance.transports):
            self._addbid(t.buffer.id, ("agv", k))
            if t.buffer.parent != t.id:
                raise Unsupported("agv buffer parent")
        self.opos = {}
        for j in instance.instance.specification:
            for k, o in enumerate(j.operations):
                if o.id in self.opos:
                    raise Unsupported("duplicate operation id")
                self.opos[o.id] = (self.jpos[j.id], k)
        self.tools = {"tl-0": 0}
        self.btype = {BufferTypeConfig.FIFO: 0, BufferTypeConfig.LIFO: 1, BufferTypeConfig.FLEX_BUFFER: 2,
                      BufferTypeConfig.DUMMY: 3}
        self.brole = {BufferRoleConfig.INPUT: 0, BufferRoleConfig.OUTPUT: 1, BufferRoleConfig.COMPONENT: 2,
                      BufferRoleConfig.COMPENSATION: 3}
        # stochastic objects
        self.sto_objs = []     # objects in id order
        self.sto_id = {}       # id(obj) -> index
        self.sto_seed0 = []
        self.sigma = []
        self.inst_sx = self._inst()
        self.sigma_sx = sxl(sxl(str(v) for v in row) for row in self.sigma)

    def _addbid(self, bid, v):
        if bid in self.bid:
            raise Unsupported("duplicate buffer id " + bid)
        self.bid[bid] = v

    def tool(self, t):
        import re
        m = re.fullmatch(r"tl-(\d+)", t) if isinstance(t, str) else None
        if m:
            return int(m.group(1))
        if t not in self.tools:
            self.tools[t] = 1000 + len(self.tools)
        return self.tools[t]

    def labels_sx(self):
        """(std labels) ((pre in post) per machine) (agv labels) - the numbers N of the ids b-N"""
        def num(b):
            return str(int(b.split("-")[1]))
        i = self.instance
        return "((%s) (%s) (%s))" % (" ".join(num(b.id) for b in i.buffers),
                                      " ".join("(%s %s %s)" % (num(m.prebuffer.id), num(m.buffer.id), num(m.postbuffer.id))
                                               for m in i.machines),
                                      " ".join(num(t.buffer.id) for t in i.transports))

    def tcfg(self, c):
        if isinstance(c, self.DT):
            if not isinstance(c.time, int) or isinstance(c.time, bool):
                raise Unsupported("non-int deterministic time %r" % (c.time,))
            return "(d %d)" % c.time
        if isinstance(c, self.ST):
            k = self.sto_id.get(id(c))
            if k is None:
                k = len(self.sto_objs)
                self.sto_id[id(c)] = k
                self.sto_objs.append(c)
                self.sto_seed0.append(c._current_seed)
                twin = copy.deepcopy(c)
                row = [int(twin.time)]
                for _ in range(self.NDRAWS):
                    twin.update()
                    row.append(int(twin.time))
                # row[0] is the current value at scan time (draw index 0 of the model)
                self.sigma.append(row)
            return "(s %d)" % k
        raise Unsupported("time config %r" % (c,))

    def bcfg(self, b):
        cap = b.capacity
        if not isinstance(cap, int):
            raise Unsupported("capacity")
        return "(%d %d %d)" % (self.btype[b.type], min(cap, CAP_MAX), self.brole[b.role])

    def place(self, s):
        if s in self.mpos:
            return "(m %d)" % self.mpos[s]
        if s in self.bpos:
            return "(b %d)" % self.bpos[s]
        if s in self.tpos:
            return "(t %d)" % self.tpos[s]
        raise Unsupported("place %r" % (s,))

    def bidsx(self, s):
        v = self.bid.get(s)
        if v is None:
            raise Unsupported("buffer id %r" % (s,))
        return "(%s %d)" % v

    def _ocfgs(self, outs):
        return sxl(sx(self.tcfg(o.frequency), self.tcfg(o.duration)) for o in outs)

    def _inst(self):
        i = self.instance
        jobs = []
        for j in i.instance.specification:
            ops = []
            for o in j.operations:
                if o.machine not in self.mpos:
                    raise Unsupported("operation on unknown machine")
                ops.append("(%d %s %d)" % (self.mpos[o.machine], self.tcfg(o.duration), self.tool(o.tool)))
            jobs.append(sxl(ops))
        machs = []
        for m in i.machines:
            setup = sxl("(%d %d %s)" % (self.tool(a), self.tool(b), self.tcfg(c)) for (a, b), c in m.setup_times.items())
            machs.append(sx(self.bcfg(m.prebuffer), self.bcfg(m.buffer), self.bcfg(m.postbuffer), setup,
                            self._ocfgs(m.outages)))
        trans = [sx(self.bcfg(t.buffer), self._ocfgs(t.outages)) for t in i.transports]
        bufs = [self.bcfg(b) for b in i.buffers]
        travel = []
        for (a, b), c in i.logistics.travel_times.items():
            try:
                travel.append(sx(self.place(a), self.place(b), self.tcfg(c)))
            except Unsupported:
                # entries between places the model cannot name can never be looked up by it either
                if not (isinstance(a, str) and isinstance(b, str)):
                    raise
        return sx(sxl(jobs), sxl(machs), sxl(trans), sxl(bufs), sxl(travel), "1" if self.early else "0")

    # ---- state ----
    def time(self, t):
        from jobshoplab.types.state_types import NoTime, Time
        if isinstance(t, Time):
            if not isinstance(t.time, int):
                raise Unsupported("non-int time")
            return str(t.time)
        if isinstance(t, NoTime):
            return "-"
        raise Unsupported("time %r" % (t,))

    def optjob(self, j):
        if j is None:
            return "-"
        if j not in self.jpos:
            raise Unsupported("job id %r" % (j,))
        return str(self.jpos[j])

    def buf(self, b):
        from jobshoplab.types.state_types import BufferStateState as F
        fl = {F.EMPTY: 0, F.NOT_EMPTY: 1, F.FULL: 2}[b.state]
        return sx(sxl(self.optjob(j) for j in b.store), str(fl))

    def oacts(self, cfg_outs, outs):
        from jobshoplab.types.state_types import OutageActive
        res = []
        by = {}
        for o in outs:
            by.setdefault(o.id, o)
        if len(outs) != len(cfg_outs):
            raise Unsupported("outage states not aligned")
        for c in cfg_outs:
            o = by.get(c.id)
            if o is None:
                raise Unsupported("outage state missing")
            if isinstance(o.active, OutageActive):
                res.append(sx("a", self.time(o.active.start_time), self.time(o.active.end_time)))
            else:
                res.append(sx("i", self.time(o.active.last_time_active)))
        return sxl(res)

    def transition(self, tr):
        from jobshoplab.types.state_types import MachineStateState as MS
        from jobshoplab.types.state_types import TransportStateState as TS
        c = tr.component_id
        if c in self.mpos:
            comp = "(m %d)" % self.mpos[c]
        elif c in self.tpos:
            comp = "(t %d)" % self.tpos[c]
        elif c in self.bpos:
            comp = "(b %d)" % self.bpos[c]
        else:
            raise Unsupported("component %r" % (c,))
        ns = tr.new_state
        if isinstance(ns, MS):
            new = "(m %d)" % list(MS).index(ns)
        elif isinstance(ns, TS):
            new = "(t %d)" % list(TS).index(ns)
        else:
            raise Unsupported("new_state %r" % (ns,))
        return sx(comp, new, self.optjob(tr.job_id))

    def occ(self, o):
        from jobshoplab.types.state_types import TimeDependency
        if isinstance(o, TimeDependency):
            return sx("dep", self.bidsx(o.buffer_id), self.optjob(o.job_id), self.transition(o.transition))
        return self.time(o)

    def sto(self):
        return sxl("(%d %d)" % (int(o.time), o._current_seed - s0) for o, s0 in zip(self.sto_objs, self.sto_seed0))

    def state(self, s):
        from jobshoplab.types.state_types import MachineStateState as MS
        from jobshoplab.types.state_types import OperationStateState as OS
        from jobshoplab.types.state_types import TransportStateState as TS
        i = self.instance
        if [j.id for j in s.jobs] != [j.id for j in i.instance.specification]:
            raise Unsupported("job order")
        if [m.id for m in s.machines] != [m.id for m in i.machines]:
            raise Unsupported("machine order")
        if [t.id for t in s.transports] != [t.id for t in i.transports]:
            raise Unsupported("transport order")
        if [b.id for b in s.buffers] != [b.id for b in i.buffers]:
            raise Unsupported("buffer order")
        jobs = []
        for jn, (j, jc) in enumerate(zip(s.jobs, i.instance.specification)):
            if [o.id for o in j.operations] != [o.id for o in jc.operations]:
                raise Unsupported("operation order")
            ops = []
            for o in j.operations:
                if o.machine_id not in self.mpos:
                    raise Unsupported("op machine")
                ops.append(sx(str(self.mpos[o.machine_id]), self.time(o.start_time), self.time(o.end_time),
                              str(list(OS).index(o.operation_state_state))))
            jobs.append(sx(sxl(ops), self.bidsx(j.location)))
        machs = []
        for m, mc in zip(s.machines, i.machines):
            if (m.prebuffer.id, m.buffer.id, m.postbuffer.id) != (mc.prebuffer.id, mc.buffer.id, mc.postbuffer.id):
                raise Unsupported("machine buffer ids")
            machs.append(sx(str(list(MS).index(m.state)), self.time(m.occupied_till), self.buf(m.prebuffer),
                            self.buf(m.buffer), self.buf(m.postbuffer), str(self.tool(m.mounted_tool)),
                            self.oacts(mc.outages, m.outages)))
        trans = []
        for t, tc in zip(s.transports, i.transports):
            if t.buffer.id != tc.buffer.id:
                raise Unsupported("agv buffer id")
            loc = t.location.location
            if isinstance(loc, str):
                l = sx("at", self.place(loc))
            elif isinstance(loc, tuple) and len(loc) == 3:
                l = sx("route", self.place(loc[0]), self.bidsx(loc[1]), self.place(loc[2]))
            else:
                raise Unsupported("transport location %r" % (loc,))
            trans.append(sx(str(list(TS).index(t.state)), self.occ(t.occupied_till), self.buf(t.buffer), l,
                            self.optjob(t.transport_job), self.oacts(tc.outages, t.outages)))
        bufs = [self.buf(b) for b in s.buffers]
        now = self.time(s.time)
        if now == "-":
            raise Unsupported("NoTime clock")
        return sx(now, sxl(jobs), sxl(machs), sxl(trans), sxl(bufs), self.sto())

    def transitions(self, trs):
        return sxl(self.transition(t) for t in trs)

    def tm(self, f):
        n = getattr(f, "__name__", "")
        return {"jump_to_event": "jte", "force_jump_to_event": "force", "jump_by_one": "one"}.get(n) or self._bad_tm(n)

    def _bad_tm(self, n):
        raise Unsupported("time machine " + n)


# ----------------------------------------------------------------------------------------
# instrumentation of the implementation


class Recorder:
    """Wraps state.apply_transition (module attribute replacement, harness side only)."""

    def __init__(self):
        import jobshoplab.state_machine.core.state_machine.state as st
        self.st = st
        self.orig = st.apply_transition
        self.codec = None
        self.log = None
        self.count = 0
        self.raw = None
        self.micro = []
        self.want_pre = False
        self.last_exc = None
        st.apply_transition = self._wrapped
        self.active = True

    def _wrapped(self, loglevel, state, instance, transition):
        self.count += 1
        if self.count > IMPL_BUDGET:
            raise StepBudgetExceeded()
        # the stochastic store lives in mutable instance objects: serialize the pre-state BEFORE the call
        pre_sx = self.codec.state(state) if (self.want_pre and self.log is not None and self.codec is not None) else None
        new = self.orig(loglevel, state, instance, transition)
        if self.log is not None and self.codec is not None:
            tr_sx = self.codec.transition(transition)
            new_sx = self.codec.state(new)
            self.log.append(sx(tr_sx, new_sx))
            self.micro.append((pre_sx, tr_sx, new_sx))
        if self.raw is not None:
            self.raw.append((transition, state, new))
        return new

    def begin(self, codec, keep_raw=False):
        self.codec = codec
        self.log = []
        self.micro = []
        self.last_exc = None
        self.count = 0
        self.raw = [] if keep_raw else None

    def end(self):
        lg = self.log
        self.log = None
        return lg

    def close(self):
        self.st.apply_transition = self.orig
        self.active = False


_recorder = None


def recorder():
    global _recorder
    if _recorder is None or not _recorder.active:
        _recorder = Recorder()
    return _recorder


def exc_name(e):
    return type(e).__name__


def impl_step(codec, cfg, state, action, rec=None):
    """Run state.step on the implementation; return (outcome sexp, result or None)."""
    from jobshoplab.state_machine.core.state_machine import state as st
    rec = rec or recorder()
    rec.begin(codec)
    try:
        r = st.step("error", codec.instance, cfg, state, action)
    except StepBudgetExceeded:
        rec.end()
        return "(fuel)", None
    except RecursionError:
        rec.end()
        raise
    except Exception as e:  # noqa
        rec.end()
        if isinstance(e, Unsupported):
            raise
        rec.last_exc = e
        return "(raise %s)" % exc_name(e), None
    lg = rec.end()
    if r.success:
        return sx("ok", codec.state(r.state), codec.transitions(r.possible_transitions), sxl(lg)), r
    return sx("fail", codec.sto(), sxl(lg)), r


# ----------------------------------------------------------------------------------------
# driver client


class Driver:
    def __init__(self):
        exe = os.path.join(VERIF, "ocaml", "driver")
        if not os.path.exists(exe):
            raise RuntimeError("model driver not built: run ./setup.sh")
        self.p = subprocess.Popen(["/bin/sh", "-c", "ulimit -s unlimited 2>/dev/null; exec " + exe],
                                  stdin=subprocess.PIPE, stdout=subprocess.PIPE, text=True, bufsize=1 << 20)
        self.cur = None

    def ask(self, line):
        self.p.stdin.write(line + "\n")
        self.p.stdin.flush()
        out = self.p.stdout.readline()
        if not out:
            raise RuntimeError("model driver died on: " + line[:300])
        return out.rstrip("\n")

    def set_codec(self, codec):
        if self.cur is codec:
            # the sigma table is fixed per codec
            return
        r = self.ask("I " + codec.inst_sx)
        if r != "(inst)":
            raise RuntimeError("driver rejected instance: " + r)
        r = self.ask("G " + codec.sigma_sx)
        if r != "(sigma)":
            raise RuntimeError("driver rejected sigma: " + r)
        self.cur = codec

    def step(self, codec, state_sx, trs_sx, tm, fuel=MODEL_FUEL):
        self.set_codec(codec)
        return self.ask("S %d %s %s %s" % (fuel, state_sx, trs_sx, tm))

    def close(self):
        try:
            self.p.stdin.close()
            self.p.wait(timeout=5)
        except Exception:
            self.p.kill()
