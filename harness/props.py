"""Per-property correspondence + monitor runs (step 3 of check.py)."""
import collections
import json
import random

TRUSTED_BASE = [
    "Coq 8.16.1 kernel (coqc); vm_compute used for witnesses/reflection; no native_compute",
    "Extraction with ExtrOcamlBasic only (no Extract Constant / Extract Inductive of our own); OCaml 4.13.1",
    "hand-written ocaml/codec.ml + driver.ml + monitors.ml (parser/printer around the extracted code)",
    "harness: serializer harness/jsl.py (ids -> positions), apply_transition wrapper, generators, sxdiff attribution",
    "harness/translate_kernels.py (ast translator for the regenerated kernels coq/Gen/*.v)",
    "the hand-written Gallina model coq/SM, coq/Obs, coq/Classic, coq/Dsl, coq/Seed is validated against /repo by "
    "differential runs (sampling), not verified against it",
]

# field groups (sxdiff) whose disagreement counts against a property (DESIGN.md B.2)
CONES = {
    "C01": {"ops", "mstate", "now", "events", "outcome"},
    "C02": {"ops", "mocc", "mout", "now", "sto", "events"},
    "C03": {"stores", "loc", "tjob", "mstate", "tstate", "events", "shape"},
    "C04": {"ops", "loc", "now", "outcome", "env", "middleware"},
    "C05": {"ops", "loc", "stores", "mstate", "mocc", "tool", "mout", "tstate", "tocc", "tloc", "tjob", "tout", "now",
            "sto", "offers", "outcome", "events", "shape"},
    "C07": {"tocc", "tloc", "tjob", "stores", "loc", "tstate", "sto", "events"},
    "C08": {"stores", "events"},
    "C09": {"tool", "mocc", "ops", "sto"},
    "C10": {"mout", "tout", "mocc", "tocc", "mstate", "tstate"},
    "C11": {"offers", "tocc", "outcome", "events"},
    "C12": {"now", "mocc", "tocc", "ops", "middleware"},   # which time machine the middleware picks is part of C12
    "C18": {"offers", "now", "outcome", "env", "middleware"},
    "C20": {"outcome", "sto"},
}


class Ctx:
    def __init__(self, prop, tier, seed, verif, replay=None):
        self.prop, self.tier, self.seed, self.verif, self.replay = prop, tier, seed, verif, replay
        self.violations = []            # dicts: kind, detail, replay
        self.broken_correspondence = []  # strings
        self.coverage = {}
        self.samples = []
        self.assumptions = []
        self.search_note = ""

    def quick(self):
        return self.tier != "thorough"

    def viol(self, kind, detail, replay=None, **extra):
        d = {"kind": kind, "detail": detail, "replay": replay}
        d.update(extra)
        self.violations.append(d)


def run(ctx):
    import props_sm
    import props_other
    table = {}
    table.update(props_sm.TABLE)
    table.update(props_other.TABLE)
    fn = table.get(ctx.prop)
    if fn is None:
        raise RuntimeError("no check registered for " + ctx.prop)
    fn(ctx)
