#!/usr/bin/env python3
"""Regenerates harness/finding_witnesses.json (run by hand): for every OPEN finding of C05 and C11 whose signature is an episode
outcome, the shortest generated episode (document, configuration, actions) that reproduces it. The checks replay these episodes on
every run through the same classification as the sampled episodes, so that each listed finding prints its KNOWN-FINDING line
whatever the seed (a finding that no longer reproduces prints nothing). Never run by the checks themselves."""
import json
import sys
from pathlib import Path

import findings
import props_sm

HERE = Path(__file__).resolve().parent


def main():
    known = [f for f in json.loads((HERE.parent / "KNOWN_FINDINGS.json").read_text())["findings"] if f.get("status") == "open"]
    best = {}
    for prop, extra in (("C05", {}), ("C11", {"ps": (1.0, 0.5, 1.0, 0.9), "trunc_p": 0.0})):
        todo = [f for f in known if f["property"] == prop and f["signature"]["kind"].startswith("outcome:")]
        for seed in range(1, 40):
            out = props_sm._worker((prop, seed, 60, props_sm.PROFILES[prop], False, 0.2, dict(extra)))
            for v in out["violations"]:
                if not v["kind"].startswith("outcome:"):
                    continue
                if prop == "C11" and not props_sm.class_member(v):
                    continue
                for f in todo:
                    if findings.matches(f, v):
                        rp = v["replay"]
                        size = (len(rp.get("actions") or []), len(json.dumps(rp.get("dsl"))))
                        if f["id"] not in best or size < best[f["id"]][0]:
                            best[f["id"]] = (size, {"id": f["id"], "property": prop, "dsl": rp["dsl"], "cfg": rp["cfg"],
                                                    "actions": rp["actions"], "kind": v["kind"]})
            if all(f["id"] in best for f in todo) and seed >= 6:
                break
        print(prop, {f["id"]: best.get(f["id"], (None,))[0] for f in todo})
    (HERE / "finding_witnesses.json").write_text(json.dumps([b[1] for b in best.values()], indent=1))


if __name__ == "__main__":
    sys.exit(main())
