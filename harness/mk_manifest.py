#!/usr/bin/env python3
"""Writes /verif/MANIFEST.json from the per-property descriptions below (run by hand after editing)."""
import json
from pathlib import Path

TIE = ("Tie to /repo, checked on every run: every state.step / middleware.step / env.step the implementation "
       "executes in generated episodes is replayed on the OCaml extraction of the Gallina model from the "
       "implementation's own pre-state and compared as a whole (outcome class, post-state, offers in order, complete "
       "micro-transition log); the boolean clauses used in the theorems are extracted too and evaluated on every "
       "implementation micro-state/transition. A disagreement in the property's cone is reported as VIOLATION "
       "(no-failing-input-found if no clause of the property fails on a concrete input).")

P = {
 "C01": ("SM", "Theorems (Props/C01.v, proofs in SMP/FeasView, Feasible, FeasSound, FeasStep): an inductive invariant FE over the "
         "view (clock, operation records, machine phase + internal store) implies the boolean clause feasible_b (technological "
         "order, start<=end, routed machine, one operation per machine); compiled initial states satisfy it (C01_initial); it "
         "survives every validated applied transition for every instance with non-negative times, every oracle/seed "
         "(C01_one_transition_partial), hence holds in every state and micro-state reachable through the middleware under any "
         "action sequence of any length (C01_reachable_partial, C01_micro_states_partial, C01_step_partial), and end to end from "
         "every document the compiler model accepts (C01_from_document_partial). The statement is UNCONDITIONAL for EVERY instance: "
         "C01_reachable_every_instance / C01_micro_states_every_instance / C01_side_condition_derived_every_instance - every state "
         "and micro-state of every run (plain reach, no hypothesis on the log, no hypothesis on the instance) from "
         "an initial state meeting boolean hypotheses (checked on every compiled initial state) is feasible; the side condition of "
         "the _partial theorems is derived by a provenance argument over batches (SMP/Prov, LiftProv, ProvBatch), including ordered "
         "(FIFO/LIFO/DUMMY) machine post-buffers, where transitions are re-issued from stored time dependencies (invariant DEPI: a "
         "dependency is the AGV's own transition for its own claim, lying behind the blocking job; batch invariant Qdep). The side "
         "condition is still evaluated by the extracted monitor on every transition the implementation applies. " + TIE),
 "C02": ("SM", "Theorems (Props/C02.v; SMP/Post, Offers): exact post-state of SETUP->WORKING (operation and machine get start=now, "
         "end=now+d with d the value sampled now, once), of WORKING->OUTAGE (end extended by exactly the longest active outage), of "
         "OUTAGE->IDLE (record DONE with end=now), outage lengths non-negative, and timed transitions are created only when due "
         "(C02_not_early) - for all states/instances/oracles, one transition at a time. OVER WHOLE RUNS (SMP/Durations.v, "
         "C02_durations_reachable_every_instance / _micro_states_every_instance): in every state and micro-state of every run of "
         "every instance, every DONE operation with a deterministic configured duration lasted at "
         "least that duration and exactly that duration on a machine without outage configuration (durations_b) - proved by showing "
         "every machine transition is applied exactly when due (provenance lifting: not early; clock invariant: not late) and that a "
         "busy machine's PROCESSING record ends at occupied_till. For stochastic durations: durations_b (which skips them) and "
         "the event clauses, which ARE theorems of every run: every micro-log entry of every decision of every run satisfies ev_work "
         "(end = now + the duration drawn now for the configured operation on the configured machine, stochastic ones included), "
         "ev_machine_outage and ev_machine_release with respect to the state it was applied in "
         "(C02_duration_events_hold_along_every_run; SMP/EventsOk.v, EventsRun.v), and every timed transition is applied with the clock EQUAL to the "
         "component's occupied_till (ev_due: C02_timed_events_fire_exactly_when_due_along_every_run, SMP/Due.v); the same clauses are evaluated on every implementation transition. " + TIE),
 "C03": ("SM", "Theorems (Props/C03.v; SMP/WF, Preserve, StepInv, Reflect): every job is stored exactly once, every stored number is a "
         "job, locations name the holding buffer, flags agree with stores - preserved by EVERY applied transition with no side "
         "condition, hence in every reachable state and every micro-state under any action sequence, any fuel, any truncation setting "
         "(C03_conservation_*), with reflection between the Prop invariant WFS and the extracted boolean wfs_b; an AGV holds exactly "
         "one job in TRANSIT and none otherwise (C03_agv_load_*, unconditional, SMP/Agv.v); a job is claimed by at most one AGV in every "
         "state and micro-state of EVERY run, every instance (C03_claims_reachable / _micro_states, SMP/Claims.v: claims are only set by "
         "dispatches, which come from offers of unclaimed jobs or the teleport filter); an AGV's phase agrees with its claim, route and "
         "place - idle and broken-down AGVs are empty and stand at a place, a broken-down AGV has no claim, the WORKING phase is never "
         "entered (C03_agv_phase_*, unconditional); a busy machine holds exactly one job, an "
         "idle one none (C03_machine_holds_one_every_instance: every state of every run of every instance); an AGV holds at most one job and only "
         "its claim (C03_agv_holds_only_its_claim_every_instance: agv_hold_b in every state of every run, SMP/Hold.v). " + TIE),
 "C04": ("Env", "Theorems (Props/C04.v; SMP/Decline, Atomic): env model - a done episode refuses steps (C04_done_raises), terminated and "
         "truncated are never both set (C04_exclusive), terminated iff the middleware result has no offers and every job lies in an "
         "output buffer with all its operations done (C04_term_flag; all_in_output as repaired by fix 7fd110d), the reported makespan is the clock (C04_makespan_is_clock) and in every terminated result of every run that clock IS the latest recorded completion - "
         "no completion after it, one exactly at it (C04_clock_at_termination_is_the_latest_completion, SMP/Makespan.v, no hypothesis); a job in an "
         "OUTPUT buffer has all operations done in every reachable state, so a terminated episode has finished all work "
         "(C04_output_done_partial, C04_terminated_all_done_partial; SMP/OutputDone.v, invariant carried with FE and the AGV-load "
         "invariant; C04_output_done_every_instance / C04_terminated_all_done_every_instance: UNCONDITIONAL over plain runs of every "
         "instance - the two side conditions on applied TRANSIT transitions (job not in process, job = the AGV's claim) are derived, "
         "and still evaluated by the extracted monitors on every transition the implementation applies). " + TIE +
         " env.step of the implementation is replayed on the env model; an independent reading of flags/makespan runs on every step; when "
         "the correspondence breaks a directed search (phased policies, zero-travel shops, truncation on) looks for a failing input."),
 "C05": ("SM", "Theorems (Props/C05.v): a successful step re-establishes the store and clock invariants, a failing step returns its "
         "input state (clean failure), offered transitions never fail validation (C05_no_validation_error); OVER WHOLE RUNS of EVERY instance: the middleware never receives an unsuccessful result "
         "(success=False) in any run - every transition the simulator applies passes validation where it is applied, including the "
         "IDLE->SETUP transitions a machine creates by itself from an ordered pre-buffer (SMP/Deliver.v: a job in a pre-buffer has its "
         "next operation on that machine) and the transitions re-issued from time dependencies "
         "(C05_step_never_reports_failure_every_instance, SMP/NoFail.v; the check also judges every reported failure in generated episodes). Liveness (every offered "
         "action can be taken, the episode can always finish) is FALSE of the code and refuted by theorem: C05_refuted_step / "
         "C05_refuted_reachable show, for a compiled document reached through the middleware, that accepting the offered action makes "
         "state.step run out of EVERY fuel (lasso lemma SMP/Hang.v; the witness is replayed on the implementation on every run). "
         "Five genuine defects are recorded as known "
         "findings (buffer-full raise, two deadlocks, non-terminating ordered standalone buffer, zero-division reward); the check "
         "classifies every abnormal episode end and reports anything not matching a listed finding. What every internal transition of a step does "
         "is a theorem over whole runs of every instance: every micro-log entry satisfies the complete event vector of the monitors against one "
         "witnessed pre-state, the dispatch clause up to its (refuted) readiness conjunct "
         "(C05_every_micro_event_satisfies_the_monitor_vector_every_instance, SMP/AllEvents.v), and every micro-state satisfies every state clause the "
         "monitors print (C05_every_micro_state_satisfies_every_state_clause_every_instance, SMP/AllClauses.v). Termination itself is not a "
         "theorem (fuel-bounded model). " + TIE),
 "C06": ("Classic", "Theorems (Props/C06.v; Classic/*): for classic instances (teleporting AGVs, zero travel) the Taillard lower bound "
         "computed by the model of calculate_lower_bound is below the makespan of EVERY feasible schedule (C06_lb_sound, via the packing "
         "lemma), and a feasible schedule exists (sequential). END TO END (C06_lower_bound_below_every_terminated_run_every_instance, SMP/EndToEnd.v): for "
         "every instance whose job table is classic (any buffer disciplines), the operation records of EVERY terminated "
         "run of the middleware (any actions, oracle, fuel; AGVs/setups/outages allowed) form a feasible schedule of the classic instance, "
         "so the bound is at most every upper bound of the completion times, in particular the reported makespan - the environment's "
         "optimum cannot be below the bound and the terminal reward cannot exceed its maximum (stated for the REPORTED makespan: "
         "C06_lower_bound_below_the_reported_makespan_every_instance, C06_terminal_reward_never_exceeds_its_maximum). That the environment's action space reaches an optimal schedule is "
         "explored (bounded tree search against brute force on small instances), not proved. Tie: the lower-bound model (extracted) is "
         "compared with calculate_lower_bound on generated and shipped instances on every run."),
 "C07": ("SM", "Theorems (Props/C07.v; SMP/Post, Offers): dispatch stamps occupied_till = now + travel(AGV position -> job's place) read "
         "from the directed matrix entry, pickup stamps now + travel(job's place -> destination) sampled now, delivery puts the job at "
         "the BACK of the route's destination buffer and frees the AGV claim; AGV timed events are created only when due; the pickups "
         "the simulator schedules itself are only for the claimed job and only when it is ready (C07_pickup_only_claimed_ready) and "
         "satisfy, where created, the side conditions the partial theorems of C01/C04 assume (C07_side_conditions_at_creation). One "
         "transition at a time, all states/instances/oracles. Over whole runs of EVERY instance (ordered post-buffers and time "
         "dependencies included, SMP/ProvBatch.v): EVERY -> TRANSIT transition applied in ANY run takes the AGV's own claim and a job that is not in process "
         "(C07_every_pickup_claimed_and_not_in_process_every_instance), and an operation never starts "
         "earlier than its predecessor's end plus the deterministic travel-time entry between the two machines, in every state and "
         "micro-state of every run (C07_start_after_predecessor_plus_travel_*_every_instance, SMP/Travel.v: released into the finishing machine's "
         "post-buffer, picked up with the entry for that direction, delivered exactly when due; clause travel_gap_b also monitored "
         "on every implementation state, all instances); a job is delivered to the machine of its next operation - every job lying in "
         "a machine's pre-buffer has its first not-done operation there (C07_delivered_to_the_machine_of_the_next_operation_*, clause "
         "pre_ok_b, SMP/Deliver.v); stored time dependencies are well-formed (C07_time_dependencies_wellformed_*, clause depi_b); the delivery "
         "event clause ev_deliver (appended at the back of the route's destination, AGV empty/unclaimed/at the destination, blocked for the "
         "longest sampled outage) holds of every micro-log entry of every run (C07_delivery_events_hold_along_every_run), and so does the pickup "
         "clause ev_transit: own claim, not being processed, from a post-/standalone buffer at the release position, travel time for the recorded "
         "destination (C07_pickup_events_hold_along_every_run, SMP/Transit.v); ev_dispatch up to its readiness conjunct (see C11). " + TIE),
 "C08": ("SM", "Theorems (Props/C08.v): capacity_b (no buffer above its capacity) in every reachable state and micro-state (from WFS); "
         "insertion at the back is a post-state theorem (SMP/Post); discipline order: every applied -> TRANSIT either keeps the AGV waiting "
         "or takes the job at the release position (C08_agv_takes_only_the_released_job); a machine start created by the simulator "
         "names the job at the release position of the pre-buffer, no transition of another machine touches that pre-buffer, and "
         "the agent is offered machine starts only from unordered pre-buffers - composed over whole runs of every instance: every "
         "IDLE->SETUP in the micro-log of every decision takes the job at the release position of the pre-buffer as it was in the "
         "micro-state before, and every AGV that takes a job takes it from the release position (both event clauses along the chain of "
         "micro-states: C08_every_taker_takes_the_released_job_every_instance; C08_created_machine_start_names_the_released_job, "
         "C08_pre_buffer_untouched_by_other_machines, C08_offered_machine_start_only_for_unordered_pre_buffer; SMP/Release.v); "
         "the store clauses ev_stores (remove one / append one) and ev_machine_release are proved of every applied transition and lifted along every run "
         "(C08_stores_change_by_remove_and_append_along_every_run; SMP/EventsOk.v, EventsRun.v); "
         "extracted event monitors (ev_pre_release, ev_transit_release, ev_stores) on every applied transition. " + TIE),
 "C09": ("SM", "Theorems (Props/C09.v): IDLE->SETUP reads matrix[(mounted tool, new tool)], stamps now + that value, mounts the new tool, "
         "moves the job in; offers only name idle machines; WORKING starts no earlier than the setup end (clock invariant); tool frame; "
         "over whole runs of every instance (SMP/Setup.v): in every state and micro-state "
         "of every run each machine's started operations form a sequence in which every operation's processing starts no earlier than "
         "the end of the one before plus matrix[(tool before, own tool)] (the first: initial tool, episode start), the mounted tool being "
         "the newest one's (C09_setup_sequence_*_every_instance, ghost sequence), and the same on the records alone for neighbouring DONE "
         "operations (C09_consecutive_operations_separated_*_every_instance, clause setup_gap_b, also evaluated on every implementation state); "
         "the event clauses ev_setup and ev_tool_frame hold of every micro-log entry of every run (C09_setup_events_hold_along_every_run). " + TIE),
 "C10": ("SM", "Theorems (Props/C10.v): WORKING->OUTAGE / TRANSIT->OUTAGE block for exactly the longest sampled active outage, durations "
         "non-negative, no outage when none is due, release makes every record inactive and remembers its own end time, an OUTAGE "
         "component accepts only the release transition; over whole runs: outside OUTAGE every record is inactive and active records "
         "have start <= end in every reachable state and micro-state (C10_outage_records_*, SMP/Outages.v, no side condition); the "
         "sampling clause the monitors evaluate on every outage-sampling transition (started exactly when due / with exactly the "
         "configured duration for deterministic definitions) is proved true of the model's sampler (C10_sampling_clause_holds_of_the_model) "
         "and, with ev_machine_outage / ev_machine_release / ev_transport_release, of every micro-log entry of every run "
         "(C10_outage_events_hold_along_every_run); the releases fire exactly when the block has elapsed (C10_outage_ends_exactly_when_due_along_every_run). " + TIE),
 "C11": ("SM", "Theorems (Props/C11.v; SMP/Offers): every offered transport/machine transition passes validation and names a ready job "
         "(offers_are_valid); over whole runs of every instance every offer of every "
         "reachable result is valid in the state it is offered in (C11_every_offer_is_valid_in_every_run_every_instance, SMP/OffersValid.v). "
         "Absence of deadlock is FALSE of the code and refuted by theorem inside the property's configuration "
         "class: C11_refuted (always-accept reaches a non-terminal state without offers; every further action raises, for every "
         "fuel) and C11_refuted_hang; 'with early transport disabled an AGV is only dispatched to a ready job' is FALSE too: "
         "C11_dispatch_only_to_ready_jobs_refuted (a release and a zero-travel dispatch computed from one state, the release applied first; "
         "found while trying to prove the dispatch event clause along every run); what IS true, without hypotheses: every dispatch OFFERED to the agent names a ready job "
         "in the state it is presented and applied in (C11_offered_dispatches_name_ready_jobs). All three witnesses are replayed on the implementation on every "
         "run. The check classifies every dead end reached; readiness tests regenerated from source (C11_*_is_the_code's). " + TIE),
 "C12": ("SM", "Theorems (Props/C12.v; SMP/Clock, ClockStep, ClockMain): no transition moves the clock; the time machines used by the "
         "middleware never move it backwards and never past a pending completion; the clock invariant NO (nothing pending lies in the "
         "past) holds in every live reachable state and micro-state, with reflection to the extracted clock_b. Translation invariance "
         "is refuted by theorem for instances with outages (C12_shift_refuted: same instance and action, start 0 vs 7, clocks 3 vs "
         "8; witness replayed on the implementation on every run; known finding); for instances WITHOUT outage definitions it is a theorem for whole "
         "episodes - every handler, the timed-transition creation, the offers, the time machines, step, middleware and environment commute with shifting "
         "every time stamp by K, for every oracle, fuel and action sequence (C12_episodes_are_translation_invariant_without_outages, SMP/Shift.v); paired "
         "runs of the implementation with two start times are compared state by state on every run. Event-exactness over whole "
         "runs of every instance: every timed transition of every micro-log is applied with the clock equal to its component's occupied_till "
         "(C12_events_fire_exactly_when_due_along_every_run, SMP/Due.v). " + TIE),
 "C13": ("Seed", "Theorems (Props/C13.v; Seed/SeedModel, SMP/NoStoch): in the model of seeding/reset the k-th episode depends only on "
         "(seed, k), not on global RNG state or other environments (C13_reset_independent_of_global, C13_noninterference); instances "
         "without stochastic times are oracle-independent (C13_seed_irrelevant*). Tie: cross-process runs of the implementation with "
         "perturbed global RNGs, other environments alive and different PYTHONHASHSEED must produce identical traces, and equal the "
         "model's prediction of which draws are consumed."),
 "C14": ("Obs", "Theorems (Props/C14.v; Obs/ObsModel, ObsP): integer fields of the observation model lie in the declared bounds for "
         "every state satisfying the shape hypothesis; the encoded offer lies in its box; out-of-space actions and steps on a done "
         "episode raise. C14_current_time_refuted: the declared bound of current_time is exceeded (witness) - known finding. Tie: every "
         "observation of generated episodes (4 factories) is compared field by field with the extracted model and checked with "
         "Gymnasium's contains()."),
 "C15": ("Obs", "Theorems (Props/C15.v): the offer encoding is injective on well-formed transitions; the per-job/per-machine fields read "
         "the state of the component with that NUMBER (not list position). Tie as C14 plus an independent reading of the state indexed "
         "by number."),
 "C16": ("Dsl", "Theorems (Props/C16.v; Dsl/Doc, DocP): in the compiler model, entry (a,b) of the travel matrix becomes the directed time "
         "a->b (C16_direction); jobs, operation order, machines and durations equal the document's job table (C16_jobs_as_written); "
         "numbers of machines/AGVs, standalone buffers and the early-transport switch are the document's with the documented "
         "defaults (C16_shape_as_written); every machine has the pre-/post-buffer specification given for it (or the unbounded flex default), a one-slot "
         "internal buffer, the setup matrix written for it and exactly the outages naming it or all machines (C16_machines_as_written), every AGV a one-slot "
         "buffer and the transport outages (C16_agvs_as_written), every operation the tool listed at its position (C16_tools_as_written), and the setup "
         "matrix is compiled row = from-tool, column = to-tool (C16_setup_direction). The rest of 'the instance is what the document describes / malformed documents are rejected' is "
         "decided by correspondence: the extracted compiler model runs on an independently tokenised document and must equal "
         "Compiler.compile (instance, initial state, labels); direct readings of the document (travel table, ids) and 15 kinds of "
         "malformed variants (must raise a jobshoplab error) run on every document. Known finding: job labels are ignored."),
 "C17": ("Dsl", "Theorems (Props/C17.v): generated identifiers are fresh (never collide with ids the document registered), buffer ids are "
         "unique, listed stores keep their order, the model is a function (deterministic); the initial state of EVERY accepted document "
         "satisfies the hypotheses of the state-machine theorems: fresh_b (C01), clock_b (C12), agv_load_b (C03) "
         "(C17_initial_state_meets_hypotheses), nodep_b, agv_phase_b, inactive outage records, AGVs idle and empty "
         "(C17_initial_state_meets_the_agv_and_outage_hypotheses). Tie: as C16, plus compiling the same text in "
         "processes with different PYTHONHASHSEED must give identical results; the compiled initial state must satisfy the store/clock "
         "clauses and fresh_b."),
 "C18": ("Env", "Theorems (Props/C18.v; SMP/Decline): declining with k>1 offers leaves the shop untouched and removes exactly that offer; "
         "declining the last offer advances the clock to the next event - STRICTLY, over whole runs of every instance, unless the decline ends the episode "
         "(C18_declining_the_last_offer_strictly_advances_time, SMP/DeclineStrict.v); the offers after a step are complete; truncation counts "
         "fully-declined rounds and is reported iff the count exceeds the allowance, never when inactive. " + TIE +
         " middleware.step is replayed on the middleware model with its counters."),
 "C19": ("Obs", "Theorems (Props/C19.v; Obs/Reward, RewardP): exact rational reward model - non-final steps yield only the bounded "
         "non-positive shaping term, truncation yields truncation_bias, the terminal main term is strictly decreasing in the makespan, "
         "equals 1 at the lower bound, <= 1 above it; C19_finite_refuted: division by zero when lower bound = sum of durations; "
         "C19_decreasing_refuted_reentrant: for re-entrant routes the bound exceeds the sum of durations and the main term grows "
         "with the makespan (both known findings). Tie: every reward of generated episodes is compared with the exact model value (1e-9) and the clauses are "
         "evaluated on the implementation's value."),
 "C20": ("Env", "Theorems (Props/C20.v; SMP/Atomic): a failing state.step returns exactly its input state (C20_atomic), any action "
         "containing an invalid transition fails (C20_rejects), wrong-phase transitions are invalid, and the environment truncates on a "
         "failed step keeping its state (C20_env_truncates). Purity (inputs never mutated) is checked on the implementation by deep "
         "snapshots around every step (not a theorem: the model is pure by construction). " + TIE),
}

ENG = {
 "SM": ("coq/SM coq/SMP harness/props_sm.py harness/trace.py", "Gallina model of handlers, validation, possible transitions, time "
        "machines, state.step loop; invariants and post-state theorems; extracted to OCaml (driver + monitors)"),
 "Env": ("coq/SM/Middleware.v coq/SMP/Decline.v coq/SMP/Atomic.v harness/props_hooks.py", "model of EventBasedBinaryActionMiddleware and "
         "of JobShopLabEnv.step flags on top of SM"),
 "Classic": ("coq/Classic harness/props_other.py", "classic JSSP schedules, packing lemma, Taillard lower bound"),
 "Obs": ("coq/Obs harness/props_other.py", "observation factories and reward as exact functions over Q/Z"),
 "Dsl": ("coq/Dsl harness/dsl_tok.py harness/props_other.py", "compiler model over tokenised documents"),
 "Seed": ("coq/Seed coq/SMP/NoStoch.v harness/c13_probe.py", "seeding/reset model and oracle independence"),
}

LEVEL_NOTE = ("Trusted: Coq 8.16.1 kernel (vm_compute for witnesses, no native_compute), no axioms (Print Assumptions: closed under "
              "the global context for every property theorem), extraction with ExtrOcamlBasic only, the hand-written OCaml "
              "codec/driver/monitors, the Python serializer and generators. The Gallina model is hand-written and VALIDATED against "
              "/repo by the differential correspondence (sampling), not verified against it. See DESIGN.md 'Trusted base' and "
              "'What was built'.")


def main():
    root = Path(__file__).resolve().parent.parent
    checks = []
    for k in range(1, 21):
        pid = "C%02d" % k
        eng, text = P[pid]
        checks.append({
            "property_id": pid, "quick_cmd": "./check %s --tier quick" % pid, "thorough_cmd": "./check %s --tier thorough" % pid,
            "evidence_file": "/verif/evidence/%s.json" % pid, "replay_cmd_template": "./check %s --replay {path}" % pid,
            "engine": eng,
            "level_claimed": {"category": "proof", "text": text, "design_ref": "DESIGN.md 'What was built' / %s" % pid},
            "level_note": LEVEL_NOTE,
            "technique": "machine-checked proof in Coq 8.16 over a hand-written Gallina model + checked correspondence "
                         "(extracted model vs implementation on the same inputs)",
        })
    man = {
        "version": 1, "setup_cmd": "./setup.sh",
        "hooks": {"guard": "JOBSHOPLAB_VERIF",
                  "enable": "none required: the harness wraps state.apply_transition and the middleware class from outside "
                            "(module attribute / subclass); no source hook was committed to /repo",
                  "baseline_off_cmd": "cd /repo && /venv/bin/python -m pytest -ra -q -p no:cacheprovider --timeout=900 "
                                      "--continue-on-collection-errors",
                  "source_commits": [], "add_only": True},
        "engines": [{"name": n, "path": p, "serves_properties": [c for c in sorted(P) if P[c][0] == n], "kind_free_text": t}
                    for n, (p, t) in ENG.items()],
        "checks": checks,
        "notes": "All 20 properties are decided by theorems in coq/Props plus the checked correspondence; where only part of a "
                 "property is a theorem the text says which part and what is monitored instead. Known findings (genuine defects "
                 "not repaired) and fixed defects are in KNOWN_FINDINGS.json; seeded changes used to test the checks are in "
                 "seeded/. ./run_all.sh runs setup and every quick check.",
        "not_applicable": [],
    }
    (root / "MANIFEST.json").write_text(json.dumps(man, indent=1) + "\n")


if __name__ == "__main__":
    main()
