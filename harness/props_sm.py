"""Checks for the state-machine properties (engine SM): C01 C02 C03 C05 C07 C08 C09 C10 C11 C12 C20."""
import collections
import json
import multiprocessing
import os
import random
import re

import sxdiff
from props import CONES

# which boolean clauses decide which property (the same definitions as in the theorems)
STATE_CLAUSES = {
    "C04": ["output_done"],
    "C18": [],
    "C01": ["feasible", "busy_op", "proc_inner", "past"],
    "C02": ["busy_op", "no_overdue", "durations"],
    "C03": ["placement", "loc", "mach_hold", "agv_hold", "claims", "flags", "agv_phase", "agv_load", "depi"],
    "C05": ["placement", "loc", "mach_hold", "agv_hold", "claims", "capacity", "flags", "feasible", "no_overdue",
            "past", "busy_op", "proc_inner", "output_done", "outages", "outage_nonneg", "agv_phase", "idle_unclaimed",
            "sto_ok", "depi", "pre_ok"],
    "C07": ["agv_phase", "agv_hold", "no_overdue", "travel_gap", "depi", "pre_ok"],
    "C08": ["capacity", "depi"],
    "C09": ["busy_op", "setup_gap"],
    "C10": ["outages", "outage_nonneg"],
    "C11": ["depi"],
    "C12": ["no_overdue", "past", "idle_unclaimed", "sto_ok"],
    "C20": [],
}
EVENT_CLAUSES = {
    "C04": ["transit_side", "transit_claim"],
    "C18": [],
    "C01": ["clock", "transit_side"],
    "C02": ["work", "machine_outage", "machine_release", "due", "clock"],
    "C03": ["stores"],
    "C05": [],
    "C07": ["dispatch", "transit", "deliver", "due"],
    "C08": ["pre_release", "transit_release", "stores"],
    "C09": ["setup", "tool_frame", "due"],
    "C10": ["machine_outage", "machine_release", "deliver", "transport_release", "due"],
    "C11": ["dispatch"],
    "C12": ["clock", "due"],
    "C20": [],
}
PROFILES = {
    "C04": ("mixed", "transport", "full", "classic", "wide", "multibuf"),
    "C18": ("mixed", "transport", "buffers", "classic"),
    "C01": ("mixed", "full", "buffers", "stoch", "wide"),
    "C02": ("full", "stoch", "mixed", "full", "wide", "outs"),
    "C03": ("mixed", "buffers", "race", "full", "dep", "multibuf", "wide"),
    "C05": ("mixed", "buffers", "full", "stoch", "race", "multibuf", "wide", "outs", "dep", "outstart"),
    "C07": ("transport", "buffers", "full", "stoch", "race", "multibuf", "wide", "dep"),
    "C08": ("buffers", "race", "full", "buffers", "dep", "wide", "race", "multibuf", "fullstart", "stale"),
    "C09": ("full", "stoch", "full", "mixed", "wide"),
    "C10": ("full", "stoch", "full", "full", "wide", "outs"),
    "C11": ("transport", "buffers", "full", "race", "wide", "multibuf", "dep", "outstart", "buried"),
    "C12": ("mixed", "full", "transport", "stoch", "wide", "outs"),
    "C20": ("dep", "mixed", "dep", "transport", "race", "dep", "outs", "multibuf", "full", "dep", "buffers"),
}


def _worker(args):
    """One batch in a fresh interpreter state of the pool worker. Returns a JSON-able summary."""
    (prop, seed, n, profiles, want_events, custom_p, extra) = args
    import batch
    import jsl
    import trace
    tracer = trace.Tracer(keep_objects=bool(extra.get("keep_objects")))
    tracer.check_input_purity = (prop == "C20")
    tracer.want_pre = want_events
    tracer.record_mw = bool(extra.get("record_mw"))
    tracer.record_env = bool(extra.get("record_env"))
    hook = None
    state = {}
    if extra.get("hook"):
        import props_hooks
        hook = props_hooks.HOOKS[extra["hook"]](state)
    tracer, eps = batch.run_batch(seed, n, profiles, tracer=tracer, custom_buffers_p=custom_p,
                                  env_hook=hook, ps=extra.get("ps", (0.1, 0.5, 0.9, 1.0)),
                                  trunc_p=extra.get("trunc_p", 0.3), gen_kw=extra.get("gen_kw"),
                                  phased_p=extra.get("phased_p", 0.0), early_p=extra.get("early_p", 0.6),
                                  big_p=extra.get("big_p", 0.0), reuse_p=extra.get("reuse_p", 0.0))
    drv = jsl.Driver()
    out = {"episodes": len(eps), "records": len(tracer.records), "violations": [], "disagreements": [],
           "ends": collections.Counter(e.end for e in eps), "features": collections.Counter(),
           "events": 0, "states": 0, "micro": 0, "distinct": 0, "samples": [], "kinds": collections.Counter(),
           "hook": state.get("out")}
    for e in eps:
        f = e.feats
        out["features"]["profile=%s" % f.get("profile")] += 1
        out["features"]["jobs=%s machines=%s" % (f.get("nj"), f.get("nm"))] += 1
        out["features"]["early=%s" % f.get("early")] += 1
        out["features"]["p=%s" % f.get("p")] += 1
        if f.get("custom_buffers"):
            out["features"]["custom_buffers"] += 1
        if f.get("reused_env"):
            out["features"]["episode_on_a_reused_environment"] += 1

    def ep_of(k):
        return next(e for e in eps if e.first <= k < e.last)

    def replay_of(k, **more):
        e = ep_of(k)
        r = tracer.records[k]
        d = {"dsl": e.d, "cfg": e.cfgkw, "actions": e.actions, "episode": e.idx, "record_in_episode": k - e.first,
             "batch_seed": seed, "features": {a: b for a, b in e.feats.items() if a != "routes"},
             "pre": r.pre, "trs": r.trs, "tm": r.tm}
        d.update(more)
        return d

    # 1. correspondence: every recorded state.step replayed on the model from the implementation's pre-state
    bad = trace.replay(tracer.records, drv)
    for k, r, m in bad[:50]:
        groups, where = sxdiff.attribute(r.out, m)
        out["disagreements"].append({"groups": sorted(groups), "where": where,
                                     "replay": replay_of(k, impl=r.out[:4000], model=m[:4000])})
    if tracer.record_mw:
        out["mw_records"] = len(tracer.mw_records)
        for k, rec, m in trace.replay_mw(tracer.mw_records, drv)[:20]:
            out["disagreements"].append({"groups": ["middleware"], "where": "middleware.step #%d" % k,
                                         "replay": {"pre_result": rec[1][:3000], "pre_mw": rec[2], "action": rec[3],
                                                    "impl": rec[4][:3000], "model": m[:3000]}})
    if tracer.record_env:
        out["env_records"] = len(tracer.env_records)
        for k, rec, m in trace.replay_env(tracer.env_records, drv)[:20]:
            out["disagreements"].append({"groups": ["env"], "where": "env.step #%d" % k,
                                         "replay": {"pre_env": rec[1][:3000], "action": rec[2], "impl": rec[3][-1500:],
                                                    "model": m[-1500:]}})
    # 1a. "reports success" (C05): no state.step of an episode driven by offered actions returns success=False
    #     (theorem C05_step_never_reports_failure_every_instance)
    if prop == "C05":
        nfail = 0
        for k, r in enumerate(tracer.records):
            if r.out.startswith("(fail"):
                nfail += 1
                if nfail <= 5:
                    out["violations"].append({"kind": "outcome:step_reported_failure", "detail": "state.step returned "
                                              "success=False on transitions the environment itself offered or created",
                                              "replay": replay_of(k, impl=r.out[:2000])})
        out["steps_checked_for_reported_failure"] = len(tracer.records)
    # 1b. purity of state.step (C20): the input state object of every call equals its deep copy afterwards
    for mu in tracer.input_mutations[:20]:
        out["violations"].append({"kind": "purity:step_input_mutated", "detail": "state.step altered the state object it was "
                                  "given (fields %s)" % mu["fields"],
                                  "replay": replay_of(min(mu["record"], len(tracer.records) - 1), before=mu["before"], after=mu["after"]),
                                  "facts": {"fields": mu["fields"]}})
    out["step_inputs_snapshotted"] = len(tracer.records) if tracer.check_input_purity else 0
    # 2. monitors
    st = {}
    sv = trace.monitor_states(tracer.records, drv, which=set(STATE_CLAUSES.get(prop, [])) or {"-"}, stats=st)
    out["states"] = st.get("states", 0)
    # (output_done is an invariant only from initial states without unfinished jobs in an output buffer - fresh2, the
    #  hypothesis of the theorems: episodes of the 'outstart' profile start outside it)
    sv = [e_ for e_ in sv if not (e_[2] == "output_done" and ep_of(e_[0]).feats.get("profile") in ("outstart", "fullstart"))]
    for k, pos, name, s in sv[:50]:
        out["violations"].append({"kind": "state:" + name, "detail": "clause %s false at %s" % (name, pos),
                                  "replay": replay_of(k, state=s, position=pos)})
    if prop in ("C01", "C04", "C03", "C02", "C07", "C05", "C11", "C09", "C08", "C10", "C12"):
        # hypotheses of the C01/C04 (and C03_claims_*) theorems on the compiled initial state of every episode: fresh (C04: fresh2); for the
        # unconditional (flex) theorems also fresh2, the store clauses of wfs_b and nodep - reported when the instance
        # has unordered machine post-buffers (the class those theorems speak about)
        init_clauses = {"C01": ["fresh"], "C04": ["fresh2"], "C03": ["claims", "nodep"], "C02": [], "C07": ["agv_phase"], "C05": [], "C11": [], "C09": [],
                        "C08": [], "C10": [], "C12": []}[prop]
        # pre_ok: hypothesis of the theorems over the witnessed chain of applications (event clauses, release order, no-fail)
        flex_hyps = ["placement", "loc", "capacity", "flags", "fresh2", "nodep"] + (["pre_ok"] if prop not in ("C01", "C03", "C04") else [])
        nfresh = nflex = 0
        for e in eps:
            if e.first < e.last:
                r0 = tracer.records[e.first]
                drv.set_codec(r0.codec)
                bits = drv.ask("M " + r0.pre).strip("()").split()
                nfresh += 1
                for clause in init_clauses:
                    if bits[trace.CLAUSES.index(clause)] != "1":
                        out["violations"].append({"kind": "state:" + clause, "detail": "the initial state of the episode does "
                                                  "not satisfy %s (hypothesis of the %s theorems)" % (clause, prop),
                                                  "replay": replay_of(e.first, state=r0.pre)})
                flex = True     # the *_every_instance theorems speak about every instance (SMP/ProvBatch.v)
                if flex and prop != "C03":
                    nflex += 1
                    for hname in flex_hyps:
                        if hname == "fresh2" and e.feats.get("profile") in ("outstart", "fullstart"):
                            continue        # those profiles start outside the theorems' class on purpose
                        if bits[trace.CLAUSES.index(hname)] != "1":
                            out["violations"].append({"kind": "state:" + hname, "detail": "the initial state of an episode on "
                                                      "an instance does not satisfy %s "
                                                      "(hypothesis of the %s_*_every_instance theorems)" % (hname, prop),
                                                      "replay": replay_of(e.first, state=r0.pre)})
        out["fresh_initial_states"] = nfresh
        out["flex_episodes"] = nflex
    if want_events:
        st = {}
        ev = trace.monitor_events(tracer.records, drv, which=set(EVENT_CLAUSES.get(prop, [])) or {"-"}, stats=st)
        out["events"] = st.get("events", 0)
        for k, n_, name, pre, tr, post in ev[:50]:
            v = {"kind": "event:" + name, "detail": "event clause %s false for transition %s" % (name, tr),
                 "replay": replay_of(k, micro_index=n_, pre_micro=pre, transition=tr, post_micro=post)}
            v["facts"] = event_facts(name, tracer.records[k], n_, pre, tr, post)
            if name == "dispatch" and v["facts"].get("early") is False and v["facts"].get("ready_when_applied") is False:
                # does the clause fail for anything but its readiness conjunct (C11's last sentence)? evaluate it once more
                # with early transport allowed in the instance
                cd = tracer.records[k].codec
                if cd.inst_sx.endswith(" 0)"):
                    try:
                        drv.cur = None
                        if drv.ask("I " + cd.inst_sx[:-3] + " 1)") == "(inst)" and drv.ask("G " + cd.sigma_sx) == "(sigma)":
                            bits = drv.ask("EV %s %s %s" % (pre, tr, post)).strip("()").split()
                            v["facts"]["fails_with_readiness_neutralised"] = (bits[trace.EVENTS.index("dispatch")] != "1")
                    finally:
                        drv.cur = None
            out["violations"].append(v)
    # event kinds seen (coverage)
    for r in tracer.records:
        for (_, tr, _) in (r.micro or []):
            out["kinds"][tr.split(")")[1].strip(" (") if False else re.sub(r"\d+\)", ")", tr, count=1)[:40]] += 1
        out["micro"] += len(r.micro or [])
    out["distinct"] = len({(id(r.codec), r.pre, r.trs, r.tm) for r in tracer.records})
    # 3. outcome classes
    for e in eps:
        if e.end in ("terminated", "truncated") or e.end.startswith("compile:") or e.end.startswith("unsupported"):
            continue
        k = e.last - 1 if e.last > e.first else None
        v = {"kind": "outcome:" + e.end, "detail": "episode ended with %s" % e.end,
             "replay": replay_of(k) if k is not None else {"dsl": e.d, "cfg": e.cfgkw, "actions": e.actions}}
        v["facts"] = outcome_facts(e, tracer.records[k] if k is not None else None, tracer, k)
        out["violations"].append(v)
    for r in tracer.records[:2]:
        out["samples"].append({"pre": r.pre[:600], "transitions": r.trs, "time_machine": r.tm, "impl_outcome": r.out[:600]})
    if extra.get("post"):
        import props_hooks
        props_hooks.POST[extra["post"]](out, tracer, eps, drv, replay_of)
    out["ends"] = dict(out["ends"])
    out["features"] = dict(out["features"])
    out["kinds"] = dict(out["kinds"])
    drv.close()
    return out


def _store_of(state, bid):
    """store (list of job numbers as strings) of buffer bid=('post', 2) in a parsed state."""
    kind, n = bid
    n = int(n)
    if kind == "std":
        return state[4][n][0]
    if kind in ("pre", "in", "post"):
        return state[2][n][{"pre": 2, "in": 3, "post": 4}[kind]][0]
    return state[3][n][2][0]


def event_facts(name, rec, n, pre, tr, post):
    """Facts about the pre-state of a violated event clause, used to match known findings."""
    f = {}
    try:
        if name == "transit_release":
            x = sxdiff.parse(pre)
            t = sxdiff.parse(tr)
            j = t[2]
            loc = x[1][int(j)][1]
            store = _store_of(x, loc)
            i = sxdiff.parse(rec.codec.inst_sx)
            if loc[0] == "post":
                ty = i[1][int(loc[1])][2][0]
            elif loc[0] == "std":
                ty = i[3][int(loc[1])][0]
            else:
                ty = "?"
            f.update(buffer_kind=loc[0], buffer_type={"0": "fifo", "1": "lifo", "2": "flex", "3": "dummy"}.get(ty, ty),
                     store=store, job=j)
            # was the job on top appended by an earlier micro-event of this same step at the same clock?
            stale = False
            for m in range(n - 1, -1, -1):
                p0 = sxdiff.parse(rec.micro[m][0]) if rec.micro[m][0] else None
                if p0 is None or p0[0] != x[0]:
                    break
                s0 = _store_of(p0, loc)
                if s0 and s0[-1] == j and store and store[-1] != j:
                    stale = True
                    break
            f["stale_after_same_instant_append"] = stale
        if name == "dispatch":
            x = sxdiff.parse(pre)
            x0 = sxdiff.parse(rec.pre)
            t = sxdiff.parse(tr)
            j = t[2]
            i = sxdiff.parse(rec.codec.inst_sx)

            def ready(st_):
                loc = st_[1][int(j)][1]
                if loc[0] == "post":
                    ty = i[1][int(loc[1])][2][0]
                elif loc[0] == "std":
                    ty = i[3][int(loc[1])][0]
                else:
                    return loc, "?", False
                store = _store_of(st_, loc)
                ty = {"0": "fifo", "1": "lifo", "2": "flex", "3": "dummy"}.get(ty, ty)
                ok = bool(store) and (store[-1] == j if ty == "lifo" else (j in store if ty == "flex" else store[0] == j))
                return loc, ty, ok
            loc, ty, now_ok = ready(x)
            _, _, in_ok = ready(x0)
            f.update(early=bool(rec.codec.early), buffer_kind=loc[0], buffer_type=ty, ready_when_applied=now_ok,
                     ready_at_step_input=in_ok, chosen_by_agent=(tr in (rec.trs or "")), job=j)
    except Exception as e:  # facts are best effort; absence means "does not match a finding"
        f["error"] = repr(e)
    return f


def outcome_facts(ep, rec, tracer, k):
    f = {"end": ep.end}
    try:
        if rec is None:
            return f
        i = sxdiff.parse(rec.codec.inst_sx)
        last = sxdiff.parse(rec.micro[-1][2]) if rec.micro else sxdiff.parse(rec.pre)
        f["exc"] = rec.exc
        if ep.end == "raise:BufferFullError" and rec.exc:
            m = re.search(r"Buffer (\S+) is full", " ".join(rec.exc[1]))
            if m:
                b = rec.codec.bid.get(m.group(1))
                if b:
                    store = _store_of(last, b)
                    if b[0] in ("pre", "in", "post"):
                        cap = i[1][b[1]][{"pre": 0, "in": 1, "post": 2}[b[0]]][1]
                    elif b[0] == "std":
                        cap = i[3][b[1]][1]
                    else:
                        cap = i[2][b[1]][0][1]
                    f.update(buffer=list(b), store_len=len(store), capacity=int(cap),
                             exactly_full=(len(store) == int(cap)), buffer_kind=b[0])
        if ep.end == "raise:ZeroDivisionError":
            def dur(tc):   # deterministic value, or the stochastic object's value when the instance was compiled
                return int(tc[1]) if tc[0] == "d" else int(rec.codec.sigma[int(tc[1])][0])
            jobs = [[(int(o[0]), dur(o[1])) for o in j] for j in i[0]]
            tmax = sum(d for j in jobs for _, d in j)
            nm = len(i[1])
            lbs = [sum(d for _, d in j) for j in jobs]
            for m in range(nm):
                bs, as_, tot = [], [], 0
                for j in jobs:
                    idx = next((k for k, (mm, _) in enumerate(j) if mm == m), None)
                    if idx is None:
                        idx = len(j) - 1
                        bs.append(sum(d for _, d in j))
                    else:
                        bs.append(sum(d for _, d in j[:idx]))
                    as_.append(sum(d for _, d in j[idx + 1:]))
                    tot += sum(d for mm, d in j if mm == m)
                lbs.append(min(bs) + tot + min(as_))
            f["lb_equals_tmax"] = (max(lbs) == tmax)
            f["tmax"], f["lb"] = tmax, max(lbs)
        if ep.end == "budget":
            tail = [m[1] for m in rec.micro[-20:]]
            f["tail_transitions"] = sorted(set(tail))
            same = len({m[2] for m in rec.micro[-10:]}) == 1 if len(rec.micro) >= 10 else False
            f["state_repeats"] = same
            waits = [sxdiff.parse(t) for t in set(tail)]
            f["all_waiting_self_loops"] = bool(waits) and all(w[1] == ["t", "5"] for w in waits)
            kinds = set()
            for w in waits:
                j = w[2]
                if j != "-":
                    loc = last[1][int(j)][1]
                    kinds.add(loc[0])
                    if loc[0] == "std":
                        ty = i[3][int(loc[1])][0]
                        f["std_buffer_type"] = {"0": "fifo", "1": "lifo", "2": "flex", "3": "dummy"}.get(ty)
                        st = _store_of(last, loc)
                        f["std_buffer_ordered"] = ty in ("0", "1", "3")
                        f["job_at_release_position"] = bool(st) and (st[-1] == j if ty == "1" else (st[0] == j if ty in ("0", "3") else True))
            f["waiting_job_buffer_kinds"] = sorted(kinds)
        if ep.end in ("raise:InvalidValue", "raise:UnsuccessfulStateMachineResult", "maxsteps"):
            # deadlock shape: no offers, not all jobs delivered
            fin = sxdiff.parse(rec.final) if rec.final else last
            f["transport_states"] = [t[0] for t in fin[3]]
            f["waiting_on_dependency"] = any(isinstance(t[1], list) and t[1] and t[1][0] == "dep" for t in fin[3])
            f["idle_agvs"] = sum(1 for t in fin[3] if t[0] == "0")
            f["post_types"] = sorted({{"0": "fifo", "1": "lifo", "2": "flex", "3": "dummy"}[m[2][0]] for m in i[1]})
            f["ordered_post_buffers"] = any(m[2][0] != "2" for m in i[1])
            f["lifo_post_buffers"] = any(m[2][0] == "1" for m in i[1])
            f["all_delivered"] = all(j[1][0] == "std" and i[3][int(j[1][1])][2] == "1" for j in fin[1])
            f["early"] = i[5] == "1"
            f["nagv"], f["njobs"] = len(i[2]), len(i[0])
            f["min_capacity"] = min([int(m[0][1]) for m in i[1]] + [int(m[2][1]) for m in i[1]] + [int(b[1]) for b in i[3]])
    except Exception as e:
        f["error"] = repr(e)
    return f


def sm_check(ctx, n_quick=160, n_thorough=6000, custom_p=0.15, extra=None, workers_quick=4):
    prop = ctx.prop
    extra = dict(extra or {})
    if not ctx.quick():
        extra.setdefault("big_p", 0.15)
    want_events = bool(EVENT_CLAUSES.get(prop)) or extra.get("want_events", False)
    ncpu = os.cpu_count() or 4
    if ctx.quick():
        w, n = workers_quick, n_quick
    else:
        w, n = min(16, ncpu), n_thorough
    per = max(1, n // w)
    rng = random.Random(ctx.seed ^ hash(prop) % 100003)
    seeds = [rng.randrange(1 << 30) for _ in range(w)]
    # corpus seeds first (cases that once disagreed or violated)
    corpus = ctx.verif / "corpus" / (prop + ".json")
    profiles = tuple(extra.pop("profiles", None) or PROFILES.get(prop, ("mixed",)))
    if os.environ.get("VERIF_PROFILES"):     # directed runs by hand: one generator profile only
        profiles = tuple(os.environ["VERIF_PROFILES"].split(","))
    if extra.get("all_workers"):
        w = min(16, ncpu)
        per = max(1, n // w)
        seeds = [rng.randrange(1 << 30) for _ in range(w)]
    args = [(prop, s, per, profiles, want_events, custom_p, extra) for s in seeds]
    if corpus.exists():
        for c in json.loads(corpus.read_text()):
            args.insert(0, (prop, c["seed"], c["n"], tuple(c["profiles"]), want_events, c.get("custom_p", custom_p), extra))
    with multiprocessing.get_context("fork").Pool(min(len(args), ncpu)) as pool:
        outs = pool.map(_worker, args, chunksize=1)
    tot = collections.Counter()
    ends, feats, kinds = collections.Counter(), collections.Counter(), collections.Counter()
    cone = CONES.get(prop, set())
    for o in outs:
        for key in ("episodes", "records", "events", "states", "micro", "distinct"):
            tot[key] += o[key]
        tot["mw_records"] += o.get("mw_records", 0)
        tot["env_records"] += o.get("env_records", 0)
        tot["flex_episodes"] += o.get("flex_episodes", 0)
        tot["step_inputs_snapshotted"] += o.get("step_inputs_snapshotted", 0)
        tot["steps_checked_for_reported_failure"] += o.get("steps_checked_for_reported_failure", 0)
        tot["fresh_initial_states"] += o.get("fresh_initial_states", 0)
        ends.update(o["ends"])
        feats.update(o["features"])
        kinds.update(o["kinds"])
        for d in o["disagreements"]:
            tot["disagreements"] += 1
            if set(d["groups"]) & cone:
                ctx.broken_correspondence.append("model and implementation differ in %s at %s (replay in evidence)" % (
                    ",".join(d["groups"]), d["where"]))
                ctx.coverage.setdefault("disagreement_samples", []).append(d["replay"])
        for v in o["violations"]:
            ctx.violations.append(v)
        ctx.samples.extend(o["samples"][:1])
    ctx.hook_outputs = [o.get("hook") for o in outs]
    ctx.coverage.update({
        "evaluations": tot["records"],
        "distinct_nontrivial": tot["distinct"],
        "rule": "one evaluation = one state.step call of the implementation (reset and env.step, generated instance x "
                "accept/decline policy), replayed on the extracted Coq model from the implementation's own pre-state and "
                "compared on outcome class, post-state, offers in order and the complete micro-transition log; distinct = "
                "distinct (instance, pre-state, action) triples; every one applies >= 0 micro-transitions, see micro_events",
        "traces_validated_against_impl": tot["records"],
        "episodes": tot["episodes"], "micro_events": tot["micro"],
        "states_monitored": tot["states"], "events_monitored": tot["events"],
        "state_clauses": STATE_CLAUSES.get(prop, []), "event_clauses": EVENT_CLAUSES.get(prop, []),
        "disagreements_total": tot["disagreements"],
        "middleware_steps_replayed": tot["mw_records"], "env_steps_replayed": tot["env_records"],
        "episode_end_histogram": dict(ends), "input_distribution": dict(feats),
        "transition_kinds_seen": dict(kinds),
    })
    if prop == "C05":
        ctx.coverage["steps_checked_for_success_false"] = tot["steps_checked_for_reported_failure"]
    if prop == "C20":
        ctx.coverage["step_inputs_compared_with_their_deep_copy"] = tot["step_inputs_snapshotted"]
    if prop in ("C01", "C04", "C03", "C02", "C07", "C05", "C11", "C09", "C08", "C10", "C12"):
        ctx.coverage["initial_states_checked_against_theorem_hypotheses"] = tot["fresh_initial_states"]
        ctx.coverage["episodes_on_instances_with_unordered_post_buffers"] = tot["flex_episodes"]
    ctx.search_note = ("monitors (extracted theorem predicates) evaluated on %d implementation states and %d micro-events of "
                       "%d episodes; no concrete failing input" % (tot["states"], tot["events"], tot["episodes"]))
    return outs


def keep_only(ctx, pred):
    ctx.violations = [v for v in ctx.violations if pred(v)]


def c_generic(ctx):
    sm_check(ctx)
    # outcome-class violations belong to C05 / C11 only
    keep_only(ctx, lambda v: not v["kind"].startswith("outcome:"))


def c07(ctx):
    c_generic(ctx)
    # "with early transport disabled an AGV is only dispatched to a ready job" is C11's sentence: a dispatch clause that fails
    # ONLY in its readiness conjunct is C11's to report (known finding F-C11-teleport-dispatch-buried), everything else stays
    keep_only(ctx, lambda v: not (v["kind"] == "event:dispatch"
                                  and (v.get("facts") or {}).get("fails_with_readiness_neutralised") is False))


def witness_hang(ctx):
    """The witness of the theorem C05_refuted_* (coq/SM/ExampleHang.v) replayed on the implementation: the same
    document, the same two actions; the implementation must still exceed the step budget there and its
    pre-state/action must still be the ones the theorem speaks about."""
    import yaml
    import batch
    import jsl
    import mk_example_hang as M
    import tocoq
    import trace
    d = yaml.safe_load(M.DSL)
    cfg = jsl.with_cfg(jsl.load_config(), early=True, trunc_active=False)
    tracer = trace.Tracer()
    tracer.want_pre = True
    it = iter([0, 1])
    env, end, actions, et = batch.run_episode(tracer, d, cfg, lambda e: next(it, 1), max_steps=2)
    ok = (end == "budget")
    same = False
    if tracer.records:
        r = tracer.records[-1]
        txt = (ctx.verif / "coq" / "SM" / "ExampleHang.v").read_text()
        same = ("Definition hang_pre : state := %s." % tocoq.state(r.pre)) in txt and \
               ("Definition hang_inst : inst := %s." % tocoq.inst(r.codec.inst_sx)) in txt and \
               ("Definition hang_trs : list transition := %s." % tocoq.transitions(r.trs)) in txt
    ctx.coverage["refutation_witness"] = {"theorem": "C05_refuted_step / C05_refuted_reachable", "implementation_end": end,
                                          "same_pre_state_and_action_as_theorem": same}
    if not ok or not same:
        ctx.broken_correspondence.append(
            "the witness of C05_refuted (SM/ExampleHang.v) no longer matches the implementation: end=%s, same input=%s"
            % (end, same))


def witness_deadlock(ctx):
    """The witness of the theorem C11_refuted (coq/SM/ExampleDeadlock.v) replayed on the implementation."""
    import batch
    import jsl
    import tocoq
    import trace
    w = json.loads((ctx.verif / "harness" / "example_deadlock.json").read_text())
    cfg = jsl.with_cfg(jsl.load_config(), early=False, trunc_active=False)
    tracer = trace.Tracer()
    tracer.want_pre = True
    it = iter(w["actions"])
    env, end, actions, et = batch.run_episode(tracer, w["dsl"], cfg, lambda e: next(it, 1), max_steps=len(w["actions"]))
    same = False
    if tracer.records:
        r0 = tracer.records[0]
        txt = (ctx.verif / "coq" / "SM" / "ExampleDeadlock.v").read_text()
        same = ("Definition dl_inst : inst := %s." % tocoq.inst(r0.codec.inst_sx)) in txt and \
               ("Definition dl_init : state := %s." % tocoq.state(r0.pre)) in txt
    ctx.coverage["refutation_witness_deadlock"] = {"theorem": "C11_refuted", "implementation_end": end,
                                                   "same_instance_and_initial_state_as_theorem": same}
    if end != w["end"] or not same:
        ctx.broken_correspondence.append(
            "the witness of C11_refuted (SM/ExampleDeadlock.v) no longer matches the implementation: end=%s, same input=%s"
            % (end, same))


def witness_unready(ctx):
    """The witness of the theorem C11_dispatch_only_to_ready_jobs_refuted (coq/SM/ExampleUnready.v) replayed on the
    implementation: the dispatch event clause fails on the recorded transition (known finding F-C11-teleport-dispatch-buried)."""
    import batch
    import jsl
    import tocoq
    import trace
    w = json.loads((ctx.verif / "harness" / "example_unready.json").read_text())
    cfg = jsl.with_cfg(jsl.load_config(), early=False, trunc_active=False)
    tracer = trace.Tracer()
    tracer.want_pre = True
    it = iter(w["actions"])
    env, end, actions, et = batch.run_episode(tracer, w["dsl"], cfg, lambda e: next(it, 1), max_steps=len(w["actions"]))
    same = False
    nbad = 0
    if tracer.records:
        r0 = tracer.records[0]
        txt = (ctx.verif / "coq" / "SM" / "ExampleUnready.v").read_text()
        same = ("Definition ur_inst : inst := %s." % tocoq.inst(r0.codec.inst_sx)) in txt and \
               ("Definition ur_init : state := %s." % tocoq.state(r0.pre)) in txt
        drv = jsl.Driver()
        try:
            for k, n_, name, pre, tr, post in trace.monitor_events(tracer.records, drv, which={"dispatch"}):
                nbad += 1
                v = {"kind": "event:" + name, "detail": "event clause %s false for transition %s (witness of "
                     "C11_dispatch_only_to_ready_jobs_refuted)" % (name, tr),
                     "replay": {"dsl": w["dsl"], "cfg": {"early": False, "trunc_active": False}, "actions": w["actions"],
                                "record": k, "micro_index": n_, "pre_micro": pre, "transition": tr, "post_micro": post}}
                v["facts"] = event_facts(name, tracer.records[k], n_, pre, tr, post)
                ctx.violations.append(v)
        finally:
            drv.close()
    ctx.coverage["refutation_witness_unready_dispatch"] = {"theorem": "C11_dispatch_only_to_ready_jobs_refuted", "implementation_end": end,
                                                          "dispatch_clause_failures_on_implementation": nbad,
                                                          "same_instance_and_initial_state_as_theorem": same}
    if not same:
        ctx.broken_correspondence.append(
            "the witness of C11_dispatch_only_to_ready_jobs_refuted (SM/ExampleUnready.v) no longer matches what the compiler "
            "produces for harness/example_unready.json")


def witness_findings(ctx):
    """Replays the stored witness episode of every listed outcome finding of this property (harness/finding_witnesses.json, written by
    mk_finding_witnesses.py, never at check time) through the same classification as the sampled episodes: each finding that still
    reproduces yields its violation (matched against KNOWN_FINDINGS.json like any other), whatever the seed of the run."""
    import types
    import batch
    import jsl
    import trace
    path = ctx.verif / "harness" / "finding_witnesses.json"
    if not path.exists():
        return
    done = {}
    for w in json.loads(path.read_text()):
        if w.get("property") != ctx.prop:
            continue
        cfg = jsl.with_cfg(jsl.load_config(), **(w.get("cfg") or {}))
        tracer = trace.Tracer()
        tracer.want_pre = True
        it = iter(w["actions"])
        try:
            env, end, actions, et = batch.run_episode(tracer, w["dsl"], cfg, lambda e: next(it, 1), max_steps=max(1, len(w["actions"])))
        except jsl.Unsupported:
            end = "unsupported"
        done[w["id"]] = end
        if end in ("terminated", "truncated", "maxsteps", "unsupported") or end.startswith("compile:"):
            continue
        k = len(tracer.records) - 1 if tracer.records else None
        ep = types.SimpleNamespace(end=end)
        v = {"kind": "outcome:" + end, "detail": "episode ended with %s (stored witness of %s)" % (end, w["id"]),
             "replay": {"dsl": w["dsl"], "cfg": w.get("cfg") or {}, "actions": w["actions"]}}
        v["facts"] = outcome_facts(ep, tracer.records[k] if k is not None else None, tracer, k)
        ctx.violations.append(v)
    ctx.coverage["finding_witnesses_replayed"] = done


def c05(ctx):
    sm_check(ctx, n_quick=240, custom_p=0.2)
    # truncation/termination are normal ends; everything else is a totality violation
    witness_findings(ctx)
    keep_only(ctx, lambda v: not (v["kind"] == "outcome:maxsteps"))
    witness_hang(ctx)


def c11(ctx):
    # the always-accept policy dominates; truncation off
    sm_check(ctx, n_quick=240, custom_p=0.15, extra={"ps": (1.0, 0.5, 1.0, 0.9), "trunc_p": 0.0})

    def relevant(v):
        if v["kind"].startswith("event:") or v["kind"].startswith("state:"):
            return True
        if v["kind"] in ("outcome:raise:InvalidValue", "outcome:raise:UnsuccessfulStateMachineResult",
                         "outcome:maxsteps", "outcome:budget"):
            # only instances inside the property's configuration class count
            return class_member(v)
        return False
    witness_findings(ctx)
    keep_only(ctx, relevant)
    witness_hang(ctx)
    witness_deadlock(ctx)
    witness_unready(ctx)
    ctx.assumptions.append("configuration class of C11 decided on the compiled instance: every buffer capacity >= #jobs and "
                           "(early transport disabled or all post-buffers flex or #AGV >= #jobs)")


def class_member(v):
    """Is the failing instance in C11's configuration class?"""
    rp = v.get("replay") or {}
    d = rp.get("dsl")
    cfg = rp.get("cfg") or {}
    if d is None:
        return False
    try:
        import jsl
        c = jsl.with_cfg(jsl.load_config(), **cfg)
        inst, _ = jsl.compile_dict(d, c)
    except Exception:
        return False
    from jobshoplab.types.instance_config_types import BufferTypeConfig as BT
    nj = len(inst.instance.specification)
    caps = [b.capacity for b in inst.buffers] + [bb.capacity for m in inst.machines for bb in (m.prebuffer, m.postbuffer)]
    if min(caps) < nj:
        return False
    early = cfg.get("early", True)
    unordered = all(m.postbuffer.type == BT.FLEX_BUFFER for m in inst.machines)
    return (not early) or unordered or len(inst.transports) >= nj


def c20(ctx):
    sm_check(ctx, n_quick=440, extra={"hook": "c20", "keep_objects": True}, workers_quick=11)
    keep_only(ctx, lambda v: not v["kind"].startswith("outcome:"))
    for h in ctx.hook_outputs:
        for v in (h or {}).get("violations", []):
            ctx.violations.append(v)
        for k, n in (h or {}).get("counts", {}).items():
            ctx.coverage["c20_" + k] = ctx.coverage.get("c20_" + k, 0) + n
    ctx.assumptions.append("object non-mutation and repeatability are decided by deep snapshots / double execution "
                           "in the harness (testing), not by a theorem: Gallina values are immutable")


def _merge_hook(ctx, prefix):
    for h in ctx.hook_outputs:
        for v in (h or {}).get("violations", []):
            ctx.violations.append(v)
        for k, n in (h or {}).get("counts", {}).items():
            ctx.coverage[prefix + k] = ctx.coverage.get(prefix + k, 0) + n


def witness_shift(ctx):
    """The witness of the theorem C12_shift_refuted (coq/SM/ExampleShift.v) replayed on the implementation."""
    import mk_example_shift as M
    import jsl
    import tocoq
    w = json.loads((ctx.verif / "harness" / "example_shift.json").read_text())
    cfg = jsl.with_cfg(jsl.load_config(), early=True, trunc_active=False)
    t0, e0, env0 = M.run(w["dsl"], cfg, 0, w["actions"])
    t1, e1, env1 = M.run(w["dsl"], cfg, w["K"], w["actions"])
    c0 = env0.state.state.time.time if env0 is not None else None
    c1 = env1.state.state.time.time if env1 is not None else None
    txt = (ctx.verif / "coq" / "SM" / "ExampleShift.v").read_text()
    same = bool(t0.records and t1.records) and \
        ("Definition sh_inst : inst := %s." % tocoq.inst(t0.records[0].codec.inst_sx)) in txt and \
        ("Definition sh_init0 : state := %s." % tocoq.state(t0.records[0].pre)) in txt and \
        ("Definition sh_initK : state := %s." % tocoq.state(t1.records[0].pre)) in txt
    ctx.coverage["refutation_witness_shift"] = {"theorem": "C12_shift_refuted", "clocks": [c0, c1],
                                                "theorem_clocks": [w["clock0"], w["clockK"]],
                                                "same_instance_and_initial_states_as_theorem": same}
    if [c0, c1] != [w["clock0"], w["clockK"]] or not same:
        ctx.broken_correspondence.append("the witness of C12_shift_refuted (SM/ExampleShift.v) no longer matches the "
                                         "implementation: clocks %s vs %s, same input=%s" % ([c0, c1], [w["clock0"], w["clockK"]], same))


def c12(ctx):
    outs = sm_check(ctx, extra={"post": "c12_shift", "record_mw": True})
    keep_only(ctx, lambda v: not v["kind"].startswith("outcome:"))
    ctx.coverage["shift_pairs"] = sum(o.get("shift_pairs", 0) for o in outs)
    ctx.coverage["shift_pairs_with_outages"] = sum(o.get("shift_pairs_with_outages", 0) for o in outs)
    witness_shift(ctx)


def c04(ctx):
    sm_check(ctx, n_quick=200, custom_p=0.4, extra={"hook": "c04", "record_env": True, "reuse_p": 0.2})
    keep_only(ctx, lambda v: not v["kind"].startswith("outcome:"))
    _merge_hook(ctx, "c04_")
    # episodes OUTSIDE the hypotheses of the theorems: jobs that start in the output buffer with all their operations
    # pending. Only the flags are judged there (independent reading in the hook + the env/middleware correspondence).
    saved = (dict(ctx.coverage), list(ctx.broken_correspondence), list(ctx.samples), list(ctx.violations), ctx.hook_outputs)
    sm_check(ctx, n_quick=80, n_thorough=800, extra={"hook": "c04", "record_env": True, "profiles": ("outstart",),
                                                     "ps": (0.3, 0.6, 0.9, 1.0), "trunc_p": 0.5})
    keep_only(ctx, lambda v: not v["kind"].startswith("outcome:") and not v["kind"].startswith("state:"))
    _merge_hook(ctx, "c04out_")
    extra_v, extra_b, ecov = list(ctx.violations), list(ctx.broken_correspondence), dict(ctx.coverage)
    ctx.coverage, ctx.samples = saved[0], saved[2]
    ctx.coverage["episodes_with_unfinished_jobs_starting_in_an_output_buffer"] = ecov.get("episodes")
    ctx.coverage["steps_judged_in_those_episodes"] = ecov.get("c04out_steps")
    ctx.violations = saved[3] + extra_v
    ctx.broken_correspondence = saved[1] + extra_b
    if ctx.broken_correspondence and not ctx.violations:
        # the correspondence is broken and no clause of the property failed on the sampled episodes: directed
        # search for a failing input (truncation always active, small allowances, mostly declining policies)
        cov, broken, samples = dict(ctx.coverage), list(ctx.broken_correspondence), list(ctx.samples)
        sm_check(ctx, n_quick=4000, extra={"hook": "c04", "record_env": True, "trunc_p": 1.0,
                                           "ps": (0.0, 0.1, 0.3, 0.5, 0.2), "profiles": ("zerotravel", "transport", "classic", "zerotravel"),
                                           "all_workers": True, "phased_p": 0.7, "early_p": 0.4})
        keep_only(ctx, lambda v: not v["kind"].startswith("outcome:") and not v["kind"].startswith("state:"))
        _merge_hook(ctx, "c04_")
        cov["directed_search_after_broken_correspondence"] = {"episodes": ctx.coverage.get("episodes"),
                                                              "violations_found": len(ctx.violations)}
        ctx.coverage, ctx.samples = cov, samples
        ctx.broken_correspondence = broken


def c18(ctx):
    sm_check(ctx, n_quick=240, extra={"hook": "c18", "record_mw": True, "record_env": True,
                                      "ps": (0.1, 0.5, 0.3, 0.8), "trunc_p": 0.6, "reuse_p": 0.35})
    keep_only(ctx, lambda v: not v["kind"].startswith("outcome:") and not v["kind"].startswith("state:"))
    _merge_hook(ctx, "c18_")


def c08(ctx):
    sm_check(ctx, n_quick=300, workers_quick=10)
    keep_only(ctx, lambda v: not v["kind"].startswith("outcome:"))


def c09(ctx):
    c_generic(ctx)
    import props_other
    props_other.c09_compile_stage(ctx)


TABLE = {
    "C01": c_generic, "C02": c_generic, "C03": c_generic, "C05": c05, "C07": c07, "C08": c08,
    "C09": c09, "C10": c_generic, "C11": c11, "C12": c12, "C20": c20, "C04": c04, "C18": c18,
}
