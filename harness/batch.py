"""Run batches of generated episodes on the implementation with recording."""
import random
import time

import gen
import jsl
import trace


class Episode:
    def __init__(self, idx, d, feats, cfgkw, actions):
        self.idx, self.d, self.feats, self.cfgkw, self.actions = idx, d, feats, cfgkw, actions
        self.first = None     # index of first record in tracer.records
        self.last = None
        self.end = None       # 'terminated' | 'truncated' | 'raise:<cls>' | 'budget' | 'maxsteps' | 'compile:<cls>'
        self.env_trace = []   # per env.step: (action, reward, terminated, truncated, info)


def env_sx(tracer, env):
    codec = tracer.codec_for(env.instance, env.config)
    return jsl.sx(trace.result_sx(codec, env.state), trace.mw_sx(env.state_simulator),
                  "1" if env.terminated else "0", "1" if env.truncated else "0", str(len(env.history)))


def run_episode(tracer, d, cfg, policy, max_steps=400, env_hook=None, seed=None, reuse_env=None):
    """Returns (env or None, end, actions, env_trace). reuse_env: another episode on that environment object (reset)
    instead of a new environment."""
    actions = []
    et = []
    try:
        if reuse_env is not None:
            env = reuse_env
            env.reset()
        else:
            env = trace.make_env(d, cfg, tracer, seed=seed)
    except jsl.StepBudgetExceeded:
        return None, "budget", actions, et
    except trace.ImplRaised as e:
        return None, "raise:" + e.cls, actions, et
    except jsl.Unsupported:
        raise
    except Exception as e:  # compile errors etc.
        return None, "compile:" + type(e).__name__, actions, et
    if env_hook:
        env_hook(env, None)
    end = "maxsteps"
    for _ in range(max_steps):
        a = policy(env)
        actions.append(a)
        pre_env = env_sx(tracer, env) if (tracer is not None and tracer.record_env) else None
        n0 = len(tracer.records) if tracer is not None else 0
        try:
            obs, rew, term, trunc, info = env.step(a)
            if pre_env is not None:
                lg = jsl.sxl(jsl.sx(m[1], m[2]) for rec in tracer.records[n0:] for m in (rec.micro or []))
                mk = info.get("makespan")
                tracer.env_records.append((tracer.codec_for(env.instance, env.config), pre_env, a,
                                           jsl.sx("ok", env_sx(tracer, env), lg, "-" if mk is None else str(mk))))
        except jsl.StepBudgetExceeded:
            end = "budget"
            break
        except trace.ImplRaised as e:
            end = "raise:" + e.cls
            if pre_env is not None:
                tracer.env_records.append((tracer.codec_for(env.instance, env.config), pre_env, a, "(raise %s)" % e.cls))
            break
        except jsl.Unsupported:
            raise
        except Exception as e:
            end = "raise:" + type(e).__name__
            if pre_env is not None and type(e).__name__ != "ZeroDivisionError":
                tracer.env_records.append((tracer.codec_for(env.instance, env.config), pre_env, a,
                                           "(raise %s)" % type(e).__name__))
            if type(e).__name__ == "ActionOutOfActionSpace":
                et.append((a, None, None, None, {"raised": "ActionOutOfActionSpace"}))
                continue
            break
        et.append((a, rew, term, trunc, info))
        if env_hook:
            env_hook(env, (a, obs, rew, term, trunc, info))
        if term or trunc:
            end = "terminated" if term else "truncated"
            break
    return env, end, actions, et


def rerun_episode(env, policy, max_steps=400, env_hook=None, seed=None):
    """Another episode on the SAME environment object: reset, then drive it. Returns (end, actions, env_trace)."""
    actions, et = [], []
    try:
        env.reset(seed=seed) if seed is not None else env.reset()
    except jsl.StepBudgetExceeded:
        return "budget", actions, et
    except trace.ImplRaised as e:
        return "raise:" + e.cls, actions, et
    except Exception as e:  # noqa
        return "raise:" + type(e).__name__, actions, et
    if env_hook:
        env_hook(env, None)
    end = "maxsteps"
    for _ in range(max_steps):
        a = policy(env)
        actions.append(a)
        try:
            obs, rew, term, trunc, info = env.step(a)
        except jsl.StepBudgetExceeded:
            end = "budget"
            break
        except trace.ImplRaised as e:
            end = "raise:" + e.cls
            break
        except Exception as e:  # noqa
            end = "raise:" + type(e).__name__
            break
        et.append((a, rew, term, trunc, info))
        if env_hook:
            env_hook(env, (a, obs, rew, term, trunc, info))
        if term or trunc:
            end = "terminated" if term else "truncated"
            break
    return end, actions, et


def run_batch(seed, n, profiles=("mixed",), ps=(0.1, 0.5, 0.9, 1.0), tracer=None, custom_buffers_p=0.0,
              trunc_p=0.3, env_hook=None, max_steps=400, gen_kw=None, phased_p=0.0, early_p=0.6, big_p=0.0, reuse_p=0.0):
    rng = random.Random(seed)
    tracer = tracer or trace.Tracer()
    tracer.want_pre = True
    base = jsl.load_config()
    eps = []
    prev = None       # (env, d, feats, cfgkw, cfg) of the last episode that ended regularly
    for k in range(n):
        if reuse_p and prev is not None and rng.random() < reuse_p:
            # another episode on the SAME environment object (reset): counters, caches and simulators must start afresh
            env0, d, feats0, cfgkw, cfg = prev
            feats = dict(feats0, reused_env=True)
            p = ps[k % len(ps)]
            feats["p"] = p
            ep = Episode(k, d, feats, cfgkw, None)
            ep.first = len(tracer.records)
            pol = gen.PhasedPolicy(rng) if (phased_p and rng.random() < phased_p) else gen.Policy(rng, p)
            env, end, actions, et = run_episode(tracer, d, cfg, pol, max_steps=max_steps, env_hook=env_hook, reuse_env=env0)
            ep.last = len(tracer.records)
            ep.end, ep.actions, ep.env_trace = end, actions, et
            eps.append(ep)
            prev = (env, d, feats0, cfgkw, cfg) if (env is not None and end in ("terminated", "truncated")) else None
            continue
        prof = profiles[k % len(profiles)]
        kw = dict(gen_kw or {})
        if big_p and prof not in ("race", "zerotravel") and rng.random() < big_p:
            kw.update(nj=rng.randint(5, 7), nm=rng.randint(3, 5))
        d, feats = gen.gen_instance(rng, prof, **kw)
        if custom_buffers_p and "logistics" in d["instance_config"] and "buffer" not in d["instance_config"] \
                and rng.random() < custom_buffers_p:
            gen.gen_custom_buffers(rng, d, feats["nj"])
            feats["custom_buffers"] = True
        early = (rng.random() < early_p or bool(feats.get("force_early"))) and not feats.get("force_no_early")
        cfgkw = {"early": early}
        if rng.random() < trunc_p:
            cfgkw.update(joker=rng.randint(0, 3), trunc_active=True)
        else:
            cfgkw.update(trunc_active=False)
        cfg = jsl.with_cfg(base, **cfgkw)
        p = ps[k % len(ps)]
        feats["p"] = p
        feats.update(cfgkw)
        ep = Episode(k, d, feats, cfgkw, None)
        ep.first = len(tracer.records)
        try:
            pol = gen.PhasedPolicy(rng) if (phased_p and rng.random() < phased_p) else gen.Policy(rng, p)
            env, end, actions, et = run_episode(tracer, d, cfg, pol, max_steps=max_steps,
                                                env_hook=env_hook)
        except jsl.Unsupported as e:
            end, actions, et = "unsupported:" + str(e)[:40], [], []
        ep.last = len(tracer.records)
        ep.end, ep.actions, ep.env_trace = end, actions, et
        eps.append(ep)
        prev = (env, d, feats, cfgkw, cfg) if (not end.startswith("unsupported") and env is not None
                                               and end in ("terminated", "truncated")) else None
    return tracer, eps


if __name__ == "__main__":
    import collections
    import sys
    seed = int(sys.argv[1]) if len(sys.argv) > 1 else 1
    n = int(sys.argv[2]) if len(sys.argv) > 2 else 100
    profs = tuple(sys.argv[3].split(",")) if len(sys.argv) > 3 else ("mixed",)
    t0 = time.time()
    tracer, eps = run_batch(seed, n, profs, custom_buffers_p=0.2)
    t1 = time.time()
    print("episodes", len(eps), "records", len(tracer.records), "impl_s %.1f" % (t1 - t0))
    print(collections.Counter(e.end for e in eps).most_common())
    drv = jsl.Driver()
    bad = trace.replay(tracer.records, drv)
    print("replay_s %.1f" % (time.time() - t1), "disagreements", len(bad))
    seen = set()
    for k, r, m in bad:
        key = (r.out[:12], m[:24])
        if key in seen:
            continue
        seen.add(key)
        ep = next(e for e in eps if e.first <= k < e.last)
        print("---- record", k, "episode", ep.idx, ep.feats)
        print("PRE  ", r.pre)
        print("TRS  ", r.trs, r.tm)
        print("IMPL ", r.out[:1500])
        print("MODEL", m[:1500])
        if len(seen) > 5:
            break
    import collections as C
    viol = trace.monitor_states(tracer.records, drv)
    print("monitor violations", len(viol), C.Counter(v[2] for v in viol).most_common())
    seenc = set()
    for k, pos, name, s in viol:
        if name in seenc:
            continue
        seenc.add(name)
        ep = next(e for e in eps if e.first <= k < e.last)
        print("---- clause", name, "record", k, pos, "episode", ep.idx, ep.feats)
        print(s)
    ev = trace.monitor_events(tracer.records, drv)
    print("event violations", len(ev), C.Counter(v[2] for v in ev).most_common())
    seenc = set()
    for k, n, name, pre, tr, post in ev:
        if name in seenc:
            continue
        seenc.add(name)
        ep = next(e for e in eps if e.first <= k < e.last)
        print("---- event clause", name, "record", k, n, "episode", ep.idx, ep.feats)
        print("PRE ", pre); print("TR  ", tr); print("POST", post)
