"""Independent tokenizer: post-YAML DSL dictionary -> tokenised document (coq/Dsl/Doc.v ddoc) as an
s-expression. It only splits text into numbers and names; every mapping decision (numbering, defaults,
matrix direction, aliases) is the model's. Raises Unsupported for constructs outside the model."""
import re

from jsl import Unsupported

IN_ALIASES = ["input", "input-buffer", "inputbuffer", "input buffer", "input_buffer", "in-buf", "inbuf", "in buf", "in_buffer"]
OUT_ALIASES = ["output", "output-buffer", "outputbuffer", "output buffer", "output_buffer", "out-buf"]
BT = {"FIFO": 0, "LIFO": 1, "FLEX": 2, "FLEX_BUFFER": 2, "DUMMY": 3}
BR = {"INPUT": 0, "OUTPUT": 1, "COMPONENT": 2, "COMPENSATION": 3}


def _int(x):
    if isinstance(x, bool) or not isinstance(x, int):
        raise Unsupported("non-integer time %r" % (x,))
    return x


def pname(s):
    s = s.strip()
    m = re.fullmatch(r"m-(\d+)", s)
    if m:
        return "(m %d)" % int(m.group(1))
    m = re.fullmatch(r"b-(\d+)", s)
    if m:
        return "(b %d)" % int(m.group(1))
    if s.lower() in IN_ALIASES:
        return "in"
    if s.lower() in OUT_ALIASES:
        return "out"
    raise Unsupported("place name %r" % s)


def label(s):
    m = re.fullmatch(r"b-(\d+)", s)
    if not m or str(int(m.group(1))) != m.group(1):
        raise Unsupported("buffer name %r" % s)
    return int(m.group(1))


def tool(s):
    m = re.fullmatch(r"tl-(\d+)", s.strip())
    if not m:
        raise Unsupported("tool name %r" % s)
    return int(m.group(1))


def bspec(dct):
    t = c = r = "-"
    for k, v in dct.items():
        if k == "type":
            if v.upper() not in BT:
                raise Unsupported("buffer type")
            t = str(BT[v.upper()])
        elif k == "capacity":
            c = str(min(_int(v), 1000000000))
        elif k == "role":
            if v.upper() not in BR:
                raise Unsupported("buffer role")
            r = str(BR[v.upper()])
        elif k in ("name", "description"):
            pass
        else:
            raise Unsupported("buffer key %r" % k)
    return "(%s %s %s)" % (t, c, r)


def matrix(text):
    lines = [l.strip() for l in text.strip().split("\n")]
    hdr = lines[0].split("|")
    rows = []
    for l in lines[1:]:
        parts = l.split("|")
        rows.append((parts[0], [int(v) for v in parts[1].split()]))
    return hdr, rows


def tokenize(d):
    ic = d["instance_config"]
    inst = ic["instance"]
    if inst.get("time_behavior") not in (None, "static"):
        # stochastic processing times (honoured since fix 3d58c3e): outside the compiler model, which is deterministic
        raise Unsupported("stochastic processing times")
    jobs = []
    for line in inst["specification"].split("\n"):
        l = line.replace(" ", "")
        if re.match(r"j\d+\|\(\d+,\d+\)+", l):
            body = l.split("|")[1]
            jobs.append("(" + " ".join("(%d %d)" % (int(a), int(b)) for a, b in re.findall(r"\((\d+),(\d+)\)", body)) + ")")
    tools = "-"
    if "tool_usage" in inst:
        rows = []
        for j in range(len(jobs)):
            e = next((x for x in inst["tool_usage"] if x["job"] == "j%d" % j), None)
            if e is None:
                raise Unsupported("tool usage without job entry")
            rows.append("(" + " ".join(str(tool(t)) for t in e["operation_tools"]) + ")")
        tools = "(" + " ".join(rows) + ")"
    setup = "-"
    if "setup_times" in ic:
        ent = []
        for e in ic["setup_times"]:
            if e.get("time_behavior", "static") != "static":
                raise Unsupported("stochastic setup times")
            m = re.fullmatch(r"m-(\d+)", e["machine"])
            hdr, rows = matrix(e["specification"])
            ent.append("(%d (%s) (%s))" % (int(m.group(1)), " ".join(str(tool(h)) for h in hdr),
                                            " ".join("(%d (%s))" % (tool(r), " ".join(map(str, vs))) for r, vs in rows)))
        setup = "(" + " ".join(ent) + ")"
    log = "-"
    if "logistics" in ic:
        lg = ic["logistics"]
        if lg.get("time_behavior", "static") != "static":
            raise Unsupported("stochastic travel times")
        amount = "-"
        if "type" in lg:
            if str(lg["type"]).lower() != "agv":
                raise Unsupported("transport type")
            amount = str(_int(lg["amount"]))
        hdr, rows = matrix(lg["specification"])
        log = "(%s (%s) (%s))" % (amount, " ".join(pname(h) for h in hdr),
                                   " ".join("(%s (%s))" % (pname(r), " ".join(map(str, vs))) for r, vs in rows))
    bufs = "(" + " ".join("(%d %s)" % (label(b["name"]), bspec(b)) for b in ic.get("buffer", [])) + ")"
    machs = "-"
    if "machines" in ic:
        mc = ic["machines"]

        def first(lst):
            e = next((x for x in (lst or []) if x), None)
            return bspec(e) if e else "-"
        if isinstance(mc, dict):
            machs = "(g %s %s)" % (first(mc.get("prebuffer")), first(mc.get("postbuffer")))
        elif isinstance(mc, list):
            ent = []
            seen = set()
            for e in mc:
                if not isinstance(e, dict):
                    continue
                for k, v in e.items():
                    m = re.fullmatch(r"m-(\d+)", k)
                    if not m or k in seen:
                        continue
                    seen.add(k)
                    pre = bspec(v["prebuffer"][0]) if v.get("prebuffer") else "-"
                    post = bspec(v["postbuffer"][0]) if v.get("postbuffer") else "-"
                    ent.append("(%d %s %s)" % (int(m.group(1)), pre, post))
            machs = "(s " + " ".join(ent) + ")"
    outs = []
    for o in ic.get("outages", []):
        c = o["component"]
        if c in ("m", "machine", "Machine", "MACHINE"):
            comp = "am"
        elif c in ("t", "transport", "Transport", "TRANSPORT"):
            comp = "at"
        else:
            m = re.fullmatch(r"m-(\d+)", c)
            if not m:
                continue
            comp = "(m %d)" % int(m.group(1))
        outs.append("(%s %d %d)" % (comp, _int(o["duration"]), _int(o["frequency"])))
    ini = d.get("init_state", {}) or {}
    start = "-"
    tl, jl, stores = [], [], []
    for k, v in ini.items():
        if k == "start_time":
            start = str(_int(v))
        elif k.startswith("t-"):
            if set(v.keys()) - {"location"}:
                raise Unsupported("transport init keys")
            tl.append("(%d %s)" % (int(k[2:]), pname(v["location"])))
        elif k.startswith("j-"):
            if "location" in v:
                jl.append("(%d %d)" % (int(k[2:]), label(v["location"])))
        elif k.startswith("b-"):
            if set(v.keys()) - {"store"}:
                raise Unsupported("buffer init keys")
            if "store" in v:
                stores.append("(%d (%s))" % (label(k), " ".join(str(int(j[2:])) for j in v["store"])))
        else:
            raise Unsupported("init_state key %r" % k)
    init = "(%s (%s) (%s) (%s))" % (start, " ".join(tl), " ".join(jl), " ".join(stores))
    return "((%s) %s %s %s %s %s (%s) %s)" % (" ".join(jobs), tools, setup, log, bufs, machs, " ".join(outs), init)
