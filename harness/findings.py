"""Matching of a violation against the committed KNOWN_FINDINGS.json (never written at run time).
A finding's signature = violation kind + facts about the pre-state that must all coincide."""


def matches(finding, v):
    sig = finding.get("signature", {})
    if sig.get("kind") != v.get("kind"):
        return False
    facts = v.get("facts") or {}
    for k, val in (sig.get("facts") or {}).items():
        if facts.get(k) != val:
            return False
    for k, allowed in (sig.get("subset") or {}).items():
        got = facts.get(k)
        if not isinstance(got, list) or not got or not set(got) <= set(allowed):
            return False
    return True
