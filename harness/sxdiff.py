"""Parse the s-expression strings of the codec and attribute a disagreement between an
implementation outcome and a model outcome to field groups (DESIGN.md 4.1, projections)."""


def parse(s):
    toks = s.replace("(", " ( ").replace(")", " ) ").split()
    pos = 0

    def one():
        nonlocal pos
        t = toks[pos]
        pos += 1
        if t == "(":
            l = []
            while toks[pos] != ")":
                l.append(one())
            pos += 1
            return l
        return t

    return one()


STATE_FIELDS = ["now", "jobs", "machs", "trans", "bufs", "sto"]
MACH_FIELDS = ["mstate", "mocc", "stores", "stores", "stores", "tool", "mout"]
TRANS_FIELDS = ["tstate", "tocc", "stores", "tloc", "tjob", "tout"]


def diff_state(a, b, out):
    if not (isinstance(a, list) and isinstance(b, list) and len(a) == 6 and len(b) == 6):
        out.add("shape")
        return
    if a[0] != b[0]:
        out.add("now")
    if a[1] != b[1]:
        if len(a[1]) != len(b[1]):
            out.add("shape")
        for ja, jb in zip(a[1], b[1]):
            if ja[0] != jb[0]:
                out.add("ops")
            if ja[1] != jb[1]:
                out.add("loc")
    if a[2] != b[2]:
        if len(a[2]) != len(b[2]):
            out.add("shape")
        for ma, mb in zip(a[2], b[2]):
            for k, f in enumerate(MACH_FIELDS):
                if ma[k] != mb[k]:
                    out.add(f)
    if a[3] != b[3]:
        if len(a[3]) != len(b[3]):
            out.add("shape")
        for ta, tb in zip(a[3], b[3]):
            for k, f in enumerate(TRANS_FIELDS):
                if ta[k] != tb[k]:
                    out.add(f)
    if a[4] != b[4]:
        out.add("stores")
    if a[5] != b[5]:
        out.add("sto")


def attribute(impl_out, model_out):
    """Returns (set of field groups that differ, description of the first difference)."""
    if impl_out == model_out:
        return set(), ""
    try:
        a, b = parse(impl_out), parse(model_out)
    except Exception:
        return {"outcome"}, "unparsable"
    groups = set()
    if a[0] != b[0] or (a[0] == "raise" and a != b):
        groups.add("outcome")
        return groups, "outcome class: impl %s vs model %s" % (" ".join(map(str, a[:2]))[:60], " ".join(map(str, b[:2]))[:60])
    if a[0] == "ok":
        la, lb = a[3], b[3]
        first = None
        for k, (ea, eb) in enumerate(zip(la, lb)):
            if ea != eb:
                first = k
                if ea[0] != eb[0]:
                    groups.add("events")
                diff_state(ea[1], eb[1], groups)
                break
        if first is None and len(la) != len(lb):
            groups.add("events")
            first = min(len(la), len(lb))
        if first is not None:
            return groups, "micro-event %d (impl transition %s)" % (first, la[first][0] if first < len(la) else "-")
        diff_state(a[1], b[1], groups)
        if a[2] != b[2]:
            groups.add("offers")
        return groups, "final state / offers"
    if a[0] == "fail":
        if a[1] != b[1]:
            groups.add("sto")
        if a[2] != b[2]:
            groups.add("events")
        return groups, "failed step"
    return {"outcome"}, "?"
