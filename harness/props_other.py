"""Checks of the non-SM engines (filled in by later stages)."""
TABLE = {}
