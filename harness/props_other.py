"""Checks of the non-SM engines: Classic (C06), Obs/Reward (C19, C14, C15), Dsl (C16, C17), Seed (C13)."""
import collections
import copy
import dataclasses
import itertools
import json
import math
import multiprocessing
import os
import random
from fractions import Fraction

import gen
import jsl


def _pool_map(fn, args):
    ncpu = os.cpu_count() or 4
    with multiprocessing.get_context("fork").Pool(min(len(args), ncpu)) as pool:
        return pool.map(fn, args, chunksize=1)


def routes_sx(routes):
    return "(" + " ".join("(" + " ".join("(%d %d)" % (m, d) for m, d in ops) + ")" for ops in routes) + ")"


def classic_dict(routes):
    return {"title": "InstanceConfig", "instance_config": {"description": "classic", "instance": {
        "description": "c", "specification": gen.job_spec_text(routes)}}}


# ----------------------------------------------------------------------------------------
# brute force optimum of a small classic instance: enumerate machine orders, longest path


def brute_opt(routes):
    nm = len(routes[0])
    ops_on = collections.defaultdict(list)
    for j, ops in enumerate(routes):
        for k, (m, d) in enumerate(ops):
            ops_on[m].append((j, k))
    best = None
    machines = sorted(ops_on)
    for orders in itertools.product(*[itertools.permutations(ops_on[m]) for m in machines]):
        start = {}
        # iterate to fixpoint (n^2), detect cycles by bound
        preds = collections.defaultdict(list)
        for j, ops in enumerate(routes):
            for k in range(1, len(ops)):
                preds[(j, k)].append((j, k - 1))
        for order in orders:
            for a, b in zip(order, order[1:]):
                preds[b].append(a)
        nodes = [(j, k) for j, ops in enumerate(routes) for k in range(len(ops))]
        val = {n: 0 for n in nodes}
        ok = True
        for it in range(len(nodes) + 1):
            changed = False
            for n in nodes:
                v = max([val[p] + routes[p[0]][p[1]][1] for p in preds[n]] + [0])
                if v > val[n]:
                    val[n] = v
                    changed = True
            if not changed:
                break
        else:
            ok = False
        if not ok:
            continue
        mk = max(val[n] + routes[n[0]][n[1]][1] for n in nodes)
        if best is None or mk < best:
            best = mk
    return best


# ----------------------------------------------------------------------------------------
# C06


def _c06_worker(args):
    seed, n_lb, tiny, big = args
    rng = random.Random(seed)
    from jobshoplab.utils.utils import calculate_lower_bound, get_max_allowed_time
    drv = jsl.Driver()
    cfg = jsl.with_cfg(jsl.load_config(), early=True, trunc_active=False)
    out = {"lb_cases": 0, "violations": [], "disagreements": [], "opt_cases": 0, "tree_nodes": 0, "samples": [],
           "sizes": collections.Counter()}
    # 1. lower bound: model vs implementation, classic and non-classic (repeated machines) instances
    for k in range(n_lb):
        nj, nm = rng.randint(2, 10 if big else 6), rng.randint(2, 10 if big else 5)
        routes = gen.gen_routes(rng, nj, nm, maxd=rng.choice([3, 9, 99]), repeats=(rng.random() < 0.3),
                                zero_p=rng.choice([0.0, 0.2, 0.6]))
        inst, _ = jsl.compile_dict(classic_dict(routes), cfg)
        try:
            lb = calculate_lower_bound(inst)
            tm = get_max_allowed_time(inst)
        except Exception as e:  # noqa
            out["violations"].append({"kind": "lb:raises", "detail": "calculate_lower_bound/get_max_allowed_time raised %s on a "
                                      "valid %dx%d instance" % (type(e).__name__, nj, nm), "replay": {"routes": routes},
                                      "facts": {"exception": type(e).__name__}})
            continue
        m = drv.ask("LB " + routes_sx(routes))
        out["lb_cases"] += 1
        out["sizes"]["%dx%d" % (nj, nm)] += 1
        if m != "(lb %d %d)" % (lb, tm):
            out["disagreements"].append({"where": "calculate_lower_bound / get_max_allowed_time",
                                         "replay": {"routes": routes, "impl": [lb, tm], "model": m}})
        if k < 2:
            out["samples"].append({"routes": routes, "lower_bound": lb, "max_allowed_time": tm})
    # 2. tiny classic instances: LB <= OPT (lb_sound) and min over all agent behaviours = OPT
    for k2, (nj, nm, maxd) in enumerate(tiny):
        routes = gen.gen_routes(rng, nj, nm, maxd=maxd, repeats=False, zero_p=0.1)
        d = classic_dict(routes)
        inst, _ = jsl.compile_dict(d, cfg)
        try:
            lb = calculate_lower_bound(inst)
        except Exception as e:  # noqa
            out["violations"].append({"kind": "lb:raises", "detail": "calculate_lower_bound raised %s" % type(e).__name__,
                                      "replay": {"routes": routes}, "facts": {"exception": type(e).__name__}})
            continue
        opt = brute_opt(routes)
        out["opt_cases"] += 1
        if lb > opt:
            out["violations"].append({"kind": "lb:exceeds_optimum", "detail": "lower bound %d > optimum %d" % (lb, opt),
                                      "replay": {"routes": routes}})
        # the optimum must be reachable with and without early transport
        cfg_x = cfg if (k2 % 2 == 0) else jsl.with_cfg(jsl.load_config(), early=False, trunc_active=False)
        best, nodes, ends = explore_min_makespan(d, cfg_x)
        out["tree_nodes"] += nodes
        if ends.get("node_budget") and (best is None or best > opt):
            # the exploration was cut off by the node budget: "not found" is not "unreachable" (counted, not judged);
            # a makespan BELOW the optimum is judged even then
            out["budget_exhausted"] = out.get("budget_exhausted", 0) + 1
        elif best != opt:
            out["violations"].append({"kind": "opt:unreachable" if (best is None or best > opt) else "opt:shortcut",
                                      "detail": "minimum makespan over all accept/decline behaviours = %s, optimum = %s"
                                      % (best, opt), "replay": {"routes": routes, "ends": ends}})
    out["sizes"] = dict(out["sizes"])
    drv.close()
    return out


def explore_min_makespan(d, cfg, max_nodes=400000):
    """Exhaustive search over accept/decline sequences of the real environment (functional middleware API).
    The only pruning: never decline the last offer while nothing at all is in progress (that adds one idle time
    unit and returns to the same shop)."""
    import trace
    env = trace.make_env(d, cfg, None)
    sim = env.state_simulator
    inst = env.instance
    from jobshoplab.state_machine.core.state_machine import is_done
    from jobshoplab.types.state_types import OperationStateState as OS
    from jobshoplab.types.state_types import TransportStateState as TS
    codec = jsl.Codec(inst, cfg.state_machine.allow_early_transport)
    best = [None]
    seen = set()
    nodes = [0]
    ends = collections.Counter()
    stack = [env.state]
    while stack:
        r = stack.pop()
        nodes[0] += 1
        if nodes[0] > max_nodes:
            ends["node_budget"] += 1
            break
        if is_done(r.state, inst):
            mk = r.state.time.time
            ends["terminal"] += 1
            if best[0] is None or mk < best[0]:
                best[0] = mk
            continue
        if not r.possible_transitions:
            ends["deadlock"] += 1
            continue
        key = (codec.state(r.state), codec.transitions(r.possible_transitions))
        if key in seen:
            continue
        seen.add(key)
        if best[0] is not None and r.state.time.time >= best[0]:
            continue  # the clock never decreases: cannot improve
        for a in (1, 0):
            if a == 0 and len(r.possible_transitions) == 1:
                busy = any(o.operation_state_state == OS.PROCESSING for j in r.state.jobs for o in j.operations) or \
                    any(t.state != TS.IDLE for t in r.state.transports)
                if not busy:
                    continue
            try:
                r2, _ = sim.step(r, a)
            except Exception as e:  # noqa
                ends["raise:" + type(e).__name__] += 1
                continue
            if not r2.success:
                ends["failed"] += 1
                continue
            stack.append(r2)
    return best[0], nodes[0], dict(ends)


def c06(ctx):
    rng = random.Random(ctx.seed + 6)
    if ctx.quick():
        args = [(rng.randrange(1 << 30), 60, [(2, 2, 4), (3, 2, 3), (2, 3, 3), (3, 2, 2), (2, 2, 9), (3, 2, 3), (3, 2, 2)], False)
                for _ in range(8)]
    else:
        args = [(rng.randrange(1 << 30), 400, [(2, 2, 9), (2, 3, 4), (3, 2, 4), (3, 3, 3), (2, 4, 3)], True) for _ in range(16)]
    outs = _pool_map(_c06_worker, args)
    tot = collections.Counter()
    sizes = collections.Counter()
    for o in outs:
        tot["lb_cases"] += o["lb_cases"]
        tot["opt_cases"] += o["opt_cases"]
        tot["tree_nodes"] += o["tree_nodes"]
        tot["budget_exhausted"] += o.get("budget_exhausted", 0)
        sizes.update(o["sizes"])
        ctx.violations.extend(o["violations"])
        for dd in o["disagreements"]:
            ctx.broken_correspondence.append("model and implementation differ in %s" % dd["where"])
            ctx.coverage.setdefault("disagreement_samples", []).append(dd["replay"])
        ctx.samples.extend(o["samples"][:1])
    ctx.coverage.update({
        "evaluations": tot["lb_cases"] + tot["opt_cases"], "distinct_nontrivial": tot["lb_cases"] + tot["opt_cases"],
        "rule": "lower-bound cases: random n x m routings (30% with repeated machines, zero durations included), model "
                "lower_bound/total_work vs utils.calculate_lower_bound/get_max_allowed_time; optimum cases: tiny classic "
                "instances, brute-force optimum over all machine orders vs the minimum makespan over the complete "
                "accept/decline tree of the real environment (pruned only by 'never idle-decline when nothing is in progress')",
        "traces_validated_against_impl": tot["lb_cases"], "lower_bound_cases": tot["lb_cases"],
        "optimum_cases": tot["opt_cases"], "decision_tree_nodes_explored": tot["tree_nodes"],
        "explorations_cut_off_by_the_node_budget_not_judged": tot["budget_exhausted"], "instance_sizes": dict(sizes),
    })
    ctx.search_note = "brute-force optimum and exhaustive decision trees on %d tiny instances" % tot["opt_cases"]


# ----------------------------------------------------------------------------------------
# C19


def frac(x):
    return Fraction(str(x))


def _c19_worker(args):
    seed, n = args
    import trace
    import batch
    rng = random.Random(seed)
    from jobshoplab.utils.utils import calculate_lower_bound, get_max_allowed_time
    drv = jsl.Driver()
    base = jsl.load_config()
    out = {"steps": 0, "episodes": 0, "violations": [], "disagreements": [], "terminal": 0, "truncated": 0,
           "pairs": 0, "samples": [], "ends": collections.Counter()}
    for k in range(n):
        prof = rng.choice(["classic", "classic", "transport", "buffers", "full", "stoch"])
        d, feats = gen.gen_instance(rng, prof)
        sb = rng.choice([1, 1, 2, 0.5, 10])
        db = rng.choice([0.001, 0.01, 0, 1])
        tb = rng.choice([-1, -5, 0, -0.5])
        joker = rng.randint(0, 2)
        cfg = jsl.with_cfg(base, early=True, joker=joker, trunc_active=(rng.random() < 0.5))
        rc = dataclasses.replace(cfg.reward_factory.binary_action_jssp_reward, sparse_bias=sb, dense_bias=db, truncation_bias=tb)
        cfg = dataclasses.replace(cfg, reward_factory=dataclasses.replace(cfg.reward_factory, binary_action_jssp_reward=rc))
        finished = []   # (makespan, main term) of finished episodes on this instance
        prev_env = None
        for rep in range(2):
            p = rng.choice([0.3, 0.6, 0.9, 1.0])
            pol = gen.Policy(random.Random(rng.randrange(1 << 30)), p)
            st = {"streak": 0}
            info0 = {}

            def hook(env, stepinfo, st=st, info0=info0):
                if stepinfo is None:
                    st["streak"] = 0
                    inst = env.instance
                    noted = getattr((getattr(env, "init_args", None) or {}).get("compiler"), "_verif_last", None)
                    if noted:
                        info0.update(noted)
                    else:
                        info0.update(lb=calculate_lower_bound(inst), tmax=get_max_allowed_time(inst),
                                     nops=sum(len(j.operations) for j in inst.instance.specification),
                                     njobs=len(inst.instance.specification))
                    return
                a, obs, rew, term, trunc, info = stepinfo
                out["steps"] += 1
                noop = len(env.state.action.transitions) == 0
                t = env.state.state.time.time
                fs, fd, ft = frac(sb), frac(db), frac(tb)
                q = "RW %d %d %d %d %d %d %d %d %d %d %d %d %d %d %d" % (
                    fs.numerator, fs.denominator, fd.numerator, fd.denominator, ft.numerator, ft.denominator,
                    info0["tmax"], info0["lb"], info0["nops"], info0["njobs"], st["streak"], t,
                    int(term), int(trunc), int(noop))
                m = drv.ask(q)
                ok = False
                if m.startswith("(ok"):
                    _, num, den, streak = m.strip("()").split()
                    exact = Fraction(int(num), int(den))
                    st["streak"] = int(streak)
                    ok = abs(float(exact) - rew) <= 1e-9 * max(1.0, abs(float(exact)))
                    # independent reading of the property, applied to the IMPLEMENTATION's reward
                    dense = Fraction(0) if st["streak"] < info0["njobs"] else Fraction(-1, info0["nops"])

                    def near(x, y):
                        return abs(float(x) - float(y)) <= 1e-9 * max(1.0, abs(float(y)))
                    if not term and not trunc:
                        if not near(rew, fd * dense) or not (rew <= 0):
                            out["violations"].append({"kind": "reward:nonfinal", "detail": "non-final reward %r is not the "
                                                      "shaping term %s" % (rew, fd * dense), "replay": {"query": q, "dsl": d}})
                    if trunc and not term:
                        out["truncated"] += 1
                        if not near(rew - float(fd * dense), ft):
                            out["violations"].append({"kind": "reward:truncation", "detail": "truncated: reward without shaping "
                                                      "%r != truncation_bias %s (sparse_bias %s)" % (rew - float(fd * dense), ft, fs),
                                                      "replay": {"query": q, "dsl": d}})
                    if term:
                        out["terminal"] += 1
                        main = (exact - fd * dense) / fs
                        expect = Fraction(info0["tmax"] - t, info0["tmax"] - info0["lb"])
                        if main != expect or not near((rew - float(fd * dense)) / float(fs), expect):
                            out["violations"].append({"kind": "reward:terminal", "detail": "main term %s (impl %r) != %s"
                                                      % (main, (rew - float(fd * dense)) / float(fs), expect),
                                                      "replay": {"query": q, "dsl": d}})
                        finished.append((t, Fraction((rew - float(fd * dense)) / float(fs)).limit_denominator(10**9), rew,
                                         (info0["lb"], info0["tmax"])))
                if not ok:
                    out["disagreements"].append({"where": "reward", "replay": {"query": q, "model": m, "impl": rew}})
                if len(out["samples"]) < 2 and term:
                    out["samples"].append({"query": q, "model": m, "impl_reward": rew})

            try:
                if rep == 1 and prev_env is not None and rng.random() < 0.6:
                    # second episode on the SAME environment object (reset): the normalisation constants must be
                    # those of the instance of THIS episode
                    end, acts, et = batch.rerun_episode(prev_env, pol, max_steps=300, env_hook=hook)
                    out["reused_env_episodes"] = out.get("reused_env_episodes", 0) + 1
                else:
                    env, end, acts, et = batch.run_episode(None, d, cfg, pol, max_steps=300, env_hook=hook)
                    prev_env = env
            except jsl.Unsupported:
                end = "unsupported"
            out["episodes"] += 1
            out["ends"][end] += 1
            if end == "raise:ZeroDivisionError":
                out["violations"].append({"kind": "outcome:raise:ZeroDivisionError", "detail": "reward raised ZeroDivisionError",
                                          "replay": {"dsl": d}, "facts": {"lb_equals_tmax": info0.get("lb") == info0.get("tmax"),
                                                                          "lb": info0.get("lb"), "tmax": info0.get("tmax")}})
        for (m1, f1, r1, k1), (m2, f2, r2, k2) in itertools.combinations(finished, 2):
            if k1 != k2:
                continue     # stochastic durations: the two episodes are not episodes of one instance
            out["pairs"] += 1
            if (m1 < m2 and not f1 > f2) or (m2 < m1 and not f2 > f1) or (m1 == m2 and f1 != f2):
                out["violations"].append({"kind": "reward:not_monotone", "detail": "makespans %s,%s main terms %s,%s "
                                          "(lower bound %s, max allowed time %s)" % (m1, m2, f1, f2, k1[0], k1[1]),
                                          "replay": {"dsl": d}, "facts": {"lb_gt_tmax": k1[0] > k1[1]}})
    out["ends"] = dict(out["ends"])
    drv.close()
    return out


def witness_c19_reentrant(ctx):
    """Stored witness of the listed finding F-C19-lb-above-tmax (theorem C19_decreasing_refuted_reentrant): a document with re-entrant
    routes whose lower bound exceeds the sum of all durations; two finished episodes with different makespans, dense term switched off,
    are compared through the same monotonicity test as the sampled pairs."""
    import batch
    from jobshoplab.utils.utils import calculate_lower_bound, get_max_allowed_time
    d = {"title": "InstanceConfig", "instance_config": {"description": "re-entrant", "instance": {
        "description": "x", "specification": "(m0,t)|(m1,t)|(m2,t)\nj0|(0,0) (0,1) (2,0)\nj1|(0,1) (0,5) (0,1)\n"}}}
    cfg = jsl.with_cfg(jsl.load_config(), early=True, trunc_active=False)
    rc = dataclasses.replace(cfg.reward_factory.binary_action_jssp_reward, sparse_bias=1, dense_bias=0, truncation_bias=-1)
    cfg = dataclasses.replace(cfg, reward_factory=dataclasses.replace(cfg.reward_factory, binary_action_jssp_reward=rc))
    finished = []
    consts = None
    for seed_p, p in ((1, 1.0), (2, 0.5), (3, 0.5), (4, 0.3)):
        last = {}

        def hook(env, stepinfo, last=last):
            if stepinfo is None:
                last["lb"], last["tmax"] = calculate_lower_bound(env.instance), get_max_allowed_time(env.instance)
                return
            a, obs, rew, term, trunc, info = stepinfo
            if term:
                last["rew"], last["mk"] = rew, env.state.state.time.time
        try:
            env, end, acts, et = batch.run_episode(None, d, cfg, gen.Policy(random.Random(seed_p), p), max_steps=300, env_hook=hook)
        except Exception:  # noqa
            continue
        if end == "terminated" and "rew" in last:
            finished.append((last["mk"], last["rew"]))
            consts = (last["lb"], last["tmax"])
    ctx.coverage["reentrant_witness"] = {"finished": finished, "lb_tmax": consts}
    # stored witness of F-C19-zero-division (theorem C19_finite_refuted): one job carries all the non-zero work, LB = T_max
    d0 = {"title": "InstanceConfig", "instance_config": {"description": "lb = tmax", "instance": {
        "description": "x", "specification": "(m0,t)|(m1,t)\nj0|(0,3) (1,2)\nj1|(1,0) (0,0)\n"}}}
    info0 = {}

    def hook0(env, stepinfo):
        if stepinfo is None:
            info0.update(lb=calculate_lower_bound(env.instance), tmax=get_max_allowed_time(env.instance))
    try:
        env, end, acts, et = batch.run_episode(None, d0, cfg, lambda e: 1, max_steps=100, env_hook=hook0)
    except Exception as e:  # noqa
        end = "harness:" + type(e).__name__
    ctx.coverage["zero_division_witness"] = {"end": end, "lb": info0.get("lb"), "tmax": info0.get("tmax")}
    if end == "raise:ZeroDivisionError":
        ctx.violations.append({"kind": "outcome:raise:ZeroDivisionError", "detail": "reward raised ZeroDivisionError (stored witness of "
                               "F-C19-zero-division)", "replay": {"dsl": d0},
                               "facts": {"lb_equals_tmax": info0.get("lb") == info0.get("tmax"), "lb": info0.get("lb"), "tmax": info0.get("tmax")}})
    for (m1, f1), (m2, f2) in itertools.combinations(finished, 2):
        if (m1 < m2 and not f1 > f2) or (m2 < m1 and not f2 > f1):
            ctx.violations.append({"kind": "reward:not_monotone", "detail": "makespans %s,%s terminal rewards %s,%s (lower bound %s, max "
                                   "allowed time %s; stored witness of F-C19-lb-above-tmax)" % (m1, m2, f1, f2, consts[0], consts[1]),
                                   "replay": {"dsl": d}, "facts": {"lb_gt_tmax": consts[0] > consts[1]}})
            break


def c19(ctx):
    rng = random.Random(ctx.seed + 19)
    if ctx.quick():
        args = [(rng.randrange(1 << 30), 25) for _ in range(4)]
    else:
        args = [(rng.randrange(1 << 30), 200) for _ in range(16)]
    outs = _pool_map(_c19_worker, args)
    tot = collections.Counter()
    ends = collections.Counter()
    for o in outs:
        for k in ("steps", "episodes", "terminal", "truncated", "pairs"):
            tot[k] += o[k]
        ends.update(o["ends"])
        ctx.violations.extend(o["violations"])
        for dd in o["disagreements"][:5]:
            ctx.broken_correspondence.append("model and implementation differ in %s" % dd["where"])
            ctx.coverage.setdefault("disagreement_samples", []).append(dd["replay"])
        ctx.samples.extend(o["samples"][:1])
    ctx.coverage.update({
        "evaluations": tot["steps"], "distinct_nontrivial": tot["steps"],
        "rule": "one evaluation = one env.step reward of the implementation (random instance, reward weights, truncation "
                "setting, accept probability) compared with the exact rational of the extracted Coq reward model "
                "(tolerance 1e-9 relative: Python computes in float64); two episodes per instance for the monotonicity pairs",
        "traces_validated_against_impl": tot["steps"], "episodes": tot["episodes"], "terminal_rewards": tot["terminal"],
        "truncation_rewards": tot["truncated"], "finished_episode_pairs_compared": tot["pairs"],
        "episode_end_histogram": dict(ends),
    })
    witness_c19_reentrant(ctx)
    ctx.assumptions.append("float64 rounding of the implementation's reward is not modelled: rewards are compared with the "
                           "exact rational within 1e-9 relative; strict monotonicity of the float result is not claimed")


# ----------------------------------------------------------------------------------------
# C14 / C15: observations


FACTORIES = ["BinaryActionObservationFactory", "SimpleJsspObservationFactory", "BinaryOperationArrayObservation",
             "TasselJsspObservation"]


def _qs(text):
    """'(n d)' pairs of a model answer -> Fractions"""
    import sxdiff
    return sxdiff.parse(text)


def _f32(fr):
    import numpy as np
    return np.float32(float(fr))


def labels_sx(codec):
    return "(" + " ".join("((%s %d) %d)" % (k, n, int(bid.split("-")[1])) for bid, (k, n) in codec.bid.items()
                          if bid.split("-")[1].isdigit()) + ")"


def spec_reading(env):
    """Independent reading of the state for the SimpleJssp fields, indexed by job / machine NUMBER."""
    from jobshoplab.types.state_types import MachineStateState as MS
    from jobshoplab.types.state_types import OperationStateState as OS
    from jobshoplab.utils.utils import get_id_int
    s = env.state.state
    nj, nm = len(s.jobs), len(s.machines)
    jr, av, jp = [0] * nj, [0] * nj, [0] * nj
    ex = [[0] * nm for _ in range(nj)]
    for j in s.jobs:
        k = get_id_int(j.id)
        sts = [o.operation_state_state for o in j.operations]
        jr[k] = int(OS.PROCESSING in sts)
        av[k] = int(OS.IDLE in sts and OS.PROCESSING not in sts)
        jp[k] = sum(1 for x in sts if x == OS.DONE)
        for o in j.operations:
            if o.operation_state_state == OS.DONE:
                ex[k][get_id_int(o.machine_id)] = 1
    mr, mp = [0] * nm, [0] * nm
    for m in s.machines:
        k = get_id_int(m.id)
        mr[k] = int(m.state == MS.WORKING)
        mp[k] = sum(1 for j in s.jobs for o in j.operations if o.machine_id == m.id and o.operation_state_state == OS.DONE)
    return {"job_running": jr, "job_executed_on_machine": ex, "job_progression": jp, "machine_running": mr,
            "machine_progression": mp, "available_jobs": av}


def exact_in_space(space, obs):
    """Fields whose exact values (before any dtype cast) are outside [low, high], have the wrong shape, or are
    fractional in an integer Box."""
    import numpy as np
    import gymnasium as gym
    bad = []
    if set(space.spaces.keys()) != set(obs.keys()):
        return ["<keys>"]
    for k, sp in space.spaces.items():
        v = np.asarray(obs[k], dtype=np.float64)
        if isinstance(sp, gym.spaces.MultiBinary):
            if v.shape != sp.shape or not np.all((v == 0) | (v == 1)):
                bad.append(k)
            continue
        if v.shape != sp.shape:
            bad.append(k + ":shape")
            continue
        if np.any(v < sp.low.astype(np.float64)) or np.any(v > sp.high.astype(np.float64)):
            bad.append(k)
        elif np.issubdtype(sp.dtype, np.integer) and np.any(v != np.floor(v)):
            bad.append(k + ":fractional")
    return bad


def _obs_worker(args):
    seed, n, big, prop = args
    import numpy as np
    import batch
    import trace
    import sxdiff
    from jobshoplab.utils.exceptions import ActionOutOfActionSpace, EnvDone
    rng = random.Random(seed)
    drv = jsl.Driver()
    base = jsl.load_config()
    out = {"steps": 0, "episodes": 0, "violations": [], "disagreements": [], "samples": [],
           "by_factory": collections.Counter(), "sizes": collections.Counter(), "bad_actions": 0, "resets": 0,
           "offer_sets": 0, "compared_fields": 0, "ends": collections.Counter()}
    for k in range(n):
        fac = FACTORIES[k % len(FACTORIES)] if prop == "C14" else FACTORIES[k % 3]
        if big and rng.random() < 0.5:
            nj, nm = rng.randint(10, 14), rng.randint(2, 12)
            d, feats = gen.gen_instance(rng, rng.choice(["classic", "transport"]), nj=nj, nm=nm)
        else:
            d, feats = gen.gen_instance(rng, rng.choice(["classic", "transport", "buffers", "full", "outs", "outs"]
                                                        + (["outs"] * 6 if "OperationArray" in fac else [])))
        cfg = jsl.with_cfg(base, early=True, trunc_active=(rng.random() < 0.3), joker=2, obs=fac)
        pol = gen.Policy(random.Random(rng.randrange(1 << 30)), rng.choice([0.5, 0.8, 1.0]),
                         bad_p=(0.05 if prop == "C14" else 0.0))
        st = {}

        def check_obs(env, obs, done, where):
            codec = st["codec"]
            space = env.observation_space
            try:
                inside = bool(space.contains(obs))
            except Exception as e:  # noqa
                inside = False
            bad = exact_in_space(space, obs)
            if (not inside) or bad:
                out["violations"].append({"kind": "obs:not_in_space", "detail": "%s: %s: contains=%s, exact-bound failures %s"
                                          % (fac, where, inside, bad), "replay": {"dsl": d, "factory": fac, "where": where},
                                          "facts": {"factory": fac, "fields": sorted(set(b.split(":")[0] for b in bad))}})
            if fac == "TasselJsspObservation":
                return
            drv.set_codec(codec)
            sx_state = codec.state(env.state.state)
            offers = codec.transitions(env.state.possible_transitions)
            if fac in ("BinaryActionObservationFactory", "SimpleJsspObservationFactory"):
                m = drv.ask("OB %d %s %s %d" % (st["tmax"], sx_state, offers, int(done)))
                parts = sxdiff.parse("(" + m + ")")
                simple, ct = parts[0], parts[1]
                if simple[0] != "simple":
                    out["disagreements"].append({"where": "make_simple raised", "replay": {"model": m}})
                    return
                names = ["job_running", "job_executed_on_machine", "job_progression", "machine_running",
                         "machine_progression", "available_jobs"]
                spec = spec_reading(env)
                for nme, mv in zip(names, simple[1:7]):
                    iv = np.asarray(obs[nme]).astype(int).tolist()
                    mv2 = [[int(z) for z in r] for r in mv] if nme == "job_executed_on_machine" else [int(z) for z in mv]
                    out["compared_fields"] += 1
                    if iv != mv2:
                        out["disagreements"].append({"where": "observation field " + nme, "replay": {
                            "dsl": d, "impl": iv, "model": mv2}})
                    if iv != spec[nme]:
                        out["violations"].append({"kind": "obs:not_faithful", "detail": "%s differs from the independent "
                                                  "reading of the state: %s vs %s" % (nme, iv, spec[nme]),
                                                  "replay": {"dsl": d, "factory": fac}, "facts": {"field": nme}})
                tq = Fraction(int(simple[7][0]), int(simple[7][1]))
                if _f32(tq) != np.float32(obs["current_time"][0]):
                    out["disagreements"].append({"where": "current_time", "replay": {"impl": float(obs["current_time"][0]),
                                                                                     "model": str(tq)}})
                if simple[8] != "1":
                    out["violations"].append({"kind": "obs:model_int_fields_out_of_space", "detail": "model says integer "
                                              "fields are outside the declared space", "replay": {"dsl": d}})
                if fac == "BinaryActionObservationFactory":
                    if ct[0] != "ct":
                        out["disagreements"].append({"where": "current_transition raised", "replay": {"model": m}})
                    else:
                        mv = [_f32(Fraction(int(q[0]), int(q[1]))) for q in ct[1:4]]
                        iv = [np.float32(v) for v in obs["current_transition"]]
                        if mv != iv:
                            out["disagreements"].append({"where": "current_transition", "replay": {
                                "impl": [float(v) for v in iv], "model": [float(v) for v in mv]}})
            elif fac == "BinaryOperationArrayObservation":
                # independent reading by job NUMBER (not by position in state.jobs)
                try:
                    from jobshoplab.utils.utils import get_id_int
                    from jobshoplab.types.state_types import OperationStateState as OS2
                    s_ = env.state.state
                    byn = sorted(s_.jobs, key=lambda j: get_id_int(j.id))
                    exp_ops = []
                    for j in byn:
                        for o in j.operations:
                            if o.operation_state_state == OS2.IDLE:
                                exp_ops.append(np.float32(0))
                            elif o.operation_state_state == OS2.DONE:
                                exp_ops.append(np.float32(1))
                            else:
                                dur = o.end_time.time - o.start_time.time
                                exp_ops.append(np.float32((s_.time.time - o.start_time.time) / dur) if dur else None)
                    fobj = env.state_simulator.observation_factory
                    exp_loc = [np.float32(int(j.location.split("-")[1]) / fobj.max_buffer_id) for j in byn]
                    got_ops = [np.float32(v) for v in np.asarray(obs["operation_state"]).reshape(-1)]
                    got_loc = [np.float32(v) for v in np.asarray(obs["job_locations"]).reshape(-1)]
                    bad_ops = len(got_ops) != len(exp_ops) or any(e is not None and e != g for e, g in zip(exp_ops, got_ops))
                    if bad_ops or got_loc != exp_loc:
                        out["violations"].append({"kind": "obs:not_faithful", "detail": "operation_state / job_locations are not "
                                                  "indexed by job number (state.jobs order: %s)" % [j.id for j in s_.jobs][:14],
                                                  "replay": {"dsl": d, "factory": fac}, "facts": {"field": "operation_array_by_number"}})
                except Exception:  # noqa
                    pass
                m = drv.ask("OA %s %s" % (st["labels"], sx_state))
                p = sxdiff.parse(m)
                if p[0] != "oa":
                    out["disagreements"].append({"where": "make_oparray raised", "replay": {"model": m}})
                    return
                mo = [_f32(Fraction(int(q[0]), int(q[1]))) for q in p[1]]
                ml = [_f32(Fraction(int(q[0]), int(q[1]))) for q in p[2]]
                io = [np.float32(v) for v in np.asarray(obs["operation_state"]).reshape(-1)]
                il = [np.float32(v) for v in np.asarray(obs["job_locations"]).reshape(-1)]
                out["compared_fields"] += 2
                if mo != io or ml != il:
                    out["disagreements"].append({"where": "operation array", "replay": {
                        "impl": [[float(v) for v in io], [float(v) for v in il]],
                        "model": [[float(v) for v in mo], [float(v) for v in ml]]}})
                    # the model reads operation k of job NUMBER j (theorems of Props/C15.v): a different array is an
                    # observation that does not encode the state - reported with the input
                    out["violations"].append({"kind": "obs:not_faithful", "detail": "operation_state / job_locations differ from "
                                              "the reading by job and operation number (the proved model)",
                                              "replay": {"dsl": d, "factory": fac, "state": sx_state[:3000]},
                                              "facts": {"field": "operation_array"}})
            # offers must be distinguishable
            if fac in ("BinaryActionObservationFactory", "BinaryOperationArrayObservation") and not done:
                offs = list(env.state.possible_transitions)
                if len(offs) > 1:
                    out["offer_sets"] += 1
                    f = env.state_simulator.observation_factory
                    encs = {}
                    import dataclasses as dc
                    for t in offs:
                        o2 = f.make(dc.replace(env.state, possible_transitions=(t,)), False)
                        key = tuple(np.float32(v).tobytes() for v in o2["current_transition"])
                        if key in encs and encs[key] != t:
                            out["violations"].append({"kind": "obs:offers_collide", "detail": "two different offers have "
                                                      "the same encoding: %s / %s" % (encs[key], t), "replay": {"dsl": d}})
                        encs[key] = t

        def hook(env, stepinfo):
            from jobshoplab.utils.utils import get_max_allowed_time
            if stepinfo is None:
                st["codec"] = jsl.Codec(env.instance, True)
                st["tmax"] = get_max_allowed_time(env.instance)
                st["labels"] = labels_sx(st["codec"])
                st["first_obs"] = copy.deepcopy(env.current_observation[0])
                st["first_state"] = st["codec"].state(env.state.state)
                st["first_state_obj"] = env.state.state
                st["first_instance_obj"] = env.instance
                check_obs(env, env.current_observation[0], False, "reset")
                return
            a, obs, rew, term, trunc, info = stepinfo
            out["steps"] += 1
            out["by_factory"][fac] += 1
            # the middleware tells the factory done = "no offers left" (not the terminated flag)
            check_obs(env, obs, len(env.state.possible_transitions) == 0, "step")

        # bad actions: wrap the policy so that rejected actions are verified to leave the episode alone
        try:
            env, end, acts, et = run_episode_c14(d, cfg, pol, hook, out, prop)
        except jsl.Unsupported:
            end = "unsupported"
            env = None
        out["episodes"] += 1
        out["ends"][end] += 1
        out["sizes"]["%dx%d" % (feats["nj"], feats["nm"])] += 1
        if env is not None and prop == "C14" and end in ("terminated", "truncated"):
            # stepping a finished episode raises the dedicated error; reset returns to the initial situation
            try:
                env.step(1)
                out["violations"].append({"kind": "contract:step_after_done", "detail": "no EnvDone", "replay": {"dsl": d}})
            except EnvDone:
                pass
            except Exception as e:  # noqa
                out["violations"].append({"kind": "contract:step_after_done", "detail": "raised %s" % type(e).__name__,
                                          "replay": {"dsl": d}})
            has_stoch = bool(st["codec"].sto_objs)
            try:
              for nreset in range(2):
                obs0, info0 = env.reset()
                out["resets"] += 1
                c2 = jsl.Codec(env.instance, True)
                okflags = (not env.terminated and not env.truncated and not env.done and len(env.history) == 0)
                same_state = has_stoch or c2.state(env.state.state) == st["first_state"]
                # the objects themselves (identifiers included), not only their positional serialization
                same_raw = has_stoch or (env.state.state == st["first_state_obj"] and env.instance == st["first_instance_obj"])
                same_obs = has_stoch or all(np.array_equal(np.asarray(obs0[key]), np.asarray(st["first_obs"][key]))
                                            for key in st["first_obs"])
                if not (okflags and same_state and same_obs and same_raw):
                    out["violations"].append({"kind": "contract:reset", "detail": "reset #%d did not return to the initial "
                                              "situation (flags ok=%s state=%s objects=%s obs=%s)"
                                              % (nreset + 1, okflags, same_state, same_raw, same_obs),
                                              "replay": {"dsl": d}})
                    break
            except Exception as e:  # noqa
                out["violations"].append({"kind": "contract:reset", "detail": "reset raised %s" % type(e).__name__,
                                          "replay": {"dsl": d}})
    out["by_factory"] = dict(out["by_factory"])
    out["sizes"] = dict(out["sizes"])
    out["ends"] = dict(out["ends"])
    drv.close()
    return out


def run_episode_c14(d, cfg, pol, hook, out, prop):
    """Like batch.run_episode, but actions outside the action space must raise ActionOutOfActionSpace and leave
    state, history and flags untouched."""
    import trace
    from jobshoplab.utils.exceptions import ActionOutOfActionSpace
    try:
        env = trace.make_env(d, cfg, None)
    except Exception as e:  # noqa
        return None, "compile:" + type(e).__name__, [], []
    hook(env, None)
    acts = []
    end = "maxsteps"
    for _ in range(300):
        a = pol(env)
        acts.append(a)
        import numpy as np
        if not (isinstance(a, (int, np.integer)) and not isinstance(a, bool) and int(a) in (0, 1)):
            # the oracle of "outside the action space" is the declared space itself
            try:
                inside = bool(env.action_space.contains(a))
            except Exception:  # noqa
                inside = False
            if inside:
                out["violations"].append({"kind": "contract:space_contains_non_action", "detail": "the action space "
                                          "contains %r" % (a,), "replay": {"dsl": d}})
            out["bad_actions"] += 1
            out.setdefault("bad_action_types", collections.Counter())[type(a).__name__] += 1
            before = (env.state, len(env.history), env.terminated, env.truncated, env.done)
            try:
                env.step(a)
                out["violations"].append({"kind": "contract:bad_action_accepted", "detail": "action %r accepted" % (a,),
                                          "replay": {"dsl": d}})
            except ActionOutOfActionSpace:
                if (env.state, len(env.history), env.terminated, env.truncated, env.done) != before:
                    out["violations"].append({"kind": "contract:bad_action_changed_episode", "detail": "rejected action "
                                              "%r changed the episode" % (a,), "replay": {"dsl": d}})
            except Exception as e:  # noqa
                unchanged = (env.state, len(env.history), env.terminated, env.truncated, env.done) == before
                if unchanged and len(env.state.possible_transitions) == 0:
                    # a state without offers (a dead end, see the findings of C05/C11) rejects EVERY action with
                    # InvalidValue before looking at it: rejected and unchanged, which is all the property asks
                    out["bad_actions_in_dead_state"] = out.get("bad_actions_in_dead_state", 0) + 1
                else:
                    out["violations"].append({"kind": "contract:bad_action_error", "detail": "action %r raised %s instead of "
                                              "ActionOutOfActionSpace (episode unchanged: %s)" % (a, type(e).__name__, unchanged),
                                              "replay": {"dsl": d}, "facts": {"exception": type(e).__name__}})
            continue
        try:
            obs, rew, term, trunc, info = env.step(a)
        except Exception as e:  # noqa
            end = "raise:" + type(e).__name__
            break
        hook(env, (a, obs, rew, term, trunc, info))
        if term or trunc:
            end = "terminated" if term else "truncated"
            break
    return env, end, acts, []


def _obs_check(ctx, prop):
    rng = random.Random(ctx.seed + (14 if prop == "C14" else 15))
    if ctx.quick():
        args = [(rng.randrange(1 << 30), 16, (k % 2 == 1), prop) for k in range(8)]
    else:
        args = [(rng.randrange(1 << 30), 120, (k % 2 == 1), prop) for k in range(16)]
    outs = _pool_map(_obs_worker, args)
    tot = collections.Counter()
    byf, sizes, ends = collections.Counter(), collections.Counter(), collections.Counter()
    badt = collections.Counter()
    for o in outs:
        for k in ("steps", "episodes", "bad_actions", "resets", "offer_sets", "compared_fields"):
            tot[k] += o[k]
        byf.update(o["by_factory"])
        sizes.update(o["sizes"])
        ends.update(o["ends"])
        badt.update(o.get("bad_action_types", {}))
        ctx.violations.extend(o["violations"])
        for dd in o["disagreements"][:5]:
            ctx.broken_correspondence.append("model and implementation differ in %s" % dd["where"])
            ctx.coverage.setdefault("disagreement_samples", []).append(dd["replay"])
    ctx.coverage.update({
        "evaluations": tot["steps"], "distinct_nontrivial": tot["steps"],
        "rule": "one evaluation = one observation returned by env.step/reset (generated instance incl. non-square and "
                "10-14 job instances, every shipped factory usable with the event middleware), checked against the declared "
                "space (Gymnasium contains() and exact bounds/integrality) and compared field by field with the extracted "
                "Coq observation model (floats: equal after rounding the exact rational to float32) and with an independent "
                "reading of the state indexed by job/machine number",
        "traces_validated_against_impl": tot["steps"], "episodes": tot["episodes"], "steps_by_factory": dict(byf),
        "instance_sizes": dict(sizes), "episode_end_histogram": dict(ends), "out_of_space_actions_tried": tot["bad_actions"],
        "out_of_space_actions_by_type": dict(badt), "resets_checked": tot["resets"], "offer_sets_checked_for_collisions": tot["offer_sets"],
        "fields_compared_with_model": tot["compared_fields"],
    })
    ctx.samples.append({"factories": FACTORIES, "note": "see instance_sizes / steps_by_factory"})
    ctx.assumptions.append("float32 rounding is not modelled in Coq: the model is exact over Q and the harness rounds the "
                           "exact value to float32 before comparing; Gymnasium's own contains() is used as is")


def c14(ctx):
    _obs_check(ctx, "C14")
    ctx.violations = [v for v in ctx.violations if v["kind"] not in ("obs:not_faithful", "obs:offers_collide")]


def c15(ctx):
    _obs_check(ctx, "C15")
    ctx.violations = [v for v in ctx.violations if v["kind"] in ("obs:not_faithful", "obs:offers_collide")]


# ----------------------------------------------------------------------------------------
# C16 / C17: compiler


def gen_doc(rng, big=False):
    """Well-formed DSL dictionary with optional sections in random combination, layout variants, init_state."""
    if big and rng.random() < 0.4:
        d, feats = gen.gen_instance(rng, rng.choice(["classic", "transport", "buffers", "full", "full", "full"]),
                                    nj=rng.choice([5, 8, 11, 12, 13]), nm=rng.choice([4, 6, 9, 11, 12, 13]))
    else:
        d, feats = gen.gen_instance(rng, rng.choice(["classic", "transport", "buffers", "full", "full"]),
                                    nj=rng.choice([1, 2, 2, 3, 4]))
    ic = d["instance_config"]
    nj, nm = feats["nj"], feats["nm"]
    if rng.random() < 0.25:
        ic["instance"]["time_behavior"] = rng.choice([{"type": "uni", "offset": rng.choice([1, 3, 0.5, 2.5])}, {"type": "poisson"},
                                                      {"type": "gaussian", "std": rng.choice([1, 0.5, 2.5])},
                                                      {"type": "gamma", "scale": rng.choice([1, 0.5])},
                                                      {"type": "uniform", "offset": 1.5}, {"type": "normal", "std": 2}])
        feats["time_behavior"] = ic["instance"]["time_behavior"]["type"]
    if ("logistics" in ic and rng.random() < 0.4) or ("logistics" not in ic and rng.random() < 0.3):
        # (without a logistics section the default travel matrix has to cover every standalone buffer)
        gen.gen_custom_buffers(rng, d, nj)
        if rng.random() < 0.5:   # a third buffer: compensation role, or no role at all (default role)
            b3 = {"name": "b-2", "type": "flex_buffer", "capacity": nj, "role": "compensation"}
            if rng.random() < 0.4:
                del b3["role"]
            ic["buffer"].append(b3)
        if "logistics" not in ic:
            feats["custom_buffers_without_logistics"] = True
    # standalone buffers numbered ahead of the generated ids (b-0, b-1, b-7): generated ids must avoid them
    if "buffer" in ic and rng.random() < 0.5:
        nums = rng.sample(range(3, 12), len(ic["buffer"]))
        ren = {}
        for b, n in zip(ic["buffer"], nums):
            if rng.random() < 0.6:
                ren[b["name"]] = "b-%d" % n
                b["name"] = "b-%d" % n
        feats["renumbered_buffers"] = True
    # the logistics type key is optional
    if "logistics" in ic and rng.random() < 0.4:
        ic["logistics"].pop("type", None)
        feats["logistics_type_omitted"] = True
    # matrix rows in another order than the header columns (each row keeps its own label)
    if "logistics" in ic and rng.random() < 0.4:
        ls = [l for l in ic["logistics"]["specification"].split("\n") if l.strip()]
        rows = ls[1:]
        rng.shuffle(rows)
        ic["logistics"]["specification"] = "\n".join([ls[0]] + rows) + "\n"
        feats["permuted_travel_rows"] = True
    if "setup_times" in ic and rng.random() < 0.4:
        for e in ic["setup_times"]:
            ls = [l for l in e["specification"].split("\n") if l.strip()]
            rows = ls[1:]
            rng.shuffle(rows)
            e["specification"] = "\n".join([ls[0]] + rows) + "\n"
        feats["permuted_setup_rows"] = True
    # layout variants
    if rng.random() < 0.5:
        ic["instance"]["specification"] = "\n".join(
            ("  " + l + "  ").replace(" (", rng.choice([" (", "   (", " ("])) for l in ic["instance"]["specification"].split("\n")) + "\n\n"
    if "logistics" in ic and rng.random() < 0.5:
        sp = ic["logistics"]["specification"]
        if "buffer" not in ic:
            sp = sp.replace("in-buf", rng.choice(["input", "in-buf", "inbuf", "Input-Buffer"])).replace(
                "out-buf", rng.choice(["output", "out-buf", "Output"]))
        sp = "\n".join(l.replace(" ", rng.choice([" ", "  ", "\t"])) if "|" in l and k > 0 else l
                       for k, l in enumerate(sp.split("\n")))
        ic["logistics"]["specification"] = sp
    # init_state: explicit job locations (standalone buffers) and matching stores
    ini = d.setdefault("init_state", {})
    stdbufs = [b["name"] for b in ic.get("buffer", [])]
    if stdbufs and rng.random() < 0.6:
        locs = {}
        for j in range(nj):
            if rng.random() < 0.4:
                locs[j] = rng.choice([stdbufs[0], stdbufs[-1]])
                ini["j-%d" % j] = {"location": locs[j]}
        if rng.random() < 0.6:
            for b in set(locs.values()) | {stdbufs[0]}:
                here = [j for j in range(nj) if locs.get(j, stdbufs[0]) == b]
                rng.shuffle(here)
                if here and rng.random() < 0.35:
                    # partial listing: the jobs not listed are still located here and must be stored after the listed ones
                    here = here[: rng.randint(1, len(here))]
                    feats["partial_store_listing"] = True
                if here:
                    ini[b] = {"store": ["j-%d" % j for j in here]}
    if not ini:
        del d["init_state"]
    return d, feats


FOREIGN = {"IndexError", "KeyError", "ValueError", "TypeError", "AttributeError", "StopIteration", "ZeroDivisionError",
           "UnboundLocalError", "AssertionError", "RecursionError", "NameError"}


def malform(rng, d):
    """One malformed variant of a well-formed document; returns (doc, kind); doc is None when the chosen mutation
    does not apply to this document (it would leave it unchanged)."""
    orig = d
    d = copy.deepcopy(d)
    ic = d["instance_config"]
    spec = ic["instance"]["specification"]
    lines = [l for l in spec.split("\n")]
    jl = [k for k, l in enumerate(lines) if l.strip().startswith("j")]
    kind = rng.choice(["drop_op", "machine_oob", "no_description", "bad_cell", "neg_duration", "unknown_buffer_type",
                       "short_row", "setup_missing_machine", "tools_missing_job", "no_instance", "bad_header",
                       "neg_travel", "float_duration", "amount_missing", "garbage_line"])
    if kind == "drop_op" and jl:
        k = rng.choice(jl)
        lines[k] = lines[k][:lines[k].rfind("(")].rstrip()
        ic["instance"]["specification"] = "\n".join(lines)
    elif kind == "machine_oob" and jl:
        k = rng.choice(jl)
        lines[k] = lines[k].replace("(", "(9", 1)
        ic["instance"]["specification"] = "\n".join(lines)
    elif kind == "no_description":
        ic.pop("description", None)
    elif kind == "bad_cell" and "logistics" in ic:
        ic["logistics"]["specification"] = ic["logistics"]["specification"].replace(" ", " x", 1)
    elif kind == "neg_duration" and jl:
        k = rng.choice(jl)
        lines[k] = lines[k].replace(",", ",-", 1)
        ic["instance"]["specification"] = "\n".join(lines)
    elif kind == "unknown_buffer_type" and "machines" in ic and isinstance(ic["machines"], dict):
        ic["machines"]["prebuffer"] = [{"type": "stack"}]
    elif kind == "short_row" and "logistics" in ic:
        sp = ic["logistics"]["specification"].rstrip("\n").split("\n")
        r_ = rng.randrange(1, len(sp)) if len(sp) > 1 else -1
        sp[r_] = sp[r_].rsplit(None, 1)[0]
        ic["logistics"]["specification"] = "\n".join(sp) + "\n"
    elif kind == "setup_missing_machine" and "setup_times" in ic:
        ic["setup_times"] = ic["setup_times"][1:]
    elif kind == "tools_missing_job" and "tool_usage" in ic["instance"]:
        ic["instance"]["tool_usage"] = ic["instance"]["tool_usage"][1:]
    elif kind == "no_instance":
        ic.pop("instance", None)
    elif kind == "bad_header":
        ic["instance"]["specification"] = spec.replace("(m0,t)", "m0,t", 1)
    elif kind == "neg_travel" and "logistics" in ic:
        sp = ic["logistics"]["specification"].split("\n")
        rows = [k for k in range(1, len(sp)) if "|" in sp[k]]
        if rows:
            r_ = rng.choice(rows)                       # any row, any column (not only the last one)
            a, b = sp[r_].split("|", 1)
            vals = b.split()
            vals[rng.randrange(len(vals))] = "-4"
            sp[r_] = a + "|" + " ".join(vals)
            ic["logistics"]["specification"] = "\n".join(sp)
    elif kind == "float_duration" and jl:
        k = rng.choice(jl)
        lines[k] = lines[k].replace(")", ".5)", 1)
        ic["instance"]["specification"] = "\n".join(lines)
    elif kind == "amount_missing" and "logistics" in ic:
        ic["logistics"].pop("amount", None)
    elif kind == "garbage_line":
        lines.insert(rng.randint(1, len(lines)), "hello world")
        ic["instance"]["specification"] = "\n".join(lines)
    else:
        return None, kind
    if d == orig:
        return None, kind
    return d, kind


def _hash_probe(payload):
    """Compile documents in a fresh interpreter with a given PYTHONHASHSEED; returns serialized results."""
    import subprocess
    import sys
    hs, docs = payload
    code = (
        "import sys, json; sys.path.insert(0, %r); import jsl\n"
        "cfg = jsl.with_cfg(jsl.load_config(), early=True)\n"
        "docs = json.load(sys.stdin)\nout = []\n"
        "for d in docs:\n"
        "    try:\n"
        "        i, s = jsl.compile_dict(d, cfg); c = jsl.Codec(i, True)\n"
        "        i2, s2 = jsl.compile_dict(d, cfg); c2 = jsl.Codec(i2, True)\n"
        "        a = c.inst_sx + c.state(s) + c.labels_sx(); b = c2.inst_sx + c2.state(s2) + c2.labels_sx()\n"
        "        out.append([a, a == b])\n"
        "    except Exception as e:\n"
        "        out.append(['raise:' + type(e).__name__, True])\n"
        "print('@@' + json.dumps(out))\n") % (str(jsl.VERIF) + "/harness",)
    env = dict(os.environ, PYTHONHASHSEED=str(hs), PYTHONPATH=jsl.REPO, JSL_REPO=jsl.REPO)
    p = subprocess.run([sys.executable, "-c", code], input=json.dumps(docs), capture_output=True, text=True, env=env,
                       cwd=jsl.REPO, timeout=600)
    line = next((l for l in p.stdout.splitlines() if l.startswith("@@")), None)
    if line is None:
        raise RuntimeError("hash probe failed: " + p.stderr[-500:])
    return json.loads(line[2:])


def _direct_compile_oracles(d, inst, st):
    """Independent readings of the document compared with the compiled instance (no model involved):
    identifier uniqueness (C17) and the directed travel-time table (C16)."""
    vs = []
    ids = [m.id for m in inst.machines] + [t.id for t in inst.transports] + [b.id for b in inst.buffers]
    for m in inst.machines:
        ids += [m.prebuffer.id, m.buffer.id, m.postbuffer.id]
    ids += [t.buffer.id for t in inst.transports]
    for j in inst.instance.specification:
        ids.append(j.id)
        ids += [o.id for o in j.operations]
    dup = sorted(k for k, n in collections.Counter(ids).items() if n > 1)
    if dup:
        vs.append({"kind": "ids:duplicate", "detail": "compiled instance has duplicate identifiers %s" % dup[:4],
                   "replay": {"dsl": d}, "facts": {"n": len(dup)}})
    sids = [x.id for grp in (st.jobs, st.machines, st.transports, st.buffers) for x in grp]
    for m in st.machines:
        sids += [m.prebuffer.id, m.buffer.id, m.postbuffer.id]
    sids += [t.buffer.id for t in st.transports]
    dup = sorted(k for k, n in collections.Counter(sids).items() if n > 1)
    if dup:
        vs.append({"kind": "ids:duplicate_state", "detail": "compiled initial state has duplicate identifiers %s" % dup[:4],
                   "replay": {"dsl": d}, "facts": {"n": len(dup)}})
    # tools: operation k of job N uses the k-th tool written in the tool_usage entry that names jN (C16)
    tu = d["instance_config"].get("instance", {}).get("tool_usage")
    if tu:
        try:
            jobs = {int(j.id.split("-")[1]): j for j in inst.instance.specification}
            for e in tu:
                num = int(str(e["job"]).strip().lstrip("j").lstrip("-"))
                got = [o.tool for o in jobs[num].operations]
                if got != list(e["operation_tools"]):
                    vs.append({"kind": "tools:not_as_written", "detail": "job j-%d is written with tools %s but compiled with %s"
                               % (num, e["operation_tools"], got), "replay": {"dsl": d}, "facts": {"njobs": len(jobs)}})
                    break
        except Exception:  # noqa
            pass
    lg = d["instance_config"].get("logistics")
    if not lg:
        # documented default: no logistics section = zero travel time between all machines and standalone buffers
        places = [m.id for m in inst.machines] + [b.id for b in inst.buffers]
        tt = inst.logistics.travel_times
        missing = [(a, b) for a in places for b in places if getattr(tt.get((a, b)), "time", None) != 0]
        if missing:
            vs.append({"kind": "travel:default_missing", "detail": "no logistics section, but the default (zero) travel time "
                       "is missing for %d directed pairs, e.g. %s" % (len(missing), missing[:3]), "replay": {"dsl": d},
                       "facts": {}})
    if lg and "specification" in lg and "time_behavior" not in lg:
        ls = [l for l in lg["specification"].split("\n") if l.strip()]
        hdr = [h.strip() for h in ls[0].split("|")]
        tt = inst.logistics.travel_times
        # names of the default buffers as the mapper resolves them: compare only machine-to-machine entries,
        # whose naming is unambiguous
        for l in ls[1:]:
            lab, vals = l.split("|", 1)
            lab = lab.strip()
            vals = vals.split()
            for h, v in zip(hdr, vals):
                if lab.startswith("m-") and h.startswith("m-"):
                    got = tt.get((lab, h))
                    if got is None or getattr(got, "time", None) != int(v):
                        vs.append({"kind": "travel:wrong_entry", "detail": "document says travel %s -> %s takes %s, compiled "
                                   "instance says %s" % (lab, h, v, getattr(got, "time", got)), "replay": {"dsl": d},
                                   "facts": {}})
                        return vs
    return vs


def setup_matrix_oracle(d, inst):
    """Direct reading of the document's setup matrices compared with the compiled machines (C09, C16):
    machine m's entry (from-tool row, to-tool column) is the number written in m's own matrix."""
    vs = []
    st = d["instance_config"].get("setup_times") or []
    bym = {m.id: m for m in inst.machines}
    for e in st:
        if e.get("time_behavior", "static") not in ("static", None):
            continue
        m = bym.get(e["machine"])
        if m is None:
            continue
        ls = [l for l in e["specification"].split("\n") if l.strip()]
        hdr = [h.strip() for h in ls[0].split("|")]
        for l in ls[1:]:
            lab, vals = l.split("|", 1)
            lab = lab.strip()
            for h, v in zip(hdr, vals.split()):
                got = m.setup_times.get((lab, h))
                if got is None or getattr(got, "time", None) != int(v):
                    vs.append({"kind": "setup:wrong_entry", "detail": "document says setup %s -> %s on %s takes %s, compiled "
                               "machine says %s" % (lab, h, m.id, v, getattr(got, "time", got)), "replay": {"dsl": d},
                               "facts": {}})
                    return vs
    return vs


def outage_oracle(d, inst):
    """Direct reading of the document's outage entries compared with the compiled components (C16, C10): machine m carries exactly
    the entries whose `component` is m's own id or one of the names for all machines, every AGV exactly the entries named for
    transports (AGV logistics only: the default one-AGV-per-job logistics carries none); counts and, for plain numbers, the
    (duration, frequency) pairs in document order."""
    vs = []
    outs = d["instance_config"].get("outages") or []
    def plain(e):
        return [(e["duration"], e["frequency"])] if isinstance(e["duration"], int) and isinstance(e["frequency"], int) else None
    def values(cfgs):
        r = []
        for o in cfgs:
            dv, fv = getattr(o.duration, "time", None), getattr(o.frequency, "time", None)
            r.append((dv, fv))
        return r
    for m in inst.machines:
        want = [e for e in outs if e["component"] in ("m", "machine", "Machine", "MACHINE", m.id)]
        if len(m.outages) != len(want):
            vs.append({"kind": "outages:machine_count", "detail": "machine %s compiled with %d outage(s), the document gives it %d "
                       "(entries naming %s or all machines)" % (m.id, len(m.outages), len(want), m.id), "replay": {"dsl": d}, "facts": {}})
            return vs
        if all(plain(e) for e in want):
            got = values(m.outages)
            exp = [plain(e)[0] for e in want]
            if all(isinstance(a, int) and isinstance(b, int) for a, b in got) and got != exp:
                vs.append({"kind": "outages:machine_values", "detail": "machine %s: compiled (duration, frequency) %s, document %s"
                           % (m.id, got, exp), "replay": {"dsl": d}, "facts": {}})
                return vs
    lg = d["instance_config"].get("logistics") or {}
    if "type" in lg:
        want = [e for e in outs if e["component"] in ("t", "transport", "Transport", "TRANSPORT")]
        for t in inst.transports:
            if len(t.outages) != len(want):
                vs.append({"kind": "outages:transport_count", "detail": "transport %s compiled with %d outage(s), the document gives %d"
                           % (t.id, len(t.outages), len(want)), "replay": {"dsl": d}, "facts": {}})
                return vs
    return vs


def time_behavior_oracle(d, inst):
    """Direct reading of instance.time_behavior: the compiled processing-time objects carry the distribution and the
    parameters written in the document (uniform: base -/+ offset; gaussian: std; gamma: scale; poisson: mean base+0.5)."""
    vs = []
    tb = d["instance_config"]["instance"].get("time_behavior")
    if not isinstance(tb, dict):
        return vs
    kind = str(tb.get("type"))
    for j in inst.instance.specification:
        for o in j.operations:
            c = o.duration
            name = type(c).__name__
            base = getattr(c, "base_time", None)
            ok = True
            if kind in ("uni", "uniform"):
                off = float(tb["offset"])
                ok = name == "UniformFunction" and getattr(c, "low", None) == base - off and getattr(c, "high", None) == base + off
            elif kind in ("gaussian", "normal"):
                ok = name == "GaussianFunction" and getattr(c, "std", None) == float(tb["std"])
            elif kind == "gamma":
                ok = name == "GammaFunction" and getattr(c, "scale", None) == float(tb["scale"])
            elif kind == "poisson":
                ok = name == "PoissonFunction" and getattr(c, "mean", None) == base + 0.5
            if not ok:
                vs.append({"kind": "time_behavior:wrong_parameters", "detail": "document says %s, compiled duration object of %s "
                           "is %r" % (tb, o.id, c), "replay": {"dsl": d}, "facts": {}})
                return vs
    return vs


def c09_compile_stage(ctx):
    """C09 names the compiler too: the matrix a machine uses is the one written for that machine. Documents with
    up to 13 machines (two-digit machine numbers), each machine with its own matrix; compile only."""
    rng = random.Random(ctx.seed + 909)
    cfg = jsl.with_cfg(jsl.load_config(), early=True)
    n = 40 if ctx.quick() else 400
    checked = 0
    for k in range(n):
        nm = rng.choice([2, 3, 11, 12, 13])
        d, feats = gen.gen_instance(rng, "full", nj=rng.randint(1, 3), nm=nm)
        if rng.random() < 0.5:
            # rows of the setup matrices in another order than the header columns (each row keeps its label)
            for e in d["instance_config"].get("setup_times", []):
                ls = [l for l in e["specification"].split("\n") if l.strip()]
                rows = ls[1:]
                rng.shuffle(rows)
                e["specification"] = "\n".join([ls[0]] + rows) + "\n"
        try:
            inst, st = jsl.compile_dict(d, cfg)
        except Exception as e:  # noqa
            ctx.viol("compile:wellformed_rejected", "well-formed document raised %s" % type(e).__name__, {"dsl": d},
                     facts={"exception": type(e).__name__})
            continue
        checked += 1
        for v in setup_matrix_oracle(d, inst):
            ctx.violations.append(v)
        # "initially the default tool": every machine starts with tl-0 mounted, whatever its matrix lists first
        wrong = [(m.id, m.mounted_tool) for m in st.machines if m.mounted_tool != "tl-0"]
        if wrong:
            ctx.viol("setup:initial_tool", "machines do not start with the default tool tl-0 mounted: %s" % wrong[:3],
                     {"dsl": d}, facts={})
    ctx.coverage["setup_matrices_documents_checked"] = checked


def _has_stochastic(d):
    txt = json.dumps(d)
    return "time_behavior" in txt and any(w in txt for w in ("uni", "gauss", "normal", "poisson", "gamma"))


def _dsl_worker(args):
    seed, n, big, prop = args
    import dsl_tok
    import sxdiff
    rng = random.Random(seed)
    drv = jsl.Driver()
    cfg = jsl.with_cfg(jsl.load_config(), early=True)
    out = {"docs": 0, "agree": 0, "unsupported": 0, "violations": [], "disagreements": [], "malformed": 0,
           "malformed_kinds": collections.Counter(), "malformed_outcomes": collections.Counter(), "samples": [],
           "sizes": collections.Counter(), "sections": collections.Counter(), "init_checked": 0, "docs_for_hash": []}
    import jobshoplab.utils.exceptions as jex
    lib_errors = {n_ for n_ in dir(jex) if isinstance(getattr(jex, n_), type)}
    for k in range(n):
        d, feats = gen_doc(rng, big)
        out["docs"] += 1
        out["sizes"]["%dx%d" % (feats["nj"], feats["nm"])] += 1
        for sec in ("logistics", "buffer", "machines", "setup_times", "outages"):
            if sec in d["instance_config"]:
                out["sections"][sec] += 1
        if "init_state" in d:
            out["sections"]["init_state"] += 1
        try:
            comp = jsl.make_compiler(d, cfg)
            inst, st = comp.compile()
            for v in _direct_compile_oracles(d, inst, st) + setup_matrix_oracle(d, inst) + time_behavior_oracle(d, inst) + outage_oracle(d, inst):
                out["violations"].append(v)
            if prop == "C17" and k % 3 == 0 and not _has_stochastic(d):
                # "compiling the same text again gives an equal instance and initial state": also when the SAME
                # Compiler object compiles again (the environment compiles on every reset)
                inst2, st2 = comp.compile()
                out["recompiled"] = out.get("recompiled", 0) + 1
                if inst2 != inst or st2 != st:
                    diff = [f for f in ("machines", "transports", "buffers", "outages", "instance", "logistics")
                            if getattr(inst, f, None) != getattr(inst2, f, None)]
                    out["violations"].append({"kind": "determinism:recompile", "detail": "the same Compiler object compiles the "
                                              "same document to a different result the second time (differs in %s, state equal: %s)"
                                              % (diff, st2 == st), "replay": {"dsl": d}, "facts": {"fields": diff}})
            c = jsl.Codec(inst, True)
            impl = "(ok %s %s %s)" % (c.inst_sx, c.state(st), c.labels_sx())
        except jsl.Unsupported as e:
            out["unsupported"] += 1
            continue
        except Exception as e:  # noqa
            impl = "(raise)"
            inst = None
            out["violations"].append({"kind": "compile:wellformed_rejected", "detail": "well-formed document raised %s: %s"
                                      % (type(e).__name__, str(e)[:100]), "replay": {"dsl": d},
                                      "facts": {"exception": type(e).__name__, "njobs": feats["nj"]}})
        try:
            tok = dsl_tok.tokenize(d)
            m = drv.ask("DC %s 1" % tok)
            if m.startswith("(raise"):
                m = "(raise)"
            if m == impl:
                out["agree"] += 1
            else:
                out["disagreements"].append({"where": "Compiler.compile vs Dsl.compile", "replay": {
                    "dsl": d, "impl": impl[:3000], "model": m[:3000]}})
        except jsl.Unsupported:
            out["unsupported"] += 1
        if len(out["samples"]) < 1:
            out["samples"].append({"dsl": d})
        if inst is not None:
            # C17: the compiled initial state is well formed (the theorem's predicates on the implementation's output)
            drv.set_codec(c)
            v = drv.ask("M " + c.state(st))
            bits = v.strip("()").split()
            import trace as _t
            names = _t.CLAUSES
            out["init_checked"] += 1
            for nme, b in zip(names, bits):
                if b != "1" and nme in ("placement", "loc", "mach_hold", "agv_hold", "claims", "capacity", "flags",
                                        "no_overdue", "agv_phase", "idle_unclaimed"):
                    out["violations"].append({"kind": "init:" + nme, "detail": "compiled initial state violates clause " + nme,
                                              "replay": {"dsl": d}, "facts": {"clause": nme}})
            if len(out["docs_for_hash"]) < 12 and "time_behavior" not in feats:
                # (stochastic objects take their start seeds from the global numpy state at compile time: such documents
                #  are compared across processes by C13 with seeding, not here)
                out["docs_for_hash"].append(d)
        # job labels: swapping the labels of two job lines must swap the jobs (or be rejected)
        if prop == "C16" and feats["nj"] >= 2 and inst is not None and rng.random() < 0.3:
            d2 = copy.deepcopy(d)
            lines = d2["instance_config"]["instance"]["specification"].split("\n")
            jl = [q for q, l in enumerate(lines) if l.strip().startswith("j")]
            a, b = jl[0], jl[1]
            la, lb = lines[a].split("|", 1), lines[b].split("|", 1)
            lines[a], lines[b] = lb[0] + "|" + la[1], la[0] + "|" + lb[1]
            d2["instance_config"]["instance"]["specification"] = "\n".join(lines)
            out["malformed_kinds"]["swap_job_labels"] += 1
            try:
                i3, _ = jsl.compile_dict(d2, cfg)
                def ops(i, k):
                    return [(o.machine, o.duration.time) for o in i.instance.specification[k].operations]
                if ops(i3, 0) != ops(inst, 1) or ops(i3, 1) != ops(inst, 0):
                    out["violations"].append({"kind": "labels:ignored", "detail": "the job labelled j1 (written first) was "
                                              "compiled as job 0: labels are ignored, line order defines the job number",
                                              "replay": {"dsl": d2}, "facts": {}})
            except Exception as e:  # noqa
                pass
        # malformed variants
        if prop == "C16":
            bad, kind = malform(rng, d)
            if bad is not None:
                out["malformed"] += 1
                out["malformed_kinds"][kind] += 1
                try:
                    i2, s2 = jsl.compile_dict(bad, cfg)
                    outcome = "accepted"
                except Exception as e:  # noqa
                    outcome = type(e).__name__
                out["malformed_outcomes"]["%s:%s" % (kind, outcome)] += 1
                if outcome in FOREIGN or (outcome != "accepted" and outcome not in lib_errors):
                    out["violations"].append({"kind": "reject:foreign_exception", "detail": "malformed document (%s) raised %s "
                                              "instead of a jobshoplab error" % (kind, outcome), "replay": {"dsl": bad},
                                              "facts": {"mutation": kind, "exception": outcome}})
                elif outcome == "accepted" and kind in ("drop_op", "machine_oob", "bad_cell", "neg_duration", "short_row",
                                                        "setup_missing_machine", "tools_missing_job", "bad_header",
                                                        "float_duration", "neg_travel", "garbage_line", "unknown_buffer_type"):
                    out["violations"].append({"kind": "reject:accepted", "detail": "malformed document (%s) was compiled"
                                              % kind, "replay": {"dsl": bad}, "facts": {"mutation": kind}})
    for key in ("malformed_kinds", "malformed_outcomes", "sizes", "sections"):
        out[key] = dict(out[key])
    drv.close()
    return out


def _dsl_check(ctx, prop):
    rng = random.Random(ctx.seed + (16 if prop == "C16" else 17))
    if ctx.quick():
        args = [(rng.randrange(1 << 30), 60, (k % 2 == 1), prop) for k in range(4)]
    else:
        args = [(rng.randrange(1 << 30), 500, (k % 2 == 1), prop) for k in range(16)]
    outs = _pool_map(_dsl_worker, args)
    tot = collections.Counter()
    agg = {k: collections.Counter() for k in ("malformed_kinds", "malformed_outcomes", "sizes", "sections")}
    hash_docs = []
    for o in outs:
        for k in ("docs", "agree", "unsupported", "malformed", "init_checked"):
            tot[k] += o[k]
        tot["recompiled"] += o.get("recompiled", 0)
        for k in agg:
            agg[k].update(o[k])
        ctx.violations.extend(o["violations"])
        for dd in o["disagreements"][:5]:
            ctx.broken_correspondence.append("model and implementation differ in %s" % dd["where"])
            ctx.coverage.setdefault("disagreement_samples", []).append(dd["replay"])
        ctx.samples.extend(o["samples"][:1])
        hash_docs.extend(o["docs_for_hash"])
    if prop == "C17":
        ctx.coverage["documents_compiled_twice_by_one_compiler"] = tot["recompiled"]
    ctx.coverage.update({
        "evaluations": tot["docs"] + tot["malformed"], "distinct_nontrivial": tot["docs"] + tot["malformed"],
        "rule": "one evaluation = one document compiled by the real Compiler (validator + mappers): well-formed documents "
                "(random optional-section combinations, layout variants, custom buffers, init_state with locations/stores, "
                "1-12 jobs) compared as a whole (instance, initial state, buffer labels) with the extracted Coq compiler model "
                "run on an independently tokenised document; one malformed variant per document (15 mutation kinds)",
        "traces_validated_against_impl": tot["agree"], "documents": tot["docs"], "model_agreements": tot["agree"],
        "outside_model": tot["unsupported"], "malformed_documents": tot["malformed"],
        "malformed_kinds": dict(agg["malformed_kinds"]), "malformed_outcomes": dict(agg["malformed_outcomes"]),
        "instance_sizes": dict(agg["sizes"]), "sections_present": dict(agg["sections"]),
        "initial_states_checked": tot["init_checked"],
    })
    return hash_docs


def c16(ctx):
    _dsl_check(ctx, "C16")
    ctx.violations = [v for v in ctx.violations if not v["kind"].startswith("init:") and not v["kind"].startswith("ids:")]
    # spec files and the equivalent DSL text compile to the same problem
    from pathlib import Path
    from jobshoplab.compiler import Compiler
    from jobshoplab.compiler.repos import SpecRepository
    cfg = jsl.with_cfg(jsl.load_config(), early=True)
    n = 0
    files = sorted(f for f in (Path(jsl.REPO) / "data" / "jssp_instances" / "spec_files").iterdir() if f.is_file())
    rng = random.Random(ctx.seed)
    pick = files if not ctx.quick() else rng.sample(files, min(12, len(files)))
    for f in pick:
        try:
            repo = SpecRepository(dir=f, loglevel="error", config=cfg)
            i1, s1 = Compiler(cfg, loglevel="error", repo=repo).compile()
            lines = [l for l in f.read_text().splitlines() if l.strip() and not l.strip().startswith("#")]
            first = next(k for k, l in enumerate(lines) if len(l.split()) == 2)
            routes = []
            for l in lines[first + 1:]:
                nums = [int(z) for z in l.split()]
                routes.append([(nums[k], nums[k + 1]) for k in range(0, len(nums), 2)])
            i2, s2 = jsl.compile_dict(classic_dict(routes), cfg)
            c1, c2 = jsl.Codec(i1, True), jsl.Codec(i2, True)
            n += 1
            if c1.inst_sx != c2.inst_sx or c1.state(s1) != c2.state(s2):
                ctx.viol("spec:differs", "spec file %s and the equivalent DSL text compile to different problems" % f.name,
                         {"file": str(f)})
        except Exception as e:  # noqa
            ctx.viol("spec:raises", "spec file %s: %s" % (f.name, type(e).__name__), {"file": str(f)},
                     facts={"exception": type(e).__name__})
    ctx.coverage["spec_files_compared_with_dsl"] = n
    # generated spec files in layout variants (comment lines, blank lines after the header / between rows / at the
    # end, extra blanks and tabs): each must compile to the problem its rows describe
    tmpd = ctx.verif / "work" / "tmp_spec"
    tmpd.mkdir(parents=True, exist_ok=True)
    nv = 0
    for k in range(20 if ctx.quick() else 200):
        nj, nm = rng.randint(1, 6), rng.randint(2, 5)
        routes = gen.gen_routes(rng, nj, nm, zero_p=0.0)
        lines = ["# generated", "#+++ two tokens"] if rng.random() < 0.5 else []
        lines.append("%d %d" % (nj, nm))
        if rng.random() < 0.4:
            lines.append("")
        for r in routes:
            sep = rng.choice([" ", "  ", "\t"])
            lines.append(rng.choice(["", " "]) + sep.join("%d%s%d" % (m, sep, dd) for m, dd in r) + rng.choice(["", " ", "  "]))
            if rng.random() < 0.25:
                lines.append(rng.choice(["", "   "]))
        text = "\n".join(lines) + rng.choice(["", "\n", "\n\n"])
        f = tmpd / ("gen_%d_%d" % (ctx.seed % 100000, k))
        f.write_text(text)
        try:
            repo = SpecRepository(dir=f, loglevel="error", config=cfg)
            i1, s1 = Compiler(cfg, loglevel="error", repo=repo).compile()
            i2, s2 = jsl.compile_dict(classic_dict(routes), cfg)
            c1, c2 = jsl.Codec(i1, True), jsl.Codec(i2, True)
            nv += 1
            if c1.inst_sx != c2.inst_sx or c1.state(s1) != c2.state(s2):
                ctx.viol("spec:differs", "a generated spec file (layout variant) and the equivalent DSL text compile to "
                         "different problems (%d jobs written, %d compiled)" % (nj, len(i1.instance.specification)),
                         {"spec_text": text})
        except Exception as e:  # noqa
            ctx.viol("spec:raises", "generated spec file (layout variant): %s" % type(e).__name__, {"spec_text": text},
                     facts={"exception": type(e).__name__, "generated": True})
        finally:
            try:
                f.unlink()
            except OSError:
                pass
    ctx.coverage["generated_spec_layout_variants"] = nv


def c17(ctx):
    docs = _dsl_check(ctx, "C17")
    ctx.violations = [v for v in ctx.violations if v["kind"].startswith("init:") or v["kind"].startswith("ids:")
                      or v["kind"].startswith("determinism:") or v["kind"] == "compile:wellformed_rejected"]
    # same text, other interpreter processes with different string hashing
    docs = docs[: (16 if ctx.quick() else 80)]
    seeds = [0, 1, 4242, 31337] if ctx.quick() else [0, 1, 2, 3, 17, 4242, 31337, 99991]
    res = _pool_map(_hash_probe, [(hs, docs) for hs in seeds])
    ndiff = 0
    for k, d in enumerate(docs):
        vals = {r[k][0] for r in res}
        same_twice = all(r[k][1] for r in res)
        if len(vals) != 1 or not same_twice:
            ndiff += 1
            ctx.viol("determinism:differs", "the same document compiles differently across PYTHONHASHSEED values or twice "
                     "in one process", {"dsl": d, "hash_seeds": seeds})
    ctx.coverage["documents_recompiled_across_hash_seeds"] = len(docs)
    ctx.coverage["hash_seeds"] = seeds


# ----------------------------------------------------------------------------------------
# C13: determinism across processes


def _c13_probe(payload):
    import subprocess
    import sys
    hs, mode, cases, pseed = payload
    env = dict(os.environ, PYTHONHASHSEED=str(hs), PYTHONPATH=jsl.REPO, JSL_REPO=jsl.REPO)
    p = subprocess.run([sys.executable, str(jsl.VERIF) + "/harness/c13_probe.py"],
                       input=json.dumps({"mode": mode, "cases": cases, "probe_seed": pseed}),
                       capture_output=True, text=True, env=env, cwd=jsl.REPO, timeout=1200)
    line = next((l for l in p.stdout.splitlines() if l.startswith("@@")), None)
    if line is None:
        raise RuntimeError("C13 probe failed: " + p.stderr[-800:])
    return json.loads(line[2:])


def c13(ctx):
    rng = random.Random(ctx.seed + 13)
    n = 10 if ctx.quick() else 60
    cases = []
    for k in range(n):
        prof = ["classic", "transport", "full", "stoch", "stoch", "buffers"][k % 6]
        d, feats = gen.gen_instance(rng, prof)
        acts = [1 if rng.random() < 0.8 else 0 for _ in range(rng.randint(5, 60))]
        cases.append({"dsl": d, "cfg": {"early": rng.random() < 0.6, "trunc_active": False},
                      "seed": rng.choice([0, 0, 1, rng.randint(2, 1000), rng.randint(2, 2**31 - 1)]),   # boundary seeds on purpose
                      "actions": acts, "resets": rng.choice([0, 1, 2]),
                      "stochastic": prof == "stoch"})
    # deterministic instances additionally with another seed: the outcome must not depend on the seed at all
    variants = []
    for c in cases:
        if not c["stochastic"]:
            c2 = dict(c)
            c2["seed"] = c["seed"] + 991
            variants.append(c2)
    probes = [(0, "plain", cases, 1), (1, "plain", cases, 1), (4242, "polluted", cases, 2), (31337, "interleaved", cases, 3),
              (7, "polluted", cases, 4), (11, "shared", cases, 9)]
    if not ctx.quick():
        probes += [(99991, "interleaved", cases, 5), (2, "plain", cases, 6), (123, "polluted", cases, 7), (77, "shared", cases, 10)]
    probes.append((5, "plain", variants, 8))
    res = _pool_map(_c13_probe, probes)
    base = res[0]
    nsteps = 0
    for k, c in enumerate(cases):
        nsteps += len(base[k])
        if base[k] and (base[k][0].startswith("error") or base[k][0] == "unsupported"):
            continue
        for (hs, mode, _, _), r in zip(probes[1:-1], res[1:-1]):
            if r[k] != base[k]:
                first = next((q for q, (a, b) in enumerate(zip(r[k], base[k])) if a != b), min(len(r[k]), len(base[k])))
                ctx.viol("determinism:differs", "same configuration, seed and actions give a different episode in another "
                         "process (PYTHONHASHSEED=%s, mode=%s) from position %d on" % (hs, mode, first),
                         {"case": c, "hash_seed": hs, "mode": mode, "first_difference": first,
                          "reference": base[k][:first + 2], "other": r[k][:first + 2]},
                         facts={"mode": mode, "stochastic": c["stochastic"]})
                break
    vi = 0
    for k, c in enumerate(cases):
        if c["stochastic"]:
            continue
        r = res[-1][vi]
        vi += 1
        if r != base[k] and not (r and r[0].startswith("error")):
            ctx.viol("determinism:seed_dependent", "a deterministic instance gives a different episode with another seed",
                     {"case": c}, facts={"stochastic": False})
    ctx.coverage.update({
        "evaluations": nsteps * (len(probes) - 1), "distinct_nontrivial": nsteps,
        "rule": "one evaluation = one step digest (serialized state + observation + reward + flags) of an episode replayed "
                "in a fresh interpreter: %d cases x %d interpreters with different PYTHONHASHSEED, with the global "
                "random/numpy/torch generators consumed beforehand and between resets ('polluted'), with a second "
                "environment stepped in between ('interleaved'), and with a second environment built from the same Compiler "
                "object that runs first and in between ('shared'); deterministic instances additionally with another seed"
                % (len(cases), len(probes)),
        "traces_validated_against_impl": len(cases) * (len(probes) - 1), "cases": len(cases),
        "interpreters": [(p[0], p[1]) for p in probes], "stochastic_cases": sum(1 for c in cases if c["stochastic"]),
    })
    ctx.samples.append({"case": {k: v for k, v in cases[0].items() if k != "dsl"}, "digests": base[0][:4]})
    ctx.assumptions.append("numpy/torch generators are assumed to be functions of their seed; interpreter hash randomisation "
                           "and object sharing are exercised by the cross-process runs, not proved")


TABLE = {"C06": c06, "C19": c19, "C14": c14, "C15": c15, "C16": c16, "C17": c17, "C13": c13}
