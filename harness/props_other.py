"""Checks of the non-SM engines: Classic (C06), Obs/Reward (C19, C14, C15), Dsl (C16, C17), Seed (C13)."""
import collections
import copy
import dataclasses
import itertools
import json
import math
import multiprocessing
import os
import random
from fractions import Fraction

import gen
import jsl


def _pool_map(fn, args):
    ncpu = os.cpu_count() or 4
    with multiprocessing.get_context("fork").Pool(min(len(args), ncpu)) as pool:
        return pool.map(fn, args, chunksize=1)


def routes_sx(routes):
    return "(" + " ".join("(" + " ".join("(%d %d)" % (m, d) for m, d in ops) + ")" for ops in routes) + ")"


def classic_dict(routes):
    return {"title": "InstanceConfig", "instance_config": {"description": "classic", "instance": {
        "description": "c", "specification": gen.job_spec_text(routes)}}}


# ----------------------------------------------------------------------------------------
# brute force optimum of a small classic instance: enumerate machine orders, longest path


def brute_opt(routes):
    nm = len(routes[0])
    ops_on = collections.defaultdict(list)
    for j, ops in enumerate(routes):
        for k, (m, d) in enumerate(ops):
            ops_on[m].append((j, k))
    best = None
    machines = sorted(ops_on)
    for orders in itertools.product(*[itertools.permutations(ops_on[m]) for m in machines]):
        start = {}
        # iterate to fixpoint (n^2), detect cycles by bound
        preds = collections.defaultdict(list)
        for j, ops in enumerate(routes):
            for k in range(1, len(ops)):
                preds[(j, k)].append((j, k - 1))
        for order in orders:
            for a, b in zip(order, order[1:]):
                preds[b].append(a)
        nodes = [(j, k) for j, ops in enumerate(routes) for k in range(len(ops))]
        val = {n: 0 for n in nodes}
        ok = True
        for it in range(len(nodes) + 1):
            changed = False
            for n in nodes:
                v = max([val[p] + routes[p[0]][p[1]][1] for p in preds[n]] + [0])
                if v > val[n]:
                    val[n] = v
                    changed = True
            if not changed:
                break
        else:
            ok = False
        if not ok:
            continue
        mk = max(val[n] + routes[n[0]][n[1]][1] for n in nodes)
        if best is None or mk < best:
            best = mk
    return best


# ----------------------------------------------------------------------------------------
# C06


def _c06_worker(args):
    seed, n_lb, tiny, big = args
    rng = random.Random(seed)
    from jobshoplab.utils.utils import calculate_lower_bound, get_max_allowed_time
    drv = jsl.Driver()
    cfg = jsl.with_cfg(jsl.load_config(), early=True, trunc_active=False)
    out = {"lb_cases": 0, "violations": [], "disagreements": [], "opt_cases": 0, "tree_nodes": 0, "samples": [],
           "sizes": collections.Counter()}
    # 1. lower bound: model vs implementation, classic and non-classic (repeated machines) instances
    for k in range(n_lb):
        nj, nm = rng.randint(2, 10 if big else 6), rng.randint(2, 10 if big else 5)
        routes = gen.gen_routes(rng, nj, nm, maxd=rng.choice([3, 9, 99]), repeats=(rng.random() < 0.3),
                                zero_p=rng.choice([0.0, 0.2, 0.6]))
        inst, _ = jsl.compile_dict(classic_dict(routes), cfg)
        lb = calculate_lower_bound(inst)
        tm = get_max_allowed_time(inst)
        m = drv.ask("LB " + routes_sx(routes))
        out["lb_cases"] += 1
        out["sizes"]["%dx%d" % (nj, nm)] += 1
        if m != "(lb %d %d)" % (lb, tm):
            out["disagreements"].append({"where": "calculate_lower_bound / get_max_allowed_time",
                                         "replay": {"routes": routes, "impl": [lb, tm], "model": m}})
        if k < 2:
            out["samples"].append({"routes": routes, "lower_bound": lb, "max_allowed_time": tm})
    # 2. tiny classic instances: LB <= OPT (lb_sound) and min over all agent behaviours = OPT
    for (nj, nm, maxd) in tiny:
        routes = gen.gen_routes(rng, nj, nm, maxd=maxd, repeats=False, zero_p=0.1)
        d = classic_dict(routes)
        inst, _ = jsl.compile_dict(d, cfg)
        lb = calculate_lower_bound(inst)
        opt = brute_opt(routes)
        out["opt_cases"] += 1
        if lb > opt:
            out["violations"].append({"kind": "lb:exceeds_optimum", "detail": "lower bound %d > optimum %d" % (lb, opt),
                                      "replay": {"routes": routes}})
        best, nodes, ends = explore_min_makespan(d, cfg)
        out["tree_nodes"] += nodes
        if best != opt:
            out["violations"].append({"kind": "opt:unreachable" if (best is None or best > opt) else "opt:shortcut",
                                      "detail": "minimum makespan over all accept/decline behaviours = %s, optimum = %s"
                                      % (best, opt), "replay": {"routes": routes, "ends": ends}})
    out["sizes"] = dict(out["sizes"])
    drv.close()
    return out


def explore_min_makespan(d, cfg, max_nodes=400000):
    """Exhaustive search over accept/decline sequences of the real environment (functional middleware API).
    The only pruning: never decline the last offer while nothing at all is in progress (that adds one idle time
    unit and returns to the same shop)."""
    import trace
    env = trace.make_env(d, cfg, None)
    sim = env.state_simulator
    inst = env.instance
    from jobshoplab.state_machine.core.state_machine import is_done
    from jobshoplab.types.state_types import OperationStateState as OS
    from jobshoplab.types.state_types import TransportStateState as TS
    codec = jsl.Codec(inst, cfg.state_machine.allow_early_transport)
    best = [None]
    seen = set()
    nodes = [0]
    ends = collections.Counter()
    stack = [env.state]
    while stack:
        r = stack.pop()
        nodes[0] += 1
        if nodes[0] > max_nodes:
            ends["node_budget"] += 1
            break
        if is_done(r.state, inst):
            mk = r.state.time.time
            ends["terminal"] += 1
            if best[0] is None or mk < best[0]:
                best[0] = mk
            continue
        if not r.possible_transitions:
            ends["deadlock"] += 1
            continue
        key = (codec.state(r.state), codec.transitions(r.possible_transitions))
        if key in seen:
            continue
        seen.add(key)
        if best[0] is not None and r.state.time.time >= best[0]:
            continue  # the clock never decreases: cannot improve
        for a in (1, 0):
            if a == 0 and len(r.possible_transitions) == 1:
                busy = any(o.operation_state_state == OS.PROCESSING for j in r.state.jobs for o in j.operations) or \
                    any(t.state != TS.IDLE for t in r.state.transports)
                if not busy:
                    continue
            try:
                r2, _ = sim.step(r, a)
            except Exception as e:  # noqa
                ends["raise:" + type(e).__name__] += 1
                continue
            if not r2.success:
                ends["failed"] += 1
                continue
            stack.append(r2)
    return best[0], nodes[0], dict(ends)


def c06(ctx):
    rng = random.Random(ctx.seed + 6)
    if ctx.quick():
        args = [(rng.randrange(1 << 30), 60, [(2, 2, 4), (2, 3, 3), (3, 2, 3), (2, 2, 9)], False) for _ in range(4)]
    else:
        args = [(rng.randrange(1 << 30), 400, [(2, 2, 9), (2, 3, 4), (3, 2, 4), (3, 3, 3), (2, 4, 3)], True) for _ in range(16)]
    outs = _pool_map(_c06_worker, args)
    tot = collections.Counter()
    sizes = collections.Counter()
    for o in outs:
        tot["lb_cases"] += o["lb_cases"]
        tot["opt_cases"] += o["opt_cases"]
        tot["tree_nodes"] += o["tree_nodes"]
        sizes.update(o["sizes"])
        ctx.violations.extend(o["violations"])
        for dd in o["disagreements"]:
            ctx.broken_correspondence.append("model and implementation differ in %s" % dd["where"])
            ctx.coverage.setdefault("disagreement_samples", []).append(dd["replay"])
        ctx.samples.extend(o["samples"][:1])
    ctx.coverage.update({
        "evaluations": tot["lb_cases"] + tot["opt_cases"], "distinct_nontrivial": tot["lb_cases"] + tot["opt_cases"],
        "rule": "lower-bound cases: random n x m routings (30% with repeated machines, zero durations included), model "
                "lower_bound/total_work vs utils.calculate_lower_bound/get_max_allowed_time; optimum cases: tiny classic "
                "instances, brute-force optimum over all machine orders vs the minimum makespan over the complete "
                "accept/decline tree of the real environment (pruned only by 'never idle-decline when nothing is in progress')",
        "traces_validated_against_impl": tot["lb_cases"], "lower_bound_cases": tot["lb_cases"],
        "optimum_cases": tot["opt_cases"], "decision_tree_nodes_explored": tot["tree_nodes"], "instance_sizes": dict(sizes),
    })
    ctx.search_note = "brute-force optimum and exhaustive decision trees on %d tiny instances" % tot["opt_cases"]


# ----------------------------------------------------------------------------------------
# C19


def frac(x):
    return Fraction(str(x))


def _c19_worker(args):
    seed, n = args
    import trace
    import batch
    rng = random.Random(seed)
    from jobshoplab.utils.utils import calculate_lower_bound, get_max_allowed_time
    drv = jsl.Driver()
    base = jsl.load_config()
    out = {"steps": 0, "episodes": 0, "violations": [], "disagreements": [], "terminal": 0, "truncated": 0,
           "pairs": 0, "samples": [], "ends": collections.Counter()}
    for k in range(n):
        prof = rng.choice(["classic", "classic", "transport", "buffers", "full"])
        d, feats = gen.gen_instance(rng, prof)
        sb = rng.choice([1, 1, 2, 0.5, 10])
        db = rng.choice([0.001, 0.01, 0, 1])
        tb = rng.choice([-1, -5, 0, -0.5])
        joker = rng.randint(0, 2)
        cfg = jsl.with_cfg(base, early=True, joker=joker, trunc_active=(rng.random() < 0.5))
        rc = dataclasses.replace(cfg.reward_factory.binary_action_jssp_reward, sparse_bias=sb, dense_bias=db, truncation_bias=tb)
        cfg = dataclasses.replace(cfg, reward_factory=dataclasses.replace(cfg.reward_factory, binary_action_jssp_reward=rc))
        finished = []   # (makespan, main term) of finished episodes on this instance
        for rep in range(2):
            p = rng.choice([0.3, 0.6, 0.9, 1.0])
            pol = gen.Policy(random.Random(rng.randrange(1 << 30)), p)
            st = {"streak": 0}
            info0 = {}

            def hook(env, stepinfo, st=st, info0=info0):
                if stepinfo is None:
                    st["streak"] = 0
                    inst = env.instance
                    info0.update(lb=calculate_lower_bound(inst), tmax=get_max_allowed_time(inst),
                                 nops=sum(len(j.operations) for j in inst.instance.specification),
                                 njobs=len(inst.instance.specification))
                    return
                a, obs, rew, term, trunc, info = stepinfo
                out["steps"] += 1
                noop = len(env.state.action.transitions) == 0
                t = env.state.state.time.time
                fs, fd, ft = frac(sb), frac(db), frac(tb)
                q = "RW %d %d %d %d %d %d %d %d %d %d %d %d %d %d %d" % (
                    fs.numerator, fs.denominator, fd.numerator, fd.denominator, ft.numerator, ft.denominator,
                    info0["tmax"], info0["lb"], info0["nops"], info0["njobs"], st["streak"], t,
                    int(term), int(trunc), int(noop))
                m = drv.ask(q)
                ok = False
                if m.startswith("(ok"):
                    _, num, den, streak = m.strip("()").split()
                    exact = Fraction(int(num), int(den))
                    st["streak"] = int(streak)
                    ok = abs(float(exact) - rew) <= 1e-9 * max(1.0, abs(float(exact)))
                    # independent reading of the property
                    dense = Fraction(0) if st["streak"] < info0["njobs"] else Fraction(-1, info0["nops"])
                    if not term and not trunc:
                        if exact != fd * dense or not (exact <= 0):
                            out["violations"].append({"kind": "reward:nonfinal", "detail": "non-final reward %s is not the "
                                                      "shaping term" % exact, "replay": {"query": q}})
                    if trunc and not term:
                        out["truncated"] += 1
                        if exact - fd * dense != ft:
                            out["violations"].append({"kind": "reward:truncation", "detail": "truncated: sparse part %s != "
                                                      "truncation_bias %s" % (exact - fd * dense, ft), "replay": {"query": q}})
                    if term:
                        out["terminal"] += 1
                        main = (exact - fd * dense) / fs
                        expect = Fraction(info0["tmax"] - t, info0["tmax"] - info0["lb"])
                        if main != expect:
                            out["violations"].append({"kind": "reward:terminal", "detail": "main term %s != %s" % (main, expect),
                                                      "replay": {"query": q}})
                        finished.append((t, main, rew))
                if not ok:
                    out["disagreements"].append({"where": "reward", "replay": {"query": q, "model": m, "impl": rew}})
                if len(out["samples"]) < 2 and term:
                    out["samples"].append({"query": q, "model": m, "impl_reward": rew})

            try:
                env, end, acts, et = batch.run_episode(None, d, cfg, pol, max_steps=300, env_hook=hook)
            except jsl.Unsupported:
                end = "unsupported"
            out["episodes"] += 1
            out["ends"][end] += 1
            if end == "raise:ZeroDivisionError":
                out["violations"].append({"kind": "outcome:raise:ZeroDivisionError", "detail": "reward raised ZeroDivisionError",
                                          "replay": {"dsl": d}, "facts": {"lb_equals_tmax": info0.get("lb") == info0.get("tmax"),
                                                                          "lb": info0.get("lb"), "tmax": info0.get("tmax")}})
        for (m1, f1, r1), (m2, f2, r2) in itertools.combinations(finished, 2):
            out["pairs"] += 1
            if (m1 < m2 and not f1 > f2) or (m2 < m1 and not f2 > f1) or (m1 == m2 and f1 != f2):
                out["violations"].append({"kind": "reward:not_monotone", "detail": "makespans %s,%s main terms %s,%s"
                                          % (m1, m2, f1, f2), "replay": {"dsl": d}})
    out["ends"] = dict(out["ends"])
    drv.close()
    return out


def c19(ctx):
    rng = random.Random(ctx.seed + 19)
    if ctx.quick():
        args = [(rng.randrange(1 << 30), 25) for _ in range(4)]
    else:
        args = [(rng.randrange(1 << 30), 200) for _ in range(16)]
    outs = _pool_map(_c19_worker, args)
    tot = collections.Counter()
    ends = collections.Counter()
    for o in outs:
        for k in ("steps", "episodes", "terminal", "truncated", "pairs"):
            tot[k] += o[k]
        ends.update(o["ends"])
        ctx.violations.extend(o["violations"])
        for dd in o["disagreements"][:5]:
            ctx.broken_correspondence.append("model and implementation differ in %s" % dd["where"])
            ctx.coverage.setdefault("disagreement_samples", []).append(dd["replay"])
        ctx.samples.extend(o["samples"][:1])
    ctx.coverage.update({
        "evaluations": tot["steps"], "distinct_nontrivial": tot["steps"],
        "rule": "one evaluation = one env.step reward of the implementation (random instance, reward weights, truncation "
                "setting, accept probability) compared with the exact rational of the extracted Coq reward model "
                "(tolerance 1e-9 relative: Python computes in float64); two episodes per instance for the monotonicity pairs",
        "traces_validated_against_impl": tot["steps"], "episodes": tot["episodes"], "terminal_rewards": tot["terminal"],
        "truncation_rewards": tot["truncated"], "finished_episode_pairs_compared": tot["pairs"],
        "episode_end_histogram": dict(ends),
    })
    ctx.assumptions.append("float64 rounding of the implementation's reward is not modelled: rewards are compared with the "
                           "exact rational within 1e-9 relative; strict monotonicity of the float result is not claimed")


TABLE = {"C06": c06, "C19": c19}
