"""Environment-level hooks run inside the batch workers."""
import copy
import dataclasses
import random

import jsl

MACH_INVALID = {0: [2, 3, 0], 1: [1, 3, 0], 2: [1, 0, 2], 3: [1, 2, 3]}      # state index -> invalid new states
TRANS_INVALID = {0: [4, 0], 2: [0, 2], 3: [0, 3], 4: [1, 2, 3, 4, 5], 5: [0]}


def c20_hook(state):
    """Purity (deep snapshots of every state seen), repeatability (double execution on deterministic
    instances), atomic rejection (actions mixing offered with phase-invalid transitions through state.step),
    env behaviour on a failed step."""
    out = {"violations": [], "counts": {"snapshots_rechecked": 0, "double_executions": 0, "mixed_actions": 0,
                                        "mixed_actions_rejected": 0, "env_failed_steps": 0}}
    state["out"] = out
    rng = random.Random(12345)
    seen = []   # (state object, sexp at creation, deep copy)

    def tracer_of(env):
        f = env.state_simulator.state_machine_step
        return f.func.__self__

    def hook(env, stepinfo):
        from jobshoplab.state_machine.core.state_machine import state as st
        from jobshoplab.types.action_types import Action, ActionFactoryInfo, ComponentTransition
        from jobshoplab.types.state_types import MachineStateState as MS
        from jobshoplab.types.state_types import TransportStateState as TS
        from jobshoplab.state_machine.time_machines import jump_to_event
        tracer = tracer_of(env)
        codec = tracer.codec_for(env.instance, env.config)
        if stepinfo is None:
            del seen[:]
        # 1. every state object seen so far is still what it was
        for obj, sx0, cp in seen[-25:]:
            out["counts"]["snapshots_rechecked"] += 1
            if codec.state(obj) != sx0 or obj != cp:
                out["violations"].append({"kind": "purity:state_mutated", "detail": "a state object kept from an earlier "
                                          "step changed", "replay": {"before": sx0, "after": codec.state(obj)}})
        s = env.state.state
        if not seen or seen[-1][0] is not s:
            seen.append((s, codec.state(s), copy.deepcopy(s)))
        rec = tracer.records[-1] if tracer.records else None
        # 2. repeatability on deterministic instances: same call again, equal outcome
        if rec is not None and rec.pre_obj is not None and not codec.sto_objs and rng.random() < 0.3:
            o2, _ = jsl.impl_step(codec, env.config, rec.pre_obj, rec.action)
            out["counts"]["double_executions"] += 1
            if o2 != rec.out:
                out["violations"].append({"kind": "repeat:differs", "detail": "second execution of the same step differs",
                                          "replay": {"pre": rec.pre, "trs": rec.trs, "first": rec.out[:3000], "second": o2[:3000]}})
        # 3. atomic rejection through state.step directly
        if not env.done and rng.random() < 0.25 and not codec.sto_objs:
            offers = list(env.state.possible_transitions)
            rng.shuffle(offers)
            chosen, comps, jobs = [], set(), set()
            for t in offers:
                if t.component_id in comps or t.job_id in jobs or rng.random() < 0.4:
                    continue
                chosen.append(t)
                comps.add(t.component_id)
                jobs.add(t.job_id)
            invalid = []
            anyjob = s.jobs[rng.randrange(len(s.jobs))].id
            # (a component that also gets a VALID transition in this action is left out: transitions are validated one
            #  after the other, so IDLE->SETUP followed by SETUP->WORKING on the same machine is legitimately accepted)
            for m in s.machines:
                if m.id not in comps and rng.random() < 0.5:
                    ns = list(MS)[rng.choice(MACH_INVALID[list(MS).index(m.state)])]
                    invalid.append(ComponentTransition(m.id, ns, rng.choice([anyjob, None, anyjob])))
            for t in s.transports:
                k = list(TS).index(t.state)
                if t.id not in comps and k in TRANS_INVALID and rng.random() < 0.5:
                    ns = list(TS)[rng.choice(TRANS_INVALID[k])]
                    invalid.append(ComponentTransition(t.id, ns, rng.choice([anyjob, None])))
            if invalid:
                trs = chosen + invalid * rng.choice([1, 1, 2])
                rng.shuffle(trs)
                act = Action(tuple(trs), ActionFactoryInfo.Valid, jump_to_event)
                pre = codec.state(s)
                cp = copy.deepcopy(s)
                o, r = jsl.impl_step(codec, env.config, s, act)
                out["counts"]["mixed_actions"] += 1
                rp = {"pre": pre, "trs": codec.transitions(trs), "outcome": o[:2000]}
                if r is None:
                    # a transition naming no job on a machine raises inside the validator's helpers: not a rejection
                    # path of the state machine but an exception; only phase-invalid transitions are the property's
                    # subject, so the raise itself is counted, not judged - but the MODEL has to raise the same way:
                    # an action the model rejects cleanly while the implementation raises is a violation
                    out["counts"]["mixed_actions_raised"] = out["counts"].get("mixed_actions_raised", 0) + 1
                    import jsl as _j
                    drv = state.setdefault("drv", _j.Driver())
                    m = drv.step(codec, pre, codec.transitions(trs), "jte")
                    if m != o:
                        out["violations"].append({"kind": "atomic:raised_not_rejected", "detail": "the implementation raised (%s) "
                                                  "on a mixed action, the model answers %s" % (o[:60], m[:60]),
                                                  "replay": dict(rp, model=m[:2000])})
                else:
                    if r.success:
                        out["violations"].append({"kind": "atomic:accepted", "detail": "action with a phase-invalid "
                                                  "transition reported success", "replay": rp})
                    else:
                        out["counts"]["mixed_actions_rejected"] += 1
                        if r.state is not s and r.state != cp:
                            out["violations"].append({"kind": "atomic:state_changed", "detail": "failed step returned a "
                                                      "different state", "replay": rp})
                        if codec.state(s) != pre or s != cp:
                            out["violations"].append({"kind": "purity:input_mutated", "detail": "failed step altered its "
                                                      "input state", "replay": rp})
                    # model must agree
                    import jsl as _j
                    drv = state.setdefault("drv", _j.Driver())
                    m = drv.step(codec, pre, codec.transitions(trs), "jte")
                    if m != o:
                        out["violations"].append({"kind": "atomic:model_differs", "detail": "model and implementation "
                                                  "disagree on a mixed action", "replay": dict(rp, model=m[:2000])})
        # 4. a failed step through the environment: doctored offer list, episode must end truncated
        if not env.done and rng.random() < (0.04 if stepinfo is not None else 0.15):
            m = s.machines[0]
            ns = list(MS)[MACH_INVALID[list(MS).index(m.state)][0]]
            bad = ComponentTransition(m.id, ns, s.jobs[0].id)
            old = env.state
            env.state = dataclasses.replace(env.state, possible_transitions=(bad,) + tuple(env.state.possible_transitions))
            pre = codec.state(s)
            nhist = len(env.history)
            try:
                obs, rew, term, trunc, info = env.step(1)
                out["counts"]["env_failed_steps"] += 1
                if not trunc or term or codec.state(env.state.state) != pre:
                    out["violations"].append({"kind": "env:failed_step_flags", "detail": "failed step: truncated=%s terminated=%s"
                                              % (trunc, term), "replay": {"pre": pre}})
            except Exception as e:  # noqa
                out["violations"].append({"kind": "env:failed_step_raises", "detail": "env.step raised %s on a failed step"
                                          % type(e).__name__, "replay": {"pre": pre, "history_len": nhist},
                                          "facts": {"exception": type(e).__name__, "history_empty": nhist == 0}})
                env.done = True
                env.truncated = True

    return hook


def c04_hook(state):
    """Independent reading of the flags: terminated iff all operations done and every job in an output buffer;
    never both flags; makespan = clock = latest completion; stepping a finished episode raises EnvDone."""
    out = {"violations": [], "counts": {"steps": 0, "terminal": 0, "envdone_probes": 0}}
    state["out"] = out

    def hook(env, stepinfo):
        if stepinfo is None:
            return
        from jobshoplab.types.instance_config_types import BufferRoleConfig
        from jobshoplab.types.state_types import OperationStateState as OS
        from jobshoplab.utils.exceptions import EnvDone
        a, obs, rew, term, trunc, info = stepinfo
        out["counts"]["steps"] += 1
        s = env.state.state
        outs = {b.id for b in env.instance.buffers if b.role == BufferRoleConfig.OUTPUT}
        all_done = all(o.operation_state_state == OS.DONE for j in s.jobs for o in j.operations)
        all_out = all(j.location in outs for j in s.jobs)
        rp = {"terminated": term, "truncated": trunc, "all_done": all_done, "all_in_output": all_out, "info": str(info)}
        if bool(term) != (all_done and all_out):
            out["violations"].append({"kind": "flags:terminated_iff", "detail": "terminated=%s but all_done=%s all_in_output=%s"
                                      % (term, all_done, all_out), "replay": rp})
        if term and trunc:
            out["violations"].append({"kind": "flags:both", "detail": "terminated and truncated together", "replay": rp})
        if term:
            out["counts"]["terminal"] += 1
            ends = [o.end_time.time for j in s.jobs for o in j.operations
                    if getattr(o.end_time, "time", None) is not None]
            mk = max(ends) if ends else None
            if info.get("makespan") != s.time.time or (mk is not None and info.get("makespan") != mk):
                out["violations"].append({"kind": "flags:makespan", "detail": "makespan %s, clock %s, latest completion %s"
                                          % (info.get("makespan"), s.time.time, mk), "replay": rp})
        elif info.get("makespan") is not None:
            out["violations"].append({"kind": "flags:makespan", "detail": "makespan reported before termination", "replay": rp})
        if term or trunc:
            out["counts"]["envdone_probes"] += 1
            before = (env.state, len(env.history), env.terminated, env.truncated)
            try:
                env.step(1)
                out["violations"].append({"kind": "flags:step_after_done", "detail": "step on a finished episode did not raise",
                                          "replay": rp})
            except EnvDone:
                if (env.state, len(env.history), env.terminated, env.truncated) != before:
                    out["violations"].append({"kind": "flags:step_after_done", "detail": "EnvDone but episode changed",
                                              "replay": rp})
            except Exception as e:  # noqa
                out["violations"].append({"kind": "flags:step_after_done", "detail": "raised %s instead of EnvDone"
                                          % type(e).__name__, "replay": rp})

    return hook


def c18_hook(state):
    """Declining: several offers -> same shop, offers[1:]; last offer -> no agent transition, strictly later clock,
    fresh complete offer list; truncation exactly when fully-declined rounds exceed the allowance."""
    out = {"violations": [], "counts": {"decline_many": 0, "decline_last": 0, "accepts": 0, "truncations": 0}}
    state["out"] = out
    st = {}

    def hook(env, stepinfo):
        from jobshoplab.state_machine.core.state_machine import state as smod
        mwcfg = env.config.middleware.event_based_binary_action_middleware
        if stepinfo is None:
            st.clear()
            st.update(prev=env.state, declined_rounds=0, accepted=False, joker0=mwcfg.truncation_joker,
                      active=mwcfg.truncation_active)
            return
        a, obs, rew, term, trunc, info = stepinfo
        prev = st["prev"]
        cur = env.state
        n = len(prev.possible_transitions)
        rp = {"action": a, "offers_before": len(prev.possible_transitions), "offers_after": len(cur.possible_transitions)}
        if a == 0 and n > 1:
            out["counts"]["decline_many"] += 1
            if cur.state is not prev.state and cur.state != prev.state:
                out["violations"].append({"kind": "decline:many_changed_state", "detail": "declining one of several offers "
                                          "changed the shop", "replay": rp})
            if tuple(cur.possible_transitions) != tuple(prev.possible_transitions[1:]):
                out["violations"].append({"kind": "decline:many_offers", "detail": "offer list is not the previous list "
                                          "minus the declined offer", "replay": rp})
        elif a == 0 and n == 1:
            out["counts"]["decline_last"] += 1
            if len(cur.action.transitions) != 0:
                out["violations"].append({"kind": "decline:last_agent_transition", "detail": "a transition of the agent's "
                                          "choosing was applied", "replay": rp})
            if not term and not (cur.state.time.time > prev.state.time.time):
                out["violations"].append({"kind": "decline:last_clock", "detail": "clock %s -> %s not strictly later"
                                          % (prev.state.time.time, cur.state.time.time), "replay": rp})
            if not term:
                fresh = smod.get_possible_transitions(cur.state, env.instance, env.config)
                if tuple(fresh) != tuple(cur.possible_transitions):
                    out["violations"].append({"kind": "decline:last_offers", "detail": "offer list after declining the last "
                                              "offer is not the complete list of the new state", "replay": rp})
            if not term:
                if st["active"] and not st["accepted"]:
                    st["declined_rounds"] += 1
                st["accepted"] = False
        elif a == 1:
            out["counts"]["accepts"] += 1
            st["accepted"] = True
        expect = st["active"] and st["declined_rounds"] > st["joker0"]
        if bool(trunc) != bool(expect):
            out["violations"].append({"kind": "truncation:count", "detail": "truncated=%s but %d fully declined round(s), "
                                      "allowance %d, active=%s" % (trunc, st["declined_rounds"], st["joker0"], st["active"]),
                                      "replay": rp})
        if trunc:
            out["counts"]["truncations"] += 1
        st["prev"] = cur

    return hook


HOOKS = {"c20": c20_hook, "c04": c04_hook, "c18": c18_hook}
def _shift_time(t, k):
    return t if t == "-" else str(int(t) + k)


def shift_state(st, k):
    """parsed state sexp with every time stamp shifted by k"""
    def oact(o):
        return [o[0]] + [_shift_time(t, k) for t in o[1:]]
    jobs = [[[[o[0], _shift_time(o[1], k), _shift_time(o[2], k), o[3]] for o in j[0]], j[1]] for j in st[1]]
    machs = [[m[0], _shift_time(m[1], k), m[2], m[3], m[4], m[5], [oact(o) for o in m[6]]] for m in st[2]]
    trans = []
    for t in st[3]:
        oc = t[1]
        if not isinstance(oc, list):
            oc = _shift_time(oc, k)
        trans.append([t[0], oc, t[2], t[3], t[4], [oact(o) for o in t[5]]])
    return [_shift_time(st[0], k), jobs, machs, trans, st[4], st[5]]


def c12_shift_post(out, tracer, eps, drv, replay_of):
    """Translation invariance: the same instance and action sequence started at time 0 and at time K give
    trajectories that differ exactly by K in every time stamp."""
    import copy
    import random
    import batch
    import gen
    import sxdiff
    import trace
    rng = random.Random(hash(("shift", len(eps))) % 100000)
    base = jsl.load_config()
    out["shift_pairs"] = 0
    out["shift_pairs_with_outages"] = 0
    for n in range(max(6, len(eps) // 6)):
        d, feats = gen.gen_instance(rng, rng.choice(["transport", "buffers", "full", "full"]))
        # negative offsets too: the shifted run then starts below zero and some event may land exactly on time 0
        K = rng.choice([7, 100, 1000, -3, -4, -5, -6, -9, -12])
        runs = []
        acts = None
        cfgkw = {"early": rng.random() < 0.6, "trunc_active": False}
        cfg = jsl.with_cfg(base, **cfgkw)
        seedp = rng.randrange(1 << 30)
        for start in (0, K):
            dd = copy.deepcopy(d)
            dd.setdefault("init_state", {})["start_time"] = start
            tr = trace.Tracer()
            if acts is None:
                pol = gen.Policy(random.Random(seedp), 0.7)
            else:
                it = iter(acts)
                pol = lambda env, it=it: next(it, 1)
            try:
                env, end, a, et = batch.run_episode(tr, dd, cfg, pol, max_steps=200)
            except jsl.Unsupported:
                end, a = "unsupported", []
            if acts is None:
                acts = a
            finals = [(r.final, r.out.split(" ")[0]) for r in tr.records]
            runs.append((end, a, finals))
        (e0, a0, f0), (e1, a1, f1) = runs
        has_out = bool(d["instance_config"].get("outages"))
        out["shift_pairs"] += 1
        out["shift_pairs_with_outages"] += int(has_out)
        same = (e0 == e1 and len(f0) == len(f1))
        if same:
            for (s0, o0), (s1, o1) in zip(f0, f1):
                if (s0 is None) != (s1 is None) or o0 != o1:
                    same = False
                    break
                if s0 is not None and shift_state(sxdiff.parse(s0), K) != sxdiff.parse(s1):
                    same = False
                    break
        if not same:
            out["violations"].append({"kind": "shift:differs", "detail": "start_time 0 and %d give trajectories that do not "
                                      "differ by the offset only (ends %s / %s)" % (K, e0, e1),
                                      "replay": {"dsl": d, "cfg": cfgkw, "actions": acts, "offset": K},
                                      "facts": {"has_outages": has_out}})


POST = {"c12_shift": c12_shift_post}
