"""s-expressions of the codec -> Gallina terms (for Examples, witnesses and the in-Coq
re-evaluation that cross-checks extraction)."""
import sxdiff


def nat(s):
    return "%d%%nat" % int(s)


def z(s):
    v = int(s)
    return "(%d)%%Z" % v


def lst(items):
    return "[" + "; ".join(items) + "]"


def time(t):
    return "NoTime" if t == "-" else "(Time %s)" % z(t)


def optnat(t):
    return "None" if t == "-" else "(Some %s)" % nat(t)


def bid(b):
    return "(%s %s)" % ({"std": "BStd", "pre": "BPre", "in": "BIn", "post": "BPost", "agv": "BAgv"}[b[0]], nat(b[1]))


def place(p):
    return "(%s %s)" % ({"m": "PM", "b": "PB", "t": "PT"}[p[0]], nat(p[1]))


def comp(p):
    return "(%s %s)" % ({"m": "CM", "t": "CT", "b": "CB"}[p[0]], nat(p[1]))


OST = ["OIdle", "OProc", "ODone", "OTransport"]
MST = ["MIdle", "MSetup", "MWorking", "MOutage"]
TST = ["TIdle", "TWorking", "TPickup", "TTransit", "TOutage", "TWaiting"]
FLG = ["FEmpty", "FNotEmpty", "FFull"]
BTY = ["Fifo", "Lifo", "Flex", "Dummy"]
BRO = ["RInput", "ROutput", "RComponent", "RCompensation"]


def nstate(n):
    return "(NM %s)" % MST[int(n[1])] if n[0] == "m" else "(NT %s)" % TST[int(n[1])]


def transition(t):
    return "(mkTr %s %s %s)" % (comp(t[0]), nstate(t[1]), optnat(t[2]))


def buf(b):
    return "(mkBuf %s %s)" % (lst(nat(j) for j in b[0]), FLG[int(b[1])])


def oact(o):
    return "(OActive %s %s)" % (time(o[1]), time(o[2])) if o[0] == "a" else "(OInactive %s)" % time(o[1])


def occ(o):
    if o == "-":
        return "ONo"
    if isinstance(o, list):
        return "(ODep %s %s %s)" % (bid(o[1]), nat(o[2]), transition(o[3]))
    return "(OAt %s)" % z(o)


def tloc(l):
    if l[0] == "at":
        return "(LAt %s)" % place(l[1])
    return "(LRoute %s %s %s)" % (place(l[1]), bid(l[2]), place(l[3]))


def state(s):
    if isinstance(s, str):
        s = sxdiff.parse(s)
    jobs = lst("(mkJob %s %s)" % (lst("(mkOp %s %s %s %s)" % (nat(o[0]), time(o[1]), time(o[2]), OST[int(o[3])])
                                       for o in j[0]), bid(j[1])) for j in s[1])
    machs = lst("(mkMachine %s %s %s %s %s %s %s)" % (MST[int(m[0])], time(m[1]), buf(m[2]), buf(m[3]), buf(m[4]),
                                                       nat(m[5]), lst(oact(o) for o in m[6])) for m in s[2])
    trans = lst("(mkTransport %s %s %s %s %s %s)" % (TST[int(t[0])], occ(t[1]), buf(t[2]), tloc(t[3]), optnat(t[4]),
                                                     lst(oact(o) for o in t[5])) for t in s[3])
    bufs = lst(buf(b) for b in s[4])
    sto = lst("(%s, %s)" % (z(v[0]), nat(v[1])) for v in s[5])
    return "(mkState %s %s %s %s %s %s)" % (jobs, z(s[0]), machs, trans, bufs, sto)


def tcfg(c):
    return "(Det %s)" % z(c[1]) if c[0] == "d" else "(Stoch %s)" % nat(c[1])


def bcfg(b):
    return "(mkBCfg %s %s %s)" % (BTY[int(b[0])], z(b[1]), BRO[int(b[2])])


def ocfg(o):
    return "(mkOCfg %s %s)" % (tcfg(o[0]), tcfg(o[1]))


def inst(s):
    if isinstance(s, str):
        s = sxdiff.parse(s)
    jobs = lst(lst("(mkOpCfg %s %s %s)" % (nat(o[0]), tcfg(o[1]), nat(o[2])) for o in j) for j in s[0])
    machs = lst("(mkMCfg %s %s %s %s %s)" % (bcfg(m[0]), bcfg(m[1]), bcfg(m[2]),
                                              lst("((%s, %s), %s)" % (nat(e[0]), nat(e[1]), tcfg(e[2])) for e in m[3]),
                                              lst(ocfg(o) for o in m[4])) for m in s[1])
    trans = lst("(mkACfg %s %s)" % (bcfg(t[0]), lst(ocfg(o) for o in t[1])) for t in s[2])
    bufs = lst(bcfg(b) for b in s[3])
    travel = lst("((%s, %s), %s)" % (place(e[0]), place(e[1]), tcfg(e[2])) for e in s[4])
    return "(mkInst %s %s %s %s %s %s)" % (jobs, machs, trans, bufs, travel, "true" if s[5] == "1" else "false")


def sigma(rows):
    """sigma table (list of int lists) -> Gallina function nat -> nat -> Z (0 beyond the table)."""
    if isinstance(rows, str):
        rows = sxdiff.parse(rows)
    rws = lst(lst(z(v) for v in r) for r in rows)
    return "(fun (a k : nat) => nth k (nth a %s []) 0%%Z)" % rws


def transitions(t):
    if isinstance(t, str):
        t = sxdiff.parse(t)
    return lst(transition(x) for x in t)


TM = {"jte": "TMJumpToEvent", "force": "TMForceJump", "one": "TMJumpByOne"}
