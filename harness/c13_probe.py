"""Run in a fresh interpreter: episodes for C13 (same config, seed, actions => same episode).
stdin: JSON {mode, cases:[{dsl, cfg, seed, actions, resets}]}; stdout: '@@' + JSON list of digest lists."""
import hashlib
import json
import random
import sys

sys.path.insert(0, __file__.rsplit("/", 1)[0])
import jsl  # noqa
import trace  # noqa


def digest(x):
    return hashlib.sha256(x.encode()).hexdigest()[:16]


def obs_repr(obs):
    import numpy as np
    return json.dumps({k: np.asarray(v).astype(float).round(9).tolist() for k, v in obs.items()}, sort_keys=True)


def run_case(case, mode, rng):
    import numpy as np
    import torch
    base = jsl.load_config()
    cfg = jsl.with_cfg(base, **case["cfg"])
    if mode in ("polluted", "interleaved", "shared"):
        for _ in range(rng.randint(1, 50)):
            random.random(); np.random.rand(); torch.rand(1)
    other = None
    if mode == "shared":
        # two environments handed the SAME Compiler object (the documented way to pass an instance): the other one
        # runs a few steps first, then both are stepped alternately
        from jobshoplab.env.env import JobShopLabEnv
        comp = jsl.make_compiler(case["dsl"], cfg)
        other = JobShopLabEnv(config=cfg, compiler=comp, seed=rng.choice([case["seed"], case["seed"] + 17]))
        for _ in range(rng.randint(0, 12)):
            if other.done:
                break
            try:
                other.step(rng.choice([0, 1, 1]))
            except Exception:
                break
        env = JobShopLabEnv(config=cfg, compiler=comp, seed=case["seed"])
    else:
        env = trace.make_env(case["dsl"], cfg, None, seed=case["seed"])
    if mode == "interleaved":
        other = trace.make_env(case["dsl"], cfg, None, seed=case["seed"] + 17)
    out = []
    acts = list(case["actions"])
    for ep in range(case["resets"] + 1):
        if ep > 0:
            if mode in ("polluted", "interleaved", "shared"):
                np.random.rand(3); random.random(); torch.rand(2)
            obs, info = env.reset()
            out.append(digest("reset" + obs_repr(obs)))
        codec = jsl.Codec(env.instance, cfg.state_machine.allow_early_transport)
        out.append(digest(codec.inst_sx + codec.state(env.state.state)))
        for a in acts:
            if other is not None and rng.random() < 0.5 and not other.done:
                try:
                    other.step(rng.choice([0, 1]))
                except Exception:
                    pass
            try:
                obs, rew, term, trunc, info = env.step(a)
            except Exception as e:
                out.append("raise:" + type(e).__name__)
                break
            out.append(digest(codec.state(env.state.state) + obs_repr(obs) + repr(float(rew)) + str((term, trunc))))
            if term or trunc:
                break
    return out


def main():
    req = json.load(sys.stdin)
    rng = random.Random(req.get("probe_seed", 1))
    res = []
    for c in req["cases"]:
        try:
            res.append(run_case(c, req["mode"], rng))
        except jsl.Unsupported as e:
            res.append(["unsupported"])
        except Exception as e:
            res.append(["error:" + type(e).__name__ + ":" + str(e)[:80]])
    print("@@" + json.dumps(res))


if __name__ == "__main__":
    main()
