(* Line-oriented driver around the extracted model (ocaml/gen/sm.ml).
   Reads commands on stdin, one per line, prints one result line per command.
   Format: s-expressions, see harness/serialize.py (the mirror of this file). *)
open Sm

type sx = A of string | L of sx list

exception Parse of string

let tokenize (s : string) : string list =
  let n = String.length s in
  let toks = ref [] in
  let buf = Buffer.create 16 in
  let flush () = if Buffer.length buf > 0 then (toks := Buffer.contents buf :: !toks; Buffer.clear buf) in
  for k = 0 to n - 1 do
    match s.[k] with
    | '(' -> flush (); toks := "(" :: !toks
    | ')' -> flush (); toks := ")" :: !toks
    | ' ' | '\t' | '\n' | '\r' -> flush ()
    | c -> Buffer.add_char buf c
  done;
  flush (); List.rev !toks

let parse_all (toks : string list) : sx list =
  let rec one = function
    | "(" :: r -> let (l, r') = many r in (L l, r')
    | ")" :: _ -> raise (Parse "unexpected )")
    | a :: r -> (A a, r)
    | [] -> raise (Parse "eof")
  and many = function
    | ")" :: r -> ([], r)
    | [] -> raise (Parse "missing )")
    | ts -> let (x, r) = one ts in let (xs, r') = many r in (x :: xs, r')
  in
  let rec top ts = match ts with [] -> [] | _ -> let (x, r) = one ts in x :: top r in
  top toks

(* ---- numbers ---- *)
let rec nat_of_int n = if n <= 0 then O else S (nat_of_int (n - 1))
let rec int_of_nat = function O -> 0 | S n -> 1 + int_of_nat n
let rec pos_of_int n = if n = 1 then XH else if n land 1 = 0 then XO (pos_of_int (n lsr 1)) else XI (pos_of_int (n lsr 1))
let z_of_int n = if n = 0 then Z0 else if n > 0 then Zpos (pos_of_int n) else Zneg (pos_of_int (-n))
let rec int_of_pos = function XH -> 1 | XO p -> 2 * int_of_pos p | XI p -> 2 * int_of_pos p + 1
let int_of_z = function Z0 -> 0 | Zpos p -> int_of_pos p | Zneg p -> - (int_of_pos p)

let bad what sx =
  let rec show = function A a -> a | L l -> "(" ^ String.concat " " (List.map show l) ^ ")" in
  raise (Parse (what ^ ": " ^ show sx))

let p_int = function A a -> (try int_of_string a with _ -> raise (Parse ("int: " ^ a))) | x -> bad "int" x
let p_nat x = nat_of_int (p_int x)
let p_z x = z_of_int (p_int x)
let p_list f = function L l -> List.map f l | x -> bad "list" x
let p_bool x = p_int x <> 0

let p_time = function A "-" -> NoTime | x -> Time (p_z x)
let p_optnat = function A "-" -> None | x -> Some (p_nat x)

let p_bid = function
  | L [A "std"; n] -> BStd (p_nat n) | L [A "pre"; n] -> BPre (p_nat n) | L [A "in"; n] -> BIn (p_nat n)
  | L [A "post"; n] -> BPost (p_nat n) | L [A "agv"; n] -> BAgv (p_nat n) | x -> bad "bid" x
let p_place = function
  | L [A "m"; n] -> PM (p_nat n) | L [A "b"; n] -> PB (p_nat n) | L [A "t"; n] -> PT (p_nat n) | x -> bad "place" x
let p_comp = function
  | L [A "m"; n] -> CM (p_nat n) | L [A "t"; n] -> CT (p_nat n) | L [A "b"; n] -> CB (p_nat n) | x -> bad "comp" x
let p_ostate x = match p_int x with 0 -> OIdle | 1 -> OProc | 2 -> ODone | 3 -> OTransport | _ -> bad "ostate" x
let p_mstate x = match p_int x with 0 -> MIdle | 1 -> MSetup | 2 -> MWorking | 3 -> MOutage | _ -> bad "mstate" x
let p_tstate x = match p_int x with
  | 0 -> TIdle | 1 -> TWorking | 2 -> TPickup | 3 -> TTransit | 4 -> TOutage | 5 -> TWaiting | _ -> bad "tstate" x
let p_nstate = function L [A "m"; s] -> NM (p_mstate s) | L [A "t"; s] -> NT (p_tstate s) | x -> bad "nstate" x
let p_flag x = match p_int x with 0 -> FEmpty | 1 -> FNotEmpty | 2 -> FFull | _ -> bad "flag" x
let p_op = function
  | L [m; s; e; st] -> { o_mach = p_nat m; o_start = p_time s; o_end = p_time e; o_st = p_ostate st }
  | x -> bad "op" x
let p_job = function L [ops; loc] -> { j_ops = p_list p_op ops; j_loc = p_bid loc } | x -> bad "job" x
let p_buf = function L [st; f] -> { b_store = p_list p_nat st; b_flag = p_flag f } | x -> bad "buf" x
let p_oact = function
  | L [A "a"; s; e] -> OActive (p_time s, p_time e) | L [A "i"; l] -> OInactive (p_time l) | x -> bad "oact" x
let p_tr = function
  | L [c; n; j] -> { tr_comp = p_comp c; tr_new = p_nstate n; tr_job = p_optnat j } | x -> bad "transition" x
let p_machine = function
  | L [st; occ; pre; inb; post; tool; outs] ->
      { m_st = p_mstate st; m_occ = p_time occ; m_pre = p_buf pre; m_in = p_buf inb; m_post = p_buf post;
        m_tool = p_nat tool; m_out = p_list p_oact outs }
  | x -> bad "machine" x
let p_occ = function
  | A "-" -> ONo
  | L [A "dep"; b; j; tr] -> ODep (p_bid b, p_nat j, p_tr tr)
  | x -> OAt (p_z x)
let p_tloc = function
  | L [A "at"; p] -> LAt (p_place p)
  | L [A "route"; a; b; c] -> LRoute (p_place a, p_bid b, p_place c)
  | x -> bad "tloc" x
let p_transport = function
  | L [st; occ; b; loc; j; outs] ->
      { t_st = p_tstate st; t_occ = p_occ occ; t_buf = p_buf b; t_loc = p_tloc loc; t_job = p_optnat j;
        t_out = p_list p_oact outs }
  | x -> bad "transport" x
let p_sto = p_list (function L [v; k] -> (p_z v, p_nat k) | x -> bad "sto" x)
let p_state = function
  | L [now; jobs; machs; trans; bufs; sto] ->
      { s_jobs = p_list p_job jobs; s_now = p_z now; s_machs = p_list p_machine machs;
        s_trans = p_list p_transport trans; s_bufs = p_list p_buf bufs; s_sto = p_sto sto }
  | x -> bad "state" x

let p_tcfg = function L [A "d"; z] -> Det (p_z z) | L [A "s"; n] -> Stoch (p_nat n) | x -> bad "tcfg" x
let p_btype x = match p_int x with 0 -> Fifo | 1 -> Lifo | 2 -> Flex | 3 -> Dummy | _ -> bad "btype" x
let p_brole x = match p_int x with 0 -> RInput | 1 -> ROutput | 2 -> RComponent | 3 -> RCompensation | _ -> bad "brole" x
let p_bcfg = function
  | L [t; c; r] -> { bc_type = p_btype t; bc_cap = p_z c; bc_role = p_brole r } | x -> bad "bcfg" x
let p_ocfg = function L [f; d] -> { og_freq = p_tcfg f; og_dur = p_tcfg d } | x -> bad "ocfg" x
let p_opcfg = function
  | L [m; d; t] -> { oc_mach = p_nat m; oc_dur = p_tcfg d; oc_tool = p_nat t } | x -> bad "opcfg" x
let p_mcfg = function
  | L [pre; inb; post; setup; outs] ->
      { mc_pre = p_bcfg pre; mc_in = p_bcfg inb; mc_post = p_bcfg post;
        mc_setup = p_list (function L [a; b; c] -> ((p_nat a, p_nat b), p_tcfg c) | x -> bad "setup" x) setup;
        mc_out = p_list p_ocfg outs }
  | x -> bad "mcfg" x
let p_acfg = function L [b; outs] -> { ac_buf = p_bcfg b; ac_out = p_list p_ocfg outs } | x -> bad "acfg" x
let p_inst = function
  | L [jobs; machs; trans; bufs; travel; early] ->
      { i_jobs = p_list (p_list p_opcfg) jobs; i_machs = p_list p_mcfg machs; i_trans = p_list p_acfg trans;
        i_bufs = p_list p_bcfg bufs;
        i_travel = p_list (function L [a; b; c] -> ((p_place a, p_place b), p_tcfg c) | x -> bad "travel" x) travel;
        i_early = p_bool early }
  | x -> bad "inst" x
let p_tm = function
  | A "jte" -> TMJumpToEvent | A "force" -> TMForceJump | A "one" -> TMJumpByOne | x -> bad "tm" x

(* ---- printing ---- *)
let b = Buffer.create 65536
let ps s = Buffer.add_string b s
let pi n = ps (string_of_int n)
let pnat n = pi (int_of_nat n)
let pz z = pi (int_of_z z)
let plist f l = ps "("; List.iteri (fun k x -> if k > 0 then ps " "; f x) l; ps ")"
let ptime = function NoTime -> ps "-" | Time z -> pz z
let poptnat = function None -> ps "-" | Some n -> pnat n
let ptag t f = ps "("; ps t; ps " "; f (); ps ")"
let pbid = function
  | BStd n -> ptag "std" (fun () -> pnat n) | BPre n -> ptag "pre" (fun () -> pnat n)
  | BIn n -> ptag "in" (fun () -> pnat n) | BPost n -> ptag "post" (fun () -> pnat n)
  | BAgv n -> ptag "agv" (fun () -> pnat n)
let pplace = function
  | PM n -> ptag "m" (fun () -> pnat n) | PB n -> ptag "b" (fun () -> pnat n) | PT n -> ptag "t" (fun () -> pnat n)
let pcomp = function
  | CM n -> ptag "m" (fun () -> pnat n) | CT n -> ptag "t" (fun () -> pnat n) | CB n -> ptag "b" (fun () -> pnat n)
let postate = function OIdle -> pi 0 | OProc -> pi 1 | ODone -> pi 2 | OTransport -> pi 3
let pmstate = function MIdle -> pi 0 | MSetup -> pi 1 | MWorking -> pi 2 | MOutage -> pi 3
let ptstate = function TIdle -> pi 0 | TWorking -> pi 1 | TPickup -> pi 2 | TTransit -> pi 3 | TOutage -> pi 4 | TWaiting -> pi 5
let pnstate = function NM s -> ptag "m" (fun () -> pmstate s) | NT s -> ptag "t" (fun () -> ptstate s)
let pflag = function FEmpty -> pi 0 | FNotEmpty -> pi 1 | FFull -> pi 2
let pop o = ps "("; pnat o.o_mach; ps " "; ptime o.o_start; ps " "; ptime o.o_end; ps " "; postate o.o_st; ps ")"
let pjob j = ps "("; plist pop j.j_ops; ps " "; pbid j.j_loc; ps ")"
let pbuf bf = ps "("; plist pnat bf.b_store; ps " "; pflag bf.b_flag; ps ")"
let poact = function
  | OActive (s, e) -> ps "(a "; ptime s; ps " "; ptime e; ps ")"
  | OInactive l -> ps "(i "; ptime l; ps ")"
let ptr t = ps "("; pcomp t.tr_comp; ps " "; pnstate t.tr_new; ps " "; poptnat t.tr_job; ps ")"
let pmachine m =
  ps "("; pmstate m.m_st; ps " "; ptime m.m_occ; ps " "; pbuf m.m_pre; ps " "; pbuf m.m_in; ps " "; pbuf m.m_post;
  ps " "; pnat m.m_tool; ps " "; plist poact m.m_out; ps ")"
let pocc = function
  | ONo -> ps "-" | OAt z -> pz z
  | ODep (bd, j, tr) -> ps "(dep "; pbid bd; ps " "; pnat j; ps " "; ptr tr; ps ")"
let ptloc = function
  | LAt p -> ps "(at "; pplace p; ps ")"
  | LRoute (a, bd, c) -> ps "(route "; pplace a; ps " "; pbid bd; ps " "; pplace c; ps ")"
let ptransport t =
  ps "("; ptstate t.t_st; ps " "; pocc t.t_occ; ps " "; pbuf t.t_buf; ps " "; ptloc t.t_loc; ps " "; poptnat t.t_job;
  ps " "; plist poact t.t_out; ps ")"
let psto = plist (fun (v, k) -> ps "("; pz v; ps " "; pnat k; ps ")")
let pstate x =
  ps "("; pz x.s_now; ps " "; plist pjob x.s_jobs; ps " "; plist pmachine x.s_machs; ps " ";
  plist ptransport x.s_trans; ps " "; plist pbuf x.s_bufs; ps " "; psto x.s_sto; ps ")"
let perr e = ps (match e with
  | EInvalidValue -> "InvalidValue" | EInvalidKey -> "InvalidKey" | ENotImpl -> "NotImplementedError"
  | EBufferFull -> "BufferFullError" | EJobNotInBuffer -> "JobNotInBufferError"
  | EMissingProc -> "MissingProcessingOperationError" | EMissingJobId -> "MissingJobIdError"
  | ETransportJob -> "TransportJobError" | ETransportCfg -> "TransportConfigError"
  | ETravelTime -> "TravelTimeError" | EOutageActive -> "ValueError" | EPyType -> "TypeError"
  | EPyIndex -> "IndexError" | EPyStopIter -> "StopIteration" | EUnsuccessful -> "UnsuccessfulStateMachineResult"
  | EActionSpace -> "ActionOutOfActionSpace" | EEnvDone -> "EnvDone" | EPyZeroDiv -> "ZeroDivisionError"
  | EOutOfFuel -> "OutOfFuel")
let plog lg = plist (fun (tr, x) -> ps "("; ptr tr; ps " "; pstate x; ps ")") lg
let plog_tr lg = plist (fun (tr, _) -> ptr tr) lg

(* ---- instance printer ---- *)
let ptcfg = function Det z -> ps "(d "; pz z; ps ")" | Stoch n -> ps "(s "; pnat n; ps ")"
let pbtype = function Fifo -> pi 0 | Lifo -> pi 1 | Flex -> pi 2 | Dummy -> pi 3
let pbrole = function RInput -> pi 0 | ROutput -> pi 1 | RComponent -> pi 2 | RCompensation -> pi 3
let pbcfg c = ps "("; pbtype c.bc_type; ps " "; pz c.bc_cap; ps " "; pbrole c.bc_role; ps ")"
let pocfg o = ps "("; ptcfg o.og_freq; ps " "; ptcfg o.og_dur; ps ")"
let pinst i =
  ps "(";
  plist (plist (fun o -> ps "("; pnat o.oc_mach; ps " "; ptcfg o.oc_dur; ps " "; pnat o.oc_tool; ps ")")) i.i_jobs; ps " ";
  plist (fun m -> ps "("; pbcfg m.mc_pre; ps " "; pbcfg m.mc_in; ps " "; pbcfg m.mc_post; ps " ";
          plist (fun ((a, b), c) -> ps "("; pnat a; ps " "; pnat b; ps " "; ptcfg c; ps ")") m.mc_setup; ps " ";
          plist pocfg m.mc_out; ps ")") i.i_machs; ps " ";
  plist (fun t -> ps "("; pbcfg t.ac_buf; ps " "; plist pocfg t.ac_out; ps ")") i.i_trans; ps " ";
  plist pbcfg i.i_bufs; ps " ";
  plist (fun ((a, b), c) -> ps "("; pplace a; ps " "; pplace b; ps " "; ptcfg c; ps ")") i.i_travel; ps " ";
  pi (if i.i_early then 1 else 0); ps ")"

(* ---- tokenised documents ---- *)
let p_opt f = function A "-" -> None | x -> Some (f x)
let p_bspec = function
  | L [t; c; r] -> { bs_type = p_opt p_btype t; bs_cap = p_opt p_z c; bs_role = p_opt p_brole r }
  | x -> bad "bspec" x
let p_pname = function
  | L [A "m"; n] -> NMach (p_nat n) | L [A "b"; n] -> NBuf (p_nat n) | A "in" -> NIn | A "out" -> NOut | x -> bad "pname" x
let p_ocomp = function A "am" -> OCAllMach | A "at" -> OCAllTrans | L [A "m"; n] -> OCMach (p_nat n) | x -> bad "ocomp" x
let p_ddoc = function
  | L [jobs; tools; setup; log; bufs; machs; outs; init] ->
      { d_jobs = p_list (p_list (function L [m; d] -> (p_nat m, p_z d) | x -> bad "dop" x)) jobs;
        d_tools = p_opt (p_list (p_list p_nat)) tools;
        d_setup = p_opt (p_list (function
                    | L [m; hdr; rows] -> (p_nat m, (p_list p_nat hdr,
                        p_list (function L [r; vs] -> (p_nat r, p_list p_z vs) | x -> bad "srow" x) rows))
                    | x -> bad "setup" x)) setup;
        d_log = p_opt (function
                    | L [am; names; rows] ->
                        { dl_amount = p_opt p_nat am; dl_names = p_list p_pname names;
                          dl_rows = p_list (function L [r; vs] -> (p_pname r, p_list p_z vs) | x -> bad "lrow" x) rows }
                    | x -> bad "log" x) log;
        d_bufs = p_list (function L [l; sp] -> (p_nat l, p_bspec sp) | x -> bad "dbuf" x) bufs;
        d_machs = (match machs with
                   | A "-" -> DMNone
                   | L [A "g"; p; q] -> DMGlobal (p_opt p_bspec p, p_opt p_bspec q)
                   | L (A "s" :: l) -> DMSpecific (List.map (function
                        | L [m; p; q] -> (p_nat m, (p_opt p_bspec p, p_opt p_bspec q)) | x -> bad "dms" x) l)
                   | x -> bad "machs" x);
        d_outs = p_list (function L [c; du; fr] -> { do_comp = p_ocomp c; do_dur = p_z du; do_freq = p_z fr }
                                  | x -> bad "dout" x) outs;
        d_init = (match init with
                  | L [st; tl; jl; stores] ->
                      { di_start = p_opt p_z st;
                        di_tloc = p_list (function L [t; n] -> (p_nat t, p_pname n) | x -> bad "tloc" x) tl;
                        di_jloc = p_list (function L [j; l] -> (p_nat j, p_nat l) | x -> bad "jloc" x) jl;
                        di_store = p_list (function L [l; js] -> (p_nat l, p_list p_nat js) | x -> bad "store" x) stores }
                  | x -> bad "init" x) }
  | x -> bad "ddoc" x

(* log verbosity: 2 = transitions and post-states, 1 = transitions only, 0 = none *)
let logv = ref 2
let plogv lg = match !logv with 2 -> plog lg | 1 -> plog_tr lg | _ -> ps "()"

let poutcome = function
  | SOk (x, offers, lg) -> ps "(ok "; pstate x; ps " "; plist ptr offers; ps " "; plogv lg; ps ")"
  | SFail (x, lg) -> ps "(fail "; psto x.s_sto; ps " "; plogv lg; ps ")"
  | SRaise e -> ps "(raise "; perr e; ps ")"
  | SOutOfFuel -> ps "(fuel)"

let p_mw = function
  | L [j; n; a; t] -> { mw_joker = p_z j; mw_noop = p_nat n; mw_act = p_nat a; mw_trunc_active = p_bool t }
  | x -> bad "mw" x
let pmw m = ps "("; pz m.mw_joker; ps " "; pnat m.mw_noop; ps " "; pnat m.mw_act; ps " ";
  pi (if m.mw_trunc_active then 1 else 0); ps ")"
let p_result = function
  | L [x; offers; acts] -> { r_x = p_state x; r_offers = p_list p_tr offers; r_acts = p_list p_tr acts }
  | x -> bad "result" x
let presult r = ps "("; pstate r.r_x; ps " "; plist ptr r.r_offers; ps " "; plist ptr r.r_acts; ps ")"
let pmwout = function
  | MOk (r, m, lg) -> ps "(ok "; presult r; ps " "; pmw m; ps " "; plogv lg; ps ")"
  | MFail (sto, m) -> ps "(fail "; psto sto; ps " "; pmw m; ps ")"
  | MRaise e -> ps "(raise "; perr e; ps ")"
  | MOutOfFuel -> ps "(fuel)"
let p_env = function
  | L [r; m; te; tr; h] -> { e_res = p_result r; e_mw = p_mw m; e_term = p_bool te; e_trunc = p_bool tr; e_hist = p_nat h }
  | x -> bad "env" x
let penv e = ps "("; presult e.e_res; ps " "; pmw e.e_mw; ps " "; pi (if e.e_term then 1 else 0); ps " ";
  pi (if e.e_trunc then 1 else 0); ps " "; pnat e.e_hist; ps ")"
let penvout = function
  | EOk (e, lg) -> ps "(ok "; penv e; ps " "; plogv lg; ps " ";
      (match env_makespan e with None -> ps "-" | Some z -> pz z); ps ")"
  | ERaise e -> ps "(raise "; perr e; ps ")"
  | EOutOfFuel0 -> ps "(fuel)"

