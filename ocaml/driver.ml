(* Line-oriented driver around the extracted model (ocaml/gen/sm.ml).
   Reads commands on stdin, one per line, prints one result line per command. *)
open Sm
open Codec

(* ---- oracle ---- *)
let sigma_tab : int array array ref = ref [||]
let sigma (id : nat) (k : nat) : z =
  let a = int_of_nat id and kk = int_of_nat k in
  if a < Array.length !sigma_tab && kk < Array.length (!sigma_tab).(a) then z_of_int (!sigma_tab).(a).(kk) else Z0

let cur_inst : inst option ref = ref None
let get_inst () = match !cur_inst with Some i -> i | None -> raise (Parse "no instance")

let () =
  try
    while true do
      let line = input_line stdin in
      Buffer.clear b;
      (try
        (match parse_all (tokenize line) with
         | [] -> ps "(empty)"
         | A "I" :: [x] -> cur_inst := Some (p_inst x); ps "(inst)"
         | A "G" :: [L rows] ->
             sigma_tab := Array.of_list (List.map (fun r -> Array.of_list (p_list p_int r)) rows); ps "(sigma)"
         | A "V" :: [n] -> logv := p_int n; ps "(logv)"
         | A "S" :: [fuel; x; trs; tm] ->
             poutcome (step sigma (get_inst ()) (p_nat fuel) (p_state x) (p_list p_tr trs) (p_tm tm))
         | A "O" :: [x] ->
             (match get_possible_transitions (get_inst ()) (p_state x) with
              | Ok l -> ps "(ok "; plist ptr l; ps ")" | Err e -> ps "(raise "; perr e; ps ")")
         | A "A" :: [x; tr] ->
             (match apply_transition sigma (get_inst ()) (p_state x) (p_tr tr) with
              | Ok x' -> ps "(ok "; pstate x'; ps ")" | Err e -> ps "(raise "; perr e; ps ")")
         | A "W" :: [fuel; r; m; a] ->
             pmwout (mw_step sigma (get_inst ()) (p_nat fuel) (p_result r) (p_mw m) (p_z a))
         | A "R" :: [fuel; x; joker; ta; m] ->
             pmwout (mw_reset sigma (get_inst ()) (p_nat fuel) (p_state x) (p_z joker) (p_bool ta) (p_mw m))
         | A "E" :: [fuel; e; a] ->
             penvout (env_step sigma (get_inst ()) (p_nat fuel) (p_env e) (p_z a))
         | A cmd :: args when Monitors.handles cmd -> Monitors.run cmd !cur_inst args
         | _ -> ps "(error unknown-command)")
      with
      | Parse m -> Buffer.clear b; ps ("(error parse " ^ m ^ ")")
      | Stack_overflow -> Buffer.clear b; ps "(error stack-overflow)");
      print_string (Buffer.contents b); print_newline ()
    done
  with End_of_file -> ()
