#!/bin/sh
# builds the extracted-model driver; gen/sm.ml(i) come from coq/Extract/Extract.v
set -e
cd "$(dirname "$0")"
ocamlfind ocamlopt -O2 -w -a -I gen gen/sm.mli gen/sm.ml codec.ml monitors.ml driver.ml -o driver 2>/dev/null || \
ocamlfind ocamlopt -w -a -I gen gen/sm.mli gen/sm.ml codec.ml monitors.ml driver.ml -o driver
