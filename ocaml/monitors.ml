(* Monitor commands: evaluate the extracted boolean predicates (the very definitions the
   theorems talk about) on implementation states. *)
open Sm
open Codec
let handles (cmd : string) = List.mem cmd ["M"; "EV"; "LB"; "RW"]
let run (cmd : string) (io : inst option) (args : sx list) : unit =
  let i () = match io with Some i -> i | None -> raise (Parse "no instance") in
  match cmd, args with
  | "M", [x] ->
      let v = clause_vector (i ()) (p_state x) in
      ps "("; List.iteri (fun k b -> if k > 0 then ps " "; ps (if b then "1" else "0")) v; ps ")"
  | "EV", [x; tr; x'] ->
      let v = event_vector (i ()) (p_state x) (p_tr tr) (p_state x') in
      ps "("; List.iteri (fun k b -> if k > 0 then ps " "; ps (if b then "1" else "0")) v; ps ")"
  | "LB", [L jobs] ->
      let ci = List.map (p_list (function L [m; d] -> (p_nat m, p_z d) | x -> bad "cop" x)) jobs in
      (match lower_bound ci with
       | Some v -> ps "(lb "; pz v; ps " "; pz (total_work ci); ps ")"
       | None -> ps "(none)")
  | "RW", [sn; sd; dn; dd; tn; td; tmax; lb; nops; njobs; streak; time; term; trunc; noop] ->
      let mkq n d = { qnum = p_z n; qden = pos_of_int (p_int d) } in
      let c = { rc_sparse = mkq sn sd; rc_dense = mkq dn dd; rc_trunc = mkq tn td; rc_tmax = p_z tmax; rc_lb = p_z lb;
                rc_nops = p_z nops; rc_njobs = p_nat njobs } in
      (match reward c (p_nat streak) (p_z time) (p_bool term) (p_bool trunc) (p_bool noop) with
       | Ok (qv, st) -> ps "(ok "; pz qv.qnum; ps " "; pi (int_of_pos qv.qden); ps " "; pnat st; ps ")"
       | Err e -> ps "(raise "; perr e; ps ")")
  | _ -> ps "(error monitor-args)"
