(* Monitor commands: evaluate the extracted boolean predicates (the very definitions the
   theorems talk about) on implementation states. *)
open Sm
open Codec
let handles (cmd : string) = false
let run (cmd : string) (i : inst) (args : sx list) : unit = ()
