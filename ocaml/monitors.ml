(* Monitor commands: evaluate the extracted boolean predicates (the very definitions the
   theorems talk about) on implementation states. *)
open Sm
open Codec
let handles (cmd : string) = List.mem cmd ["M"; "EV"; "LB"; "RW"; "OB"; "OA"; "DC"]
let run (cmd : string) (io : inst option) (args : sx list) : unit =
  let i () = match io with Some i -> i | None -> raise (Parse "no instance") in
  match cmd, args with
  | "M", [x] ->
      let v = clause_vector (i ()) (p_state x) in
      ps "("; List.iteri (fun k b -> if k > 0 then ps " "; ps (if b then "1" else "0")) v; ps ")"
  | "EV", [x; tr; x'] ->
      let v = event_vector (i ()) (p_state x) (p_tr tr) (p_state x') in
      ps "("; List.iteri (fun k b -> if k > 0 then ps " "; ps (if b then "1" else "0")) v; ps ")"
  | "LB", [L jobs] ->
      let ci = List.map (p_list (function L [m; d] -> (p_nat m, p_z d) | x -> bad "cop" x)) jobs in
      (match lower_bound ci with
       | Some v -> ps "(lb "; pz v; ps " "; pz (total_work ci); ps ")"
       | None -> ps "(none)")
  | "RW", [sn; sd; dn; dd; tn; td; tmax; lb; nops; njobs; streak; time; term; trunc; noop] ->
      let mkq n d = { qnum = p_z n; qden = pos_of_int (p_int d) } in
      let c = { rc_sparse = mkq sn sd; rc_dense = mkq dn dd; rc_trunc = mkq tn td; rc_tmax = p_z tmax; rc_lb = p_z lb;
                rc_nops = p_z nops; rc_njobs = p_nat njobs } in
      (match reward c (p_nat streak) (p_z time) (p_bool term) (p_bool trunc) (p_bool noop) with
       | Ok (qv, st) -> ps "(ok "; pz qv.qnum; ps " "; pi (int_of_pos qv.qden); ps " "; pnat st; ps ")"
       | Err e -> ps "(raise "; perr e; ps ")")
  | "OB", [tmax; x; offers; dn] ->
      let st = p_state x in
      let pq (qv : q) = ps "("; pz qv.qnum; ps " "; pi (int_of_pos qv.qden); ps ")" in
      let pzl l = plist pz l in
      (match make_simple (i ()) (p_z tmax) st with
       | Ok o ->
           ps "(simple "; pzl o.ob_job_running; ps " "; plist pzl o.ob_executed; ps " "; pzl o.ob_job_progression; ps " ";
           pzl o.ob_machine_running; ps " "; pzl o.ob_machine_progression; ps " "; pzl o.ob_available; ps " ";
           pq o.ob_time; ps " "; pi (if simple_int_fields_in_space (i ()) o then 1 else 0); ps " ";
           pi (if time_in_space o then 1 else 0); ps ")"
       | Err e -> ps "(raise "; perr e; ps ")");
      ps " ";
      (match current_transition (i ()) st (p_list p_tr offers) (p_bool dn) with
       | Ok ((a, bq), c) -> ps "(ct "; pq a; ps " "; pq bq; ps " "; pq c; ps " ";
           pi (if triple_in_space ((a, bq), c) then 1 else 0); ps ")"
       | Err e -> ps "(raise "; perr e; ps ")")
  | "OA", [L labels; x] ->
      let tab = List.map (function L [bd; n] -> (p_bid bd, p_z n) | y -> bad "label" y) labels in
      let label bd = try List.assoc bd tab with Not_found -> Z0 in
      let pq (qv : q) = ps "("; pz qv.qnum; ps " "; pi (int_of_pos qv.qden); ps ")" in
      (match make_oparray (i ()) label (p_state x) with
       | Ok (ops, locs) -> ps "(oa "; plist pq ops; ps " "; plist pq locs; ps ")"
       | Err e -> ps "(raise "; perr e; ps ")")
  | "DC", [doc; early] ->
      (match compile (p_ddoc doc) (p_bool early) with
       | Ok ((ci, cx), lb) ->
           ps "(ok "; pinst ci; ps " "; pstate cx; ps " (";
           plist pnat lb.lb_std; ps " "; plist (fun ((a, b), c) -> ps "("; pnat a; ps " "; pnat b; ps " "; pnat c; ps ")") lb.lb_mach;
           ps " "; plist pnat lb.lb_agv; ps "))"
       | Err e -> ps "(raise "; perr e; ps ")")
  | _ -> ps "(error monitor-args)"
