(* Monitor commands: evaluate the extracted boolean predicates (the very definitions the
   theorems talk about) on implementation states. *)
open Sm
open Codec
let handles (cmd : string) = (cmd = "M" || cmd = "EV")
let run (cmd : string) (i : inst) (args : sx list) : unit =
  match cmd, args with
  | "M", [x] ->
      let v = clause_vector i (p_state x) in
      ps "("; List.iteri (fun k b -> if k > 0 then ps " "; ps (if b then "1" else "0")) v; ps ")"
  | "EV", [x; tr; x'] ->
      let v = event_vector i (p_state x) (p_tr tr) (p_state x') in
      ps "("; List.iteri (fun k b -> if k > 0 then ps " "; ps (if b then "1" else "0")) v; ps ")"
  | _ -> ps "(error monitor-args)"
